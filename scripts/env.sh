# Environment for everything that touches Go (see DESIGN.md §3).
export PATH=/opt/veriftools/go1.26.8/bin:$PATH
export GOTOOLCHAIN=local GOFLAGS=-mod=mod GOPROXY=off
unset GOWORK
export GOWORK=off
