#!/usr/bin/env python3
"""Rewrites the section between <!-- SEEDED-BEGIN --> and <!-- SEEDED-END --> in DESIGN.md from
seeded/<prop>-<k>/{meta.json,checks.txt,confirm.txt}."""
import json, os, re, glob
HERE = os.path.dirname(os.path.dirname(os.path.abspath(__file__)))
rows = []
for d in sorted(glob.glob(os.path.join(HERE, "seeded", "*C*-*"))):
    name = os.path.basename(d)
    prop = re.search(r"C\d\d", name).group(0)
    try:
        meta = json.load(open(os.path.join(d, "meta.json")))
    except Exception as e:
        continue
    checks = open(os.path.join(d, "checks.txt"), errors="replace").read() if os.path.exists(os.path.join(d, "checks.txt")) else ""
    fired = re.findall(r"^FIRES (C\d\d): (.*)$", checks, re.M)
    ids = [f[0] for f in fired]
    rule = ""
    for pid, line in fired:
        if pid == prop:
            m = re.search(r"(C\d\d\.[A-Za-z0-9]+)/", line)
            rule = m.group(1) if m else ""
    note_path = os.path.join(d, "note.txt")
    note = open(note_path).read().strip() if os.path.exists(note_path) else ""
    own = "yes" if prop in ids else "**no**"
    others = ", ".join(i for i in ids if i != prop) or "—"
    title = meta.get("title", "").replace("|", "/")
    if len(title) > 150:
        title = title[:147] + "..."
    rows.append(f"| {name} | {title} | {own}{(' (' + rule + ')') if rule else ''} | {others} | {note} |")
hdr = ["Each of the 20 properties was given to a fresh sub-agent that saw only the property text and a",
       "scratch worktree of the library (nothing from /verif) and was asked for two realistic changes that",
       "break the property while compiling and passing the unedited suite, each with a demonstration test",
       "that fails with the change and passes without it. Every change was confirmed here (patch applies,",
       "builds, demo fails with / passes without, suite passes with the change) and then every property's",
       "quick check was run against the changed tree (`scripts/seedcheck.sh`). Stored under",
       "`seeded/<id>-<k>/` (patch.diff, demo, meta.json, checks.txt = which checks fired and their first",
       "report). None of these changes is committed in /repo.",
       "",
       "First pass (checker as it stood when the changes came back): 24 of the 40 were reported by their",
       "own property's check, 3 more only by another property's check, 13 by none. Each miss was traced",
       "to a clause the rules did not yet decide, and a structural rule was added where one exists that is",
       "a necessary condition of the property and silent on the unchanged tree (column \"note\"); the",
       "patches were also added to `mutants/` so the thorough tier keeps exercising them. After that pass",
       "all 40 are reported by their own property's check. The same strengthening found two more genuine",
       "defects on the unchanged tree (C16.X6, C14.N4 — §6). The sub-agents also reported behaviours of",
       "the unchanged tree that no static rule here decides (§6, last paragraph).",
       "",
       "**Second round** (rows `r2-…`): after that strengthening, 20 new sub-agents were asked for two more",
       "changes each, steered away from plain guard removals (wrong accessor with the same value in all",
       "tests, state shared between calls, caches, early returns on rare branches, conversions that only",
       "matter for large values). First pass on these 40 unseen changes: 28 reported by their own",
       "property's check, 5 more only by another property's check, 7 by none — i.e. 33 of 40 by some",
       "check (round one: 27 of 40). After a second strengthening pass 38 are reported by their own",
       "property's check, 1 only by another (r2-C14-2), and 1 by none (r2-C03-2, extent arithmetic —",
       "listed under C03 'Not decided'; closed in round 7 by C03.S5).",
       "",
       "**Third round** (rows `r3-…`, 10 properties × 2): steered towards places where two pieces of code",
       "must agree (a size computed in one helper and consumed in another, a constant shared by writer",
       "and reader, an invariant established in one function and relied on in another). First pass on",
       "these 20 unseen changes: 15 reported by their own property's check, 3 more only by another",
       "property's check, 2 by none. After strengthening (C01.R11, C14.N6, C10.T4/C14.N7): 18 own, 1 only",
       "by another (r3-C03-1), 1 by none (r3-C06-2: a content-dependent shortcut in the mapping value",
       "reader).",
       "",
       "**Fourth round** (rows `r4-…`, the other 10 properties × 2): steered towards defects that need a",
       "combination of inputs, code that is right on the tested part of a value range only, shared",
       "helpers that are right for some callers, and normalisation steps applied once too often. First",
       "pass: 13 own, 4 more only by another property's check, 3 by none. One of the three (r4-C15-2)",
       "turned out to *rely on a genuine defect of the unchanged tree* (`DateFromTime` inexact after",
       "2262): that became rule C15.A7 and fix d047e3c (§6), after which the change is",
       "behaviour-preserving. After strengthening (C16.X2 whole secret, C16.X7, C19.P1, C02.L8, C02.L9 =",
       "C15.A7): 18 own, 1 only by another (r4-C07-2), 0 missed. Three independent sub-agents (C02, C07,",
       "C10) chose the same key-block padding shortcut for DSA + 32-byte crypto keys; the shared layout",
       "rule reports it under five properties.",
       "",
       "**Fifth round** (rows `r5-…`, the ten properties of round 3 again, after two refactoring rounds had",
       "loosened several rules): steered towards changes hidden inside plausible refactorings, aliasing",
       "and copy semantics, errors logged but no longer returned, declared-vs-actual lengths, and integer",
       "conversions that only matter for large values. First pass: 13 own, 5 more only by another",
       "property's check, 2 by none (a uint16 sum that wraps consistently; a validator that stopped",
       "comparing a declared length). After strengthening (C03.S4 = C01.R13 = C06.G7 narrow-width",
       "arithmetic cannot wrap; C14.N8 declared length = len(data) in everything Validate accepts; C14.N9;",
       "C18: memory behind library package-level variables is shared, access paths through comma-ok map",
       "lookups): 19 own, 1 only by another (r5-C01-2), 0 missed.",
       "",
       "**Sixth round** (rows `r6-…`, the ten properties of round 4 again, same guidance as round 5): first",
       "pass 15 own, 4 more only by another property's check, 1 by none (a deferred wipe of the decrypted",
       "buffer). After strengthening (C16.X8; C02.L10 = C12.P8 = C03.S4; C12.P9 = C19.P1; C10 now",
       "requires the exported lookups confirmed on the pinned tree to stay extractable — a rewritten",
       "lookup had silently dropped out of the comparison): 19 own, 1 only by another (r6-C12-1), 0 missed.",
       "",
       "**Seventh round** (rows `r7-…`, the ten properties of rounds 3 and 5 again): steered towards wrong-but-",
       "plausible logic rather than removed guards — fast paths right for the common case only, caches and",
       "reused buffers, helpers that drop one caller's special case, two cooperating sites, defaults that",
       "differ between entry points. First pass (checker as committed before the round): 13 own, 3 more only",
       "by another property's check (r7-C06-1, r7-C06-2, r7-C14-1), 4 by none. One of the four (r7-C03-2) was",
       "the very change of r2-C03-2, the one documented miss of every earlier round, written again",
       "independently. After strengthening (C03.S5 declared extent honoured; C01.R14 no value-selected",
       "partial serialisation; C01.R15 fixed-width fields are encoded from the stored value, never from a",
       "size table; C06.G8 = C11.M5): 17 own, 2 only by another, 1 by none (r7-C14-2: a fail-fast parser guard that assumes",
       "a 64-byte trailing signature). r7-C18-2's race demonstration passed once with the change at machine",
       "load 200 and fails reliably on an idle machine (recorded in its confirm.txt).",
       "",
       "Over the seven rounds the first-pass rate of the own property's check on unseen changes was 24/40,",
       "28/40, 15/20, 13/20, 13/20, 15/20, 13/20 (by some check: 27/40, 33/40, 18/20, 17/20, 18/20, 19/20, 16/20): the",
       "sub-agents were steered to something new each round, and each round still found clauses no rule",
       "decided. What the numbers support is that a realistic breaking change is very likely to be",
       "reported by *some* check (≈ 88 % on unseen changes in the last five rounds) and that the misses",
       "were each closable by a structural rule; they do not support a claim of completeness.",
       "",
       "Patches are relative to /repo at the commit current when they were written; r4-C02-1 touches a",
       "line changed by fix d047e3c and is kept rebased next to the original.",
       "",
       "| change | what it does | own property's check fires | other checks that fire | note |",
       "|--------|--------------|---------------------------|------------------------|------|"]
body = "\n".join(hdr + rows)
p = os.path.join(HERE, "DESIGN.md")
s = open(p).read()
s = re.sub(r"<!-- SEEDED-BEGIN -->.*<!-- SEEDED-END -->", "<!-- SEEDED-BEGIN -->\n" + body + "\n<!-- SEEDED-END -->", s, flags=re.S)
open(p, "w").write(s)
n_own = sum(1 for r in rows if "| yes" in r)
print(f"{len(rows)} seeded changes, {n_own} caught by their own property's check")
