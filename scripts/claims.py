# Per-property claims; exec'd by gen_manifest.py (claim(id, technique, text, note, design_ref)).
PENDING = "check not built yet in this framework (DESIGN.md §8 build order); no verdict is claimed until its rule set runs clean both ways"
for _p in ["C01","C02","C03","C04","C14","C19"]:
    NOT_APPLICABLE[_p] = PENDING

claim("C10",
  "path-sensitive interval partitioning of SSA control flow + go/types constant tables, exhaustive over 16-bit codes",
  "Every size lookup (4 map literals, switches, methods, helper functions — discovered, not named) is extracted statically as a total function of the type code and compared with the frozen I2P 0.9.67 table and with its siblings on all 65,536 codes; type-code validators' accept sets are compared the same way. This decides the table-agreement clause of the property for every code, which no finite test list does. It does not decide where key bytes land for arbitrary key material.",
  "Trusted: go/types constant folding, go/ssa, the spec table in checker/internal/rules/spec.go. Lookups are recognised by behaviour (>=3 codes mapped to constants, >=70% agreement with one spec column); a function that resembles a table but matches none is reported as undecided, not skipped.",
  "DESIGN.md §5 C10")

claim("C09",
  "construction-site enumeration + dominance/edge-cut reachability on SSA CFG; validator reject regions by interval partitioning, exhaustive over 16-bit codes",
  "Every place in the library where a Destination or RouterIdentity receives a non-nil KeysAndCert is enumerated from the SSA program (not from examples), and each must be behind the success edge of a checked key-type validator on that same value, or derive from an identity whose prohibited sets are a superset. The validators' reject regions are extracted as functions of the type codes and compared with the specification sets on all 65,536 codes (equality, so permitted types are never rejected). This covers every API path at once, which is what the tests cannot enumerate.",
  "Trusted: go/ssa; values assembled by callers through the exported embedded field are out of scope. The validator is evaluated under the assumption that KeysAndCert and KeyCertificate are non-nil.",
  "DESIGN.md §5 C09")

claim("C13",
  "SSA pattern check of pure delegation to the standard encodings + initialiser/alphabet constants + no-store-to-global scan + guard regions by interval partitioning",
  "Shows that the base32/base64 packages add nothing to Go's standard RFC 4648 encoders except the I2P alphabets and the Safe length guards: encoding globals are NewEncoding(I2P alphabet)[.WithPadding(NoPadding)] and are never stored to again anywhere in the program; each exported function is guards + one pass-through call of the matching Encoding method; Safe guards reject exactly len==0 and len>MAX; MAX_DECODE_SIZE = EncodedLen(MAX_ENCODE_SIZE). Round trip and strict-alphabet behaviour for all inputs then follow from the standard library, which a sampled test cannot establish for this wrapper either way.",
  "Trusted: correctness of encoding/base32 and encoding/base64 (round trip, foreign characters rejected, CR/LF skipped, padding validated). Function roles (NoPadding/Safe) are taken from the exported function names.",
  "DESIGN.md §5 C13")

claim("C12",
  "guard-region extraction (interval partitioning over SSA paths) per constructor/decoder, constant checks, byte-order use scan with canary, range-at-conversion analysis",
  "Decides the domain half of the primitives for all inputs: which (value,width) pairs, input lengths and millisecond values each constructor/decoder rejects is extracted statically and compared with the specified domain — widths 1..8; for each width n exactly [0,2^(8n)-1]; 1..8 input bytes for decoders; strings up to 255 bytes; every fixed-size reader rejects exactly len<size — plus: only big-endian primitives are used anywhere in the library, narrowing conversions in the primitive files are reached only with fitting values, and the unsigned accessor does not detour through a signed type. The boundaries (2^(8n), 255/256, size 0/9) are decided exactly rather than sampled. Value-level decode(encode(x)) = x is not decided.",
  "Trusted: go/ssa, encoding/binary.BigEndian. Assumes 64-bit int. Exported API names (NewIntegerFromInt, EncodeIntN, DecodeIntN, …) are anchors; fixed-size readers are discovered by signature.",
  "DESIGN.md §5 C12")

claim("C17",
  "call-graph closure scan for resolver calls + path-sensitive abstract evaluation of the accessors under each assumption about net.ParseIP/To4 + interval partitioning on the strconv.Atoi result",
  "Shows for every input at once that (a) nothing reachable from a RouterAddress method can resolve a name: the only package-net resolver call is ResolveIPAddr(\"\", ip.String()) of a non-nil ParseIP result; (b) Host, HasValidHost and the host-derived IP version all gate on net.ParseIP: assuming it returns nil every path fails/false/empty, assuming non-nil success is possible and the value is that ResolveIPAddr result, IPv4/IPv6 follows To4; (c) Port and HasValidPort accept exactly Atoi values in [1,65535] and Port returns Itoa of that value; (d) option lookup matches whole keys with ==; (e) StaticKey/IV accept exactly their array length. The separately written predicates are thereby shown to share gate and region for all strings, which examples cannot.",
  "Trusted: net.ParseIP accepts exactly IP literals; strconv.Atoi/Itoa; VTA call graph. Exported accessor names are anchors.",
  "DESIGN.md §5 C17")

claim("C15",
  "type-derived interval analysis in arbitrary precision over every integer operation of the time functions + unit (s/ms/µs/ns) analysis to the time.* / wire sinks + guard-region extraction for NewLease2 + structural checks of IsExpired and the extremum accumulators",
  "For all representable field values at once: no +,-,*,<< or conversion in any function that takes or yields a time.Time/data.Date can wrap or truncate (ranges derived from the wire field types, not from samples — this is exactly where 2^31, 2^32-1 and sums crossing 2^32 live); every value reaching time.Unix/UnixMilli/Add/PutUint32/PutUint64 carries the unit the sink expects; NewLease2 rejects exactly times outside [0,2^32-1] and its narrowing is only reached with fitting values; expiry = published + expires from the structure's own fields; each IsExpired is now.After(own expiry); Newest/OldestExpiration keep only Date() of the receiver's leases under After/Before. Does not evaluate dates (day-past/day-future outcomes) or prove that the extremum bounds all others beyond the comparator direction.",
  "Trusted: package time; go/ssa. Assumes 64-bit int and, from the property text, 8-byte millisecond dates below 2^63 (same-width reinterpretations admitted).",
  "DESIGN.md §5 C15")

claim("C05",
  "path-sensitive abstract evaluation of every Verify* method under each assumption about the cryptographic primitive and the offline-signature check + interprocedural backward provenance slicing of the primitive's key/message/signature operands",
  "Decides for every input at once the soundness skeleton of verification: if the cryptographic primitive fails no path reports success; success paths always executed it; the transient (offline) key is used only on paths where (*OfflineSignature).VerifySignature succeeded against the structure's own identity key; the verifying key has no origin other than the receiver's own identity/blinded key/offline block; the verified message is built from every field of the receiver with exactly the specified DatabaseStore prefix byte (3/7/5, none for LeaseSet/RouterInfo); the signature operand is the receiver's own. A forged offline block, a swapped key source, a dropped prefix or an ignored primitive result are therefore caught without constructing such inputs. Cryptographic validity is trusted to the primitives; equality of re-serialised and received bytes is C01's clause.",
  "Trusted: go-i2p/crypto verifiers and crypto/ed25519; go/ssa. Verifiers are discovered (exported Verify* methods reaching a primitive). The store-type prefix table (LeaseSet2=3, MetaLeaseSet=7, EncryptedLeaseSet=5) is the checker's frozen copy of the specification.",
  "DESIGN.md §5 C05")

claim("C07",
  "interprocedural backward provenance slicing of the hashed / encoded / compared bytes + SSA shape check of the address construction + never-reassigned check of the digest function variable",
  "Shows that every identity hash, base32/base64 address and equality in the library is computed from exactly (*KeysAndCert).Bytes() of the identity's own KeysAndCert — unsliced, nothing mixed in — through crypto/sha256.Sum256 (types.SHA256 is initialised to it and never stored to), TrimRight(base32(full digest),\"=\")+\".b32.i2p\" (60 characters) and the I2P base64; equality is byte equality of the two serialisations; and KeysAndCert.Bytes draws on every field (keys, padding, certificate). So padding and certificate bytes always take part, for every identity — a statement the example-based tests cannot make. That changing any byte changes the hash is a property of SHA-256 (not decided).",
  "Trusted: crypto/sha256, base encodings (C13), bytes.Equal/ConstantTimeCompare. Exported accessor names are anchors. Placement of bytes inside KeysAndCert.Bytes is C01/C10's clause.",
  "DESIGN.md §5 C07")

claim("C06",
  "field-sensitive interprocedural provenance slicing of the stored signature, the signed message and the signing key in every signing constructor; producer identity between signing and verifying side",
  "For every exported constructor that takes a signing private key and returns a structure with a signature: the stored signature must originate from a cryptographic signing primitive (NewLeaseSet2's placeholder is reported as a known finding); every argument stored in the structure is also an origin of the signed message (content, not just its length); the key operand is the constructor's key parameter; and the function producing the signed bytes is the very function producing the verified bytes in C05 (RouterInfo, EncryptedLeaseSet) or a twin with the same prefix constants (LeaseSet, OfflineSignature; their field order is compared under C01). This decides, for all admissible arguments, the structural half of 'what the library signs it also verifies'; that verification then succeeds for every content rests on C01/C11 and the signature scheme.",
  "Trusted: go-i2p/crypto signers, crypto/ed25519; go/ssa. Constructors are discovered by signature (New*/Create* with a private-key parameter and a result carrying a signature field). Known finding: NewLeaseSet2 never signs.",
  "DESIGN.md §5 C06")

claim("C16",
  "call-graph closure scan for nondeterminism sources (with canary) + provenance slicing at the KDF / NewKeysAndCert / BlindPublicKey call sites + assumption-based evaluation around the AEAD open + affine comparison of encrypt/decrypt offsets",
  "Shows for all destinations, secrets and instants that blinding is a deterministic function of (destination, secret, UTC calendar day): nothing reachable from CreateBlindedDestination in the library or go-i2p/crypto reads a clock, a random source, iterates a map or starts a goroutine, and the day string is date.UTC().Format(2006-01-02); the blinded destination keeps the same destination's key certificate, encryption key and padding; VerifyBlindedSignature is exactly BlindPublicKey(original, alpha) == blinded key. For the encrypted inner leaseset: if the AEAD open fails no value is returned, the value returned is parsed from the authenticated plaintext only, and the byte ranges read on decryption are, as affine forms in the input length, the mirror image of what encryption appends (32|12|ct|16). decrypt(encrypt(x)) = x and rejection of every modified ciphertext byte are properties of X25519/HKDF/ChaCha20-Poly1305 (trusted).",
  "Trusted: go-i2p/crypto kdf/ed25519/chacha20poly1305, go.step.sm x25519, VTA call graph (interface calls resolved by VTA). Logging is excluded from the nondeterminism scan.",
  "DESIGN.md §5 C16")

claim("C11",
  "dominance of the sort over construction + SSA shape of the comparator and of the size field + guard constants + call-graph closure scan for map iteration/sorting + threshold region (interval partitioning) vs. the writer's minimal pair",
  "Decides the canonical-form skeleton of the mapping codec for all maps/inputs: the constructor path always sorts by decoded key with `<` before building; Data() writes len(payload) of the very payload it appends; sizes above 65,535 are rejected and the guarded value is the encoded one; nothing reachable from Data()/ReadMapping iterates a Go map or sorts (stored and wire order are kept, so output does not depend on map iteration order); the reader's stop threshold (extracted as a region on the remaining length) is not above the writer's smallest pair (4 bytes) and a non-empty shorter tail is reported. The threshold clause found and fixed the silently dropped short final pair. map→bytes→map identity as a value equality is not decided.",
  "Trusted: sort.SliceStable semantics; go/ssa. Anchors: data.ValuesToMapping, GoMapToMapping, (*Mapping).Data, ReadMapping, parseKeyValuePairs, serializeOnePair (the last two unexported; a rename makes the check fail loudly rather than pass).",
  "DESIGN.md §5 C11")

claim("C08",
  "summary-based, context- and field-sensitive may-alias (value-flow) analysis over SSA seeded at the parser's input parameter; same analysis seeded at the receiver for documented-copy accessors",
  "For every exported parser of the structures the property names (22 entry points today) the analysis shows that no access path of the value returned on success can hold a reference into the caller's buffer, except the options/properties mappings the property exempts; for accessors documented as returning copies it shows the result is not the receiver's memory. The verdict is per path of the result and independent of the key type or input, which is exactly what the example tests cannot sweep. It found the Ed25519-family signing key and the fast-path padding aliasing (fixed in bf4918e).",
  "Trusted: go/ssa; VTA targets for interface calls; bodies of third-party packages are analysed, standard-library calls follow a summary table (no-flow for formatting/encoding/hashing/logging, may-alias otherwise); no unsafe/reflect in the library (checked). The heap abstraction is flow-insensitive (may-alias), so a clean result is sound; a report names the result path.",
  "DESIGN.md §5 C08")

claim("C18",
  "effect analysis: the value-flow engine run from every read-only entry point with all receiver/argument memory seeded as shared, reporting every write whose target may be shared; library-wide never-written-after-init check for package-level variables; go-statement scan",
  "For each of ~580 exported methods/functions (documented mutators and the certificate builder excluded by a reviewed table) no instruction in its closure — store, map update, copy destination, in-place append, sort/PutUint/rand.Read target — can write memory reachable from the receiver, an argument or a package-level variable; appends onto shared slices are admitted only where every store to the source field library-wide assigns a slice without spare capacity (Certificate.kind/len); all ~50 package-level variables (size tables, encodings, loggers, sentinels) are never written after initialisation; the library starts no goroutines. With no write to shared state, no interleaving of read-only calls can race or change a result, so schedules need not be explored — which is what the single-goroutine suite cannot show.",
  "Trusted: logger, oops, standard library and go-i2p/crypto are safe for concurrent use and do not write through the references they are given (except the listed mutators: sort.*, binary.PutUintN, rand.Read, io.ReadFull); go/ssa; VTA call graph. Flow-insensitive may-alias heap: a clean result is sound under these assumptions.",
  "DESIGN.md §5 C18")

claim("C20",
  "nil-state abstract interpretation: path-sensitive evaluation of every exported argument-free method on the zero value of its type and on every abstract value an exported parser can return together with an error (shapes extracted by evaluating the parsers on an unknown input)",
  "Exhaustive over (exported type, exported argument-free method) pairs — ~260 incl. promoted methods — and over the distinct partially filled values (≈40 shapes, ≈800 method×shape evaluations) that the library's own parsers return with a non-nil error: any instruction that must panic on an explored path (nil dereference, field access through nil, indexing/slicing an empty slice, write to a nil map, call on a nil interface, type assertion on nil, explicit panic) is reported with type, method, shape and position; Verify* methods must not report success on the zero value. It found the KeysAndCert.Certificate and RouterInfo capability/version panics (fixed in 58d8667). Methods with parameters, and callees that receive only unknown arguments, are not explored.",
  "Trusted: go/ssa. External calls return unknown values whose dereference is never reported; library callees are explored only while some argument carries known state (definite nil or a tracked object). Loops are unrolled once and then evaluated with unknown conditions for the rest of that loop.",
  "DESIGN.md §5 C20")
