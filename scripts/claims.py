# Per-property claims; exec'd by gen_manifest.py (claim(id, technique, text, note, design_ref)).
PENDING = "check not built yet in this framework (DESIGN.md §8 build order); no verdict is claimed until its rule set runs clean both ways"
for _p in ["C01","C02","C03","C04","C05","C06","C07","C08","C09","C11","C12","C13","C14","C15","C16","C17","C18","C19","C20"]:
    NOT_APPLICABLE[_p] = PENDING

claim("C10",
  "path-sensitive interval partitioning of SSA control flow + go/types constant tables, exhaustive over 16-bit codes",
  "Every size lookup (4 map literals, switches, methods, helper functions — discovered, not named) is extracted statically as a total function of the type code and compared with the frozen I2P 0.9.67 table and with its siblings on all 65,536 codes; type-code validators' accept sets are compared the same way. This decides the table-agreement clause of the property for every code, which no finite test list does. It does not decide where key bytes land for arbitrary key material.",
  "Trusted: go/types constant folding, go/ssa, the spec table in checker/internal/rules/spec.go. Lookups are recognised by behaviour (>=3 codes mapped to constants, >=70% agreement with one spec column); a function that resembles a table but matches none is reported as undecided, not skipped.",
  "DESIGN.md §5 C10")
