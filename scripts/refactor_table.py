#!/usr/bin/env python3
"""Rewrites the sections between <!-- REFACTORn-BEGIN --> and <!-- REFACTORn-END --> (n = 2, 3) in
DESIGN.md from refactors/{b,c}-R*-k/{meta.json,checks.txt (first pass),checks_final.txt}."""
import json, os, re, glob, sys
HERE = os.path.dirname(os.path.dirname(os.path.abspath(__file__)))
def table(prefix, tag):
  global rows, n, silent_first, silent_now
  rows = []
  def fired(path):
      if not os.path.exists(path):
          return None
      t = open(path, errors="replace").read()
      m = re.search(r"SEEDCHECK fired:(.*)$", t, re.M)
      return m.group(1).strip() if m else "?"
  n = silent_first = silent_now = 0
  for d in sorted(glob.glob(os.path.join(HERE, "refactors", prefix + "-R*-*"))):
      name = os.path.basename(d)
      try:
          meta = json.load(open(os.path.join(d, "meta.json")))
      except Exception:
          continue
      first = fired(os.path.join(d, "checks.txt"))
      final = fired(os.path.join(d, "checks_final.txt"))
      n += 1
      silent_first += first == "none"
      silent_now += final == "none"
      title = meta.get("title", "").replace("|", "/")
      if len(title) > 170:
          title = title[:167] + "..."
      rows.append(f"| {name} | {title} | {first} | {final} |")
  hdr = ["| refactoring | what it does | alarms, first pass | alarms now |",
         "|-------------|--------------|--------------------|------------|"]
  body = "\n".join(hdr + rows)
  p = os.path.join(HERE, "DESIGN.md")
  s = open(p).read()
  s = re.sub(r"<!-- "+tag+"-BEGIN -->.*<!-- "+tag+"-END -->", "<!-- "+tag+"-BEGIN -->\n" + body + "\n<!-- "+tag+"-END -->", s, flags=re.S)
  open(p, "w").write(s)
  print(f"{tag}: {n} refactorings, silent first pass {silent_first}, silent now {silent_now}")
table("b", "REFACTOR2")
table("c", "REFACTOR3")
