#!/bin/sh
# Runs the repository's own test suite the way the baseline does and compares with BASELINE.json's stable_pass list.
cd /repo && GOFLAGS=-mod=mod GOPROXY=off go test -json -vet=off -count=1 -timeout 25m ./... > /tmp/suite.json 2>/tmp/suite.err
python3 - <<'PY'
import json
passed=set(); failed=set()
for l in open('/tmp/suite.json'):
    try: e=json.loads(l)
    except: continue
    if e.get('Test') and e.get('Action') in ('pass','fail'):
        (passed if e['Action']=='pass' else failed).add(e['Package']+'::'+e['Test'])
b=json.load(open('/root/.vp/BASELINE.json'))
sp=set(b['stable_pass'])
print("passed",len(passed),"failed",len(failed),"stable_pass missing:",len(sp-passed))
for t in sorted(sp-passed)[:20]: print("  MISSING",t)
for t in sorted(failed)[:20]: print("  FAILED",t)
PY
