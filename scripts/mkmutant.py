#!/usr/bin/env python3
"""mkmutant.py <prop> <name> <file> <old> <new> [<file> <old> <new> ...]
Writes mutants/<prop>/<name>.diff replacing the first occurrence of <old> by <new> in /repo/<file>."""
import sys, os, difflib
HERE = os.path.dirname(os.path.dirname(os.path.abspath(__file__)))
prop, name, rest = sys.argv[1], sys.argv[2], sys.argv[3:]
out = []
srcs, dsts = {}, {}
for i in range(0, len(rest), 3):
    f, old, new = rest[i:i+3]
    old = old.replace('\\n', '\n').replace('\\t', '\t'); new = new.replace('\\n', '\n').replace('\\t', '\t')
    srcs.setdefault(f, open(os.path.join("/repo", f)).read())
    cur = dsts.get(f, srcs[f])
    if old not in cur:
        sys.exit(f"{f}: pattern not found: {old!r}")
    dsts[f] = cur.replace(old, new, 1)
for f in srcs:
    out += list(difflib.unified_diff(srcs[f].splitlines(True), dsts[f].splitlines(True), "a/" + f, "b/" + f))
d = os.path.join(HERE, "mutants", prop)
os.makedirs(d, exist_ok=True)
open(os.path.join(d, name + ".diff"), "w").write("".join(out))
print("wrote", os.path.join(d, name + ".diff"))
