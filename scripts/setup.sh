#!/bin/sh
# Builds the checker from files on disk only (offline).
set -eu
HERE=$(cd "$(dirname "$0")/.." && pwd)
. "$HERE/scripts/env.sh"
mkdir -p "$HERE/bin" "$HERE/evidence/replay"
cd "$HERE/checker" && go build -o "$HERE/bin/i2pcheck" ./cmd/i2pcheck
echo "built $HERE/bin/i2pcheck with $(go version)"
