#!/bin/bash
# usage: scripts/confirm_seed.sh <prop> <k> [--suite]
# Confirms a seeded change produced by a sub-agent (in /tmp/seed/out/<prop>/<k>) inside the scratch
# worktree /tmp/seed/<prop>: patch applies and builds, demo fails with it and passes without it,
# optionally the full suite still passes with it. Then runs every property's quick check against it
# (scripts/seedcheck.sh) and stores the result under /verif/seeded/<prop>-<k>/.
set -u
P=$1; K=$2; SUITE=${3:-}
HERE=$(cd "$(dirname "$0")/.." && pwd)
BASE=${SEED_BASE:-/tmp/seed}
PFX=${SEED_PREFIX:-}
SRC=$BASE/out/$P/$K
WT=$BASE/$P
[ -f "$SRC/patch.diff" ] || { echo "CONFIRM $PFX$P-$K: no patch.diff"; exit 2; }
git -C "$WT" checkout -q -- . && git -C "$WT" clean -fdq
copy_to=$(python3 -c "import json,sys;print(json.load(open('$SRC/meta.json'))['demo']['copy_to'])")
run_cmd=$(python3 -c "import json,sys;print(json.load(open('$SRC/meta.json'))['demo']['run'])")
demo=demo_test.go; [ -f "$SRC/$demo" ] || demo=$(ls "$SRC" | grep -v "patch.diff\|meta.json" | head -1)
run_cmd=${run_cmd%% (*}
export GOFLAGS=-mod=mod GOPROXY=off
rundemo() { (cd "$WT" && cp "$SRC/$demo" "$copy_to" && timeout 600 bash -c "$run_cmd" > $SRC/.demo.$1.log 2>&1; echo $?; rm -f "$copy_to"); }
without=$(rundemo without)
if ! git -C "$WT" apply "$SRC/patch.diff"; then echo "CONFIRM $PFX$P-$K: patch does not apply"; exit 2; fi
if ! (cd "$WT" && go build ./... >/dev/null 2>&1); then echo "CONFIRM $PFX$P-$K: does not build"; git -C "$WT" checkout -q -- .; exit 2; fi
with=$(rundemo with)
suite="not-run"
if [ "$SUITE" = "--suite" ]; then
  if (cd "$WT" && go test -vet=off -count=1 ./... > $SRC/.suite.log 2>&1); then suite=pass; else suite=FAIL; fi
fi
git -C "$WT" checkout -q -- . && git -C "$WT" clean -fdq
fired=$(bash "$HERE/scripts/seedcheck.sh" "$SRC/patch.diff" 2>&1)
D="$HERE/seeded/$PFX$P-$K"
mkdir -p "$D"
cp "$SRC/patch.diff" "$SRC/meta.json" "$D/"; cp "$SRC/$demo" "$D/$demo"
echo "$fired" > "$D/checks.txt"
echo "CONFIRM $PFX$P-$K: demo_without_rc=$without demo_with_rc=$with suite=$suite | $(echo "$fired" | tail -1)"
