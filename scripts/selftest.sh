#!/bin/sh
# usage: scripts/selftest.sh [prop ...]   — runs every mutant under mutants/<prop>/ against a scratch
# copy of /repo (outside /repo and /verif, removed afterwards) and requires a VIOLATION from the check of <prop>.
# mutants/<prop>/<name>.diff ; optional first line "# expect: <substring>" names the construct the report must mention.
set -u
HERE=$(cd "$(dirname "$0")/.." && pwd)
. "$HERE/scripts/env.sh"
PROPS=${*:-$(ls "$HERE/mutants" 2>/dev/null)}
fail=0; total=0
for P in $PROPS; do
  for M in "$HERE"/mutants/$P/*.diff; do
    [ -f "$M" ] || continue
    total=$((total+1))
    S=$(mktemp -d /tmp/vscratch.XXXXXX)
    rsync -a --exclude .git /repo/ "$S/"
    if ! (cd "$S" && patch -p1 -s < "$M"); then echo "SELFTEST $P $(basename "$M"): patch does not apply"; fail=$((fail+1)); rm -rf "$S"; continue; fi
    if ! (cd "$S" && go build ./... 2>/dev/null); then echo "SELFTEST $P $(basename "$M"): mutant does not compile"; fail=$((fail+1)); rm -rf "$S"; continue; fi
    OUT=$("${I2PCHECK_BIN:-$HERE/bin/i2pcheck}" -repo "$S" -verif "$HERE" -prop "$P" -evidence "$S/.evidence.json" 2>&1); RC=$?
    EXP=$(sed -n '1s/^# expect: //p' "$M")
    if [ $RC -eq 1 ] && echo "$OUT" | grep -q "^VIOLATION property=$P" && { [ -z "$EXP" ] || echo "$OUT" | grep -qF "$EXP"; }; then
      echo "SELFTEST $P $(basename "$M"): caught ($(echo "$OUT" | grep -c '^VIOLATION') violation lines)"
    else
      echo "SELFTEST $P $(basename "$M"): MISSED (rc=$RC)"; echo "$OUT" | tail -5; fail=$((fail+1))
    fi
    rm -rf "$S"
  done
done
echo "selftest: $total mutants, $fail not caught"
[ $fail -eq 0 ]
