#!/usr/bin/env python3
"""Generates /verif/MANIFEST.json from the table below (one source of truth for what is claimed)."""
import json, os, sys
HERE = os.path.dirname(os.path.dirname(os.path.abspath(__file__)))

# id -> (technique, text, note, design_ref)
CLAIMED = {}
NOT_APPLICABLE = {}

def claim(pid, technique, text, note, ref):
    CLAIMED[pid] = dict(technique=technique, text=text, note=note, ref=ref)

exec(open(os.path.join(HERE, "scripts", "claims.py")).read())

props = [json.loads(l)["id"] for l in open(os.path.join(HERE, "properties.jsonl"))]
checks = []
for pid in props:
    if pid in CLAIMED:
        c = CLAIMED[pid]
        checks.append({
            "property_id": pid,
            "quick_cmd": f"./scripts/check.sh {pid} quick",
            "thorough_cmd": f"./scripts/check.sh {pid} thorough",
            "evidence_file": f"/verif/evidence/{pid}.json",
            "replay_cmd_template": f"./scripts/check.sh {pid} quick -replay {{path}}",
            "engine": "i2pcheck",
            "level_claimed": {"category": "other", "text": c["text"], "design_ref": c["ref"]},
            "level_note": c["note"],
            "technique": c["technique"],
        })
na = [{"property_id": pid, "reason": NOT_APPLICABLE.get(pid, "no sound static rule built for this property (see DESIGN.md)")}
      for pid in props if pid not in CLAIMED]
manifest = {
    "version": 1,
    "setup_cmd": "./scripts/setup.sh",
    "hooks": {
        "guard": "verif",
        "enable": "none needed: static analysis reads /repo's sources; no instrumentation is compiled in (go build tag 'verif' is reserved and unused)",
        "baseline_off_cmd": "cd /repo && GOFLAGS=-mod=mod GOPROXY=off go test -json -vet=off -count=1 -timeout 25m ./...",
        "source_commits": [],
        "add_only": True,
    },
    "engines": [{
        "name": "i2pcheck",
        "path": "checker/cmd/i2pcheck",
        "serves_properties": sorted(CLAIMED),
        "kind_free_text": "repository-specific static analyser over go/types + go/ssa + call graph (golang.org/x/tools v0.50.0, go1.26.8); no code of /repo is executed",
    }],
    "checks": checks,
    "not_applicable": na,
    "notes": "All checks are static: each run reloads and type-checks /repo's working tree, builds SSA and evaluates the property's rules; see DESIGN.md. Known genuine defects are in known_findings.json.",
}
json.dump(manifest, open(os.path.join(HERE, "MANIFEST.json"), "w"), indent=1)
print("claimed:", sorted(CLAIMED), "not_applicable:", [x["property_id"] for x in na])
