#!/opt/veriftools/pyvenv/bin/python
import json, jsonschema, sys, glob
jsonschema.validate(json.load(open('/verif/MANIFEST.json')), json.load(open('/root/.vp/MANIFEST.schema.json')))
es = json.load(open('/root/.vp/EVIDENCE.schema.json'))
m = json.load(open('/verif/MANIFEST.json'))
for c in m['checks']:
    try:
        jsonschema.validate(json.load(open(c['evidence_file'])), es)
    except Exception as e:
        print("BAD", c['evidence_file'], str(e)[:300]); sys.exit(1)
print("manifest + %d evidence files valid" % len(m['checks']))
