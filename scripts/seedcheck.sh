#!/bin/bash
# usage: scripts/seedcheck.sh <patch.diff> [prop ...]
# Applies the patch to a scratch copy of /repo (outside /repo and /verif, removed afterwards), checks
# that it builds, and runs the quick check of every (or the named) property against it.
# Prints "FIRES <id>: <first violation line>" for each property whose check reports a violation.
set -u
HERE=$(cd "$(dirname "$0")/.." && pwd)
. "$HERE/scripts/env.sh"
PATCH=$(readlink -f "$1"); shift
PROPS=${*:-C01 C02 C03 C04 C05 C06 C07 C08 C09 C10 C11 C12 C13 C14 C15 C16 C17 C18 C19 C20}
S=$(mktemp -d /tmp/vscratch.XXXXXX)
trap 'rm -rf "$S"' EXIT
rsync -a --exclude .git /repo/ "$S/"
if ! (cd "$S" && patch -p1 -s < "$PATCH"); then echo "SEEDCHECK: patch does not apply"; exit 2; fi
if ! (cd "$S" && go build ./... 2>"$S/.build.err"); then echo "SEEDCHECK: does not compile"; head -5 "$S/.build.err"; exit 2; fi
mkdir -p "$S/.out"
n=0
for P in $PROPS; do
  ( timeout 1500 "${I2PCHECK_BIN:-$HERE/bin/i2pcheck}" -repo "$S" -verif "$HERE" -prop "$P" -evidence "$S/.out/$P.json" > "$S/.out/$P.txt" 2>&1; echo $? > "$S/.out/$P.rc" ) &
  n=$((n+1))
  if [ $((n % 8)) -eq 0 ]; then wait; fi
done
wait
fired=""
for P in $PROPS; do
  rc=$(cat "$S/.out/$P.rc")
  if [ "$rc" != "0" ]; then
    fired="$fired $P"
    echo "FIRES $P: $(grep -E '^VIOLATED|^CHECK-FAILED' "$S/.out/$P.txt" | head -2 | cut -c1-600 | sed "s#$S/##g")"
  fi
done
echo "SEEDCHECK fired:${fired:- none}"
