#!/bin/bash
# run_all.sh [tier]: run every claimed property check; print one line per property.
cd "$(dirname "$0")/.."
tier=${1:-quick}
fail=0
for id in $(python3 -c "import json;print(' '.join(c['property_id'] for c in json.load(open('MANIFEST.json'))['checks']))" 2>/dev/null || echo); do
  out=$(timeout 1800 bash scripts/check.sh $id $tier 2>&1); rc=$?
  echo "$id rc=$rc $(echo "$out" | tail -1)"
  [ $rc -ne 0 ] && { fail=1; echo "$out" | grep -E "^VIOLAT|CHECK-FAILED" | head -5; }
done
exit $fail
