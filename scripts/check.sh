#!/bin/sh
# usage: scripts/check.sh <property-id> <quick|thorough> [extra i2pcheck flags]
# Rebuilds the analysis from /repo's current working tree on every run (nothing is cached).
set -u
HERE=$(cd "$(dirname "$0")/.." && pwd)
. "$HERE/scripts/env.sh"
ID=$1; TIER=${2:-${VERIF_TIER:-quick}}; shift; [ $# -gt 0 ] && shift
REPO=${VERIF_REPO:-/repo}
if [ ! -x "$HERE/bin/i2pcheck" ]; then
  (cd "$HERE/checker" && go build -o "$HERE/bin/i2pcheck" ./cmd/i2pcheck) || { echo "VIOLATION property=$ID replay=$HERE/evidence/replay/build-failed"; exit 1; }
fi
exec "$HERE/bin/i2pcheck" -repo "$REPO" -verif "$HERE" -prop "$ID" -tier "$TIER" "$@"
