// Command i2pcheck decides the C01–C20 structural clauses for go-i2p/common by static analysis.
package main

import (
	"runtime/pprof"
	"flag"
	"fmt"
	"os"
	"os/exec"
	"path/filepath"
	"runtime/debug"
	"sort"
	"strconv"
	"strings"

	"verif/checker/internal/an"
	"verif/checker/internal/rules"
)

var stopProfile = func() {}

func main() {
	repo := flag.String("repo", "/repo", "repository working tree to analyse")
	verif := flag.String("verif", "/verif", "verif directory (known findings, evidence)")
	prop := flag.String("prop", "", "property id (C01..C20)")
	tier := flag.String("tier", "quick", "quick|thorough")
	evid := flag.String("evidence", "", "evidence file (default <verif>/evidence/<prop>.json)")
	replay := flag.String("replay", "", "replay record: re-evaluate and print only that obligation")
	list := flag.Bool("list", false, "print every obligation")
	flag.Parse()
	if t := os.Getenv("VERIF_TIER"); t != "" && !isFlagSet("tier") {
		*tier = t
	}
	seed, _ := strconv.ParseInt(os.Getenv("VERIF_SEED"), 10, 64)
	if pf := os.Getenv("VERIF_CPUPROFILE"); pf != "" {
		if f, err := os.Create(pf); err == nil {
			pprof.StartCPUProfile(f)
			stopProfile = func() { pprof.StopCPUProfile(); f.Close() }
		}
	}
	rule, ok := rules.Registry[*prop]
	if !ok {
		fmt.Fprintf(os.Stderr, "unknown property %q\n", *prop)
		os.Exit(2)
	}
	if *evid == "" {
		*evid = filepath.Join(*verif, "evidence", *prop+".json")
	}
	rep := an.NewReport(*prop, *tier, seed)
	known, err := an.LoadFindings(filepath.Join(*verif, "known_findings.json"))
	if err != nil {
		rep.Fail("known_findings.json unreadable: %v", err)
	}
	cmdline := "i2pcheck " + strings.Join(os.Args[1:], " ")
	p, err := an.Load(*repo, nil)
	if err != nil {
		rep.Explanation = "load failed"
		rep.Fail("%v", err)
		os.Exit(rep.Finish(*verif, *evid, known, cmdline))
	}
	rules.Thorough = *tier == "thorough"
	rep.Floor("packages", len(p.Initial), 20)
	rep.Floor("repo_functions", len(p.RepoFns), 500)
	rep.Analysed["ssa_functions_total"] = len(p.All)
	func() {
		defer func() {
			if e := recover(); e != nil {
				rep.Fail("checker panic in %s: %v\n%s", *prop, e, debug.Stack())
			}
		}()
		rule(p, rep)
	}()
	if *list || *replay != "" {
		want := ""
		if *replay != "" {
			want = replayKey(*replay)
		}
		for _, o := range rep.Obs {
			if want != "" && o.Key != want {
				continue
			}
			fmt.Printf("%-10s %s  %s  %s\n", o.Verdict, o.Key, o.Pos, o.What)
			for _, f := range o.Facts {
				fmt.Printf("             %s\n", f)
			}
		}
	}
	if *tier == "thorough" && os.Getenv("VERIF_NO_SENSITIVITY") == "" {
		rep.Extra["sensitivity"] = sensitivity(*verif, *repo, *prop)
	}
	rc := rep.Finish(*verif, *evid, known, cmdline)
	stopProfile()
	os.Exit(rc)
}

// sensitivity re-runs the property's rules on variants of the analysed tree: the current working
// tree of -repo plus one patch from <verif>/mutants/<prop>/ each, in a scratch copy outside the
// repository (removed afterwards). It measures whether the rules still notice each seeded break
// on today's code; it never changes the verdict about the tree itself. A patch that no longer
// applies or compiles is counted as skipped.
func sensitivity(verif, repo, prop string) map[string]any {
	res := map[string]any{"what": "each variant = current tree + one patch from mutants/" + prop + "; the quick rules must report a violation on it"}
	patches, _ := filepath.Glob(filepath.Join(verif, "mutants", prop, "*.diff"))
	sort.Strings(patches)
	self, err := os.Executable()
	if err != nil {
		res["error"] = err.Error()
		return res
	}
	var caught, missed, skipped []string
	for _, pt := range patches {
		name := strings.TrimSuffix(filepath.Base(pt), ".diff")
		scratch, err := os.MkdirTemp("", "vsens.")
		if err != nil {
			skipped = append(skipped, name+": "+err.Error())
			continue
		}
		func() {
			defer os.RemoveAll(scratch)
			tree := filepath.Join(scratch, "tree")
			vdir := filepath.Join(scratch, "verif")
			os.MkdirAll(tree, 0o755)
			os.MkdirAll(vdir, 0o755)
			if b, err := os.ReadFile(filepath.Join(verif, "known_findings.json")); err == nil {
				os.WriteFile(filepath.Join(vdir, "known_findings.json"), b, 0o644)
			}
			if out, err := exec.Command("rsync", "-a", "--exclude", ".git", repo+"/", tree+"/").CombinedOutput(); err != nil {
				skipped = append(skipped, name+": copy failed: "+strings.TrimSpace(string(out)))
				return
			}
			patch := exec.Command("patch", "-p1", "-s", "-i", pt)
			patch.Dir = tree
			if _, err := patch.CombinedOutput(); err != nil {
				skipped = append(skipped, name+": patch does not apply to the current tree")
				return
			}
			build := exec.Command("go", "build", "./...")
			build.Dir = tree
			if _, err := build.CombinedOutput(); err != nil {
				skipped = append(skipped, name+": variant does not compile")
				return
			}
			run := exec.Command(self, "-repo", tree, "-verif", vdir, "-prop", prop, "-tier", "quick", "-evidence", filepath.Join(scratch, "ev.json"))
			out, _ := run.CombinedOutput()
			if run.ProcessState != nil && run.ProcessState.ExitCode() == 1 && strings.Contains(string(out), "VIOLATION property="+prop) {
				caught = append(caught, name)
			} else {
				missed = append(missed, name)
			}
		}()
	}
	res["variants"] = len(patches)
	res["caught"] = len(caught)
	res["missed"] = missed
	res["skipped"] = skipped
	if len(missed) > 0 {
		fmt.Printf("SENSITIVITY-MISS property=%s variants not reported: %s\n", prop, strings.Join(missed, ", "))
	}
	return res
}

func isFlagSet(name string) bool {
	set := false
	flag.Visit(func(f *flag.Flag) {
		if f.Name == name {
			set = true
		}
	})
	return set
}

func replayKey(path string) string {
	b, err := os.ReadFile(path)
	if err != nil {
		return ""
	}
	s := string(b)
	i := strings.Index(s, `"key": "`)
	if i < 0 {
		return ""
	}
	s = s[i+8:]
	return s[:strings.Index(s, `"`)]
}
