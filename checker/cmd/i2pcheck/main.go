// Command i2pcheck decides the C01–C20 structural clauses for go-i2p/common by static analysis.
package main

import (
	"flag"
	"fmt"
	"os"
	"path/filepath"
	"runtime/debug"
	"strconv"
	"strings"

	"verif/checker/internal/an"
	"verif/checker/internal/rules"
)

func main() {
	repo := flag.String("repo", "/repo", "repository working tree to analyse")
	verif := flag.String("verif", "/verif", "verif directory (known findings, evidence)")
	prop := flag.String("prop", "", "property id (C01..C20)")
	tier := flag.String("tier", "quick", "quick|thorough")
	evid := flag.String("evidence", "", "evidence file (default <verif>/evidence/<prop>.json)")
	replay := flag.String("replay", "", "replay record: re-evaluate and print only that obligation")
	list := flag.Bool("list", false, "print every obligation")
	flag.Parse()
	if t := os.Getenv("VERIF_TIER"); t != "" && !isFlagSet("tier") {
		*tier = t
	}
	seed, _ := strconv.ParseInt(os.Getenv("VERIF_SEED"), 10, 64)
	rule, ok := rules.Registry[*prop]
	if !ok {
		fmt.Fprintf(os.Stderr, "unknown property %q\n", *prop)
		os.Exit(2)
	}
	if *evid == "" {
		*evid = filepath.Join(*verif, "evidence", *prop+".json")
	}
	rep := an.NewReport(*prop, *tier, seed)
	known, err := an.LoadFindings(filepath.Join(*verif, "known_findings.json"))
	if err != nil {
		rep.Fail("known_findings.json unreadable: %v", err)
	}
	cmdline := "i2pcheck " + strings.Join(os.Args[1:], " ")
	p, err := an.Load(*repo, nil)
	if err != nil {
		rep.Explanation = "load failed"
		rep.Fail("%v", err)
		os.Exit(rep.Finish(*verif, *evid, known, cmdline))
	}
	rep.Floor("packages", len(p.Initial), 20)
	rep.Floor("repo_functions", len(p.RepoFns), 500)
	rep.Analysed["ssa_functions_total"] = len(p.All)
	func() {
		defer func() {
			if e := recover(); e != nil {
				rep.Fail("checker panic in %s: %v\n%s", *prop, e, debug.Stack())
			}
		}()
		rule(p, rep)
	}()
	if *list || *replay != "" {
		want := ""
		if *replay != "" {
			want = replayKey(*replay)
		}
		for _, o := range rep.Obs {
			if want != "" && o.Key != want {
				continue
			}
			fmt.Printf("%-10s %s  %s  %s\n", o.Verdict, o.Key, o.Pos, o.What)
			for _, f := range o.Facts {
				fmt.Printf("             %s\n", f)
			}
		}
	}
	os.Exit(rep.Finish(*verif, *evid, known, cmdline))
}

func isFlagSet(name string) bool {
	set := false
	flag.Visit(func(f *flag.Flag) {
		if f.Name == name {
			set = true
		}
	})
	return set
}

func replayKey(path string) string {
	b, err := os.ReadFile(path)
	if err != nil {
		return ""
	}
	s := string(b)
	i := strings.Index(s, `"key": "`)
	if i < 0 {
		return ""
	}
	s = s[i+8:]
	return s[:strings.Index(s, `"`)]
}
