package rules

import (
	"fmt"
	"go/types"
	"os"
	"sort"
	"strings"

	"golang.org/x/tools/go/ssa"

	"verif/checker/internal/an"
)

func init() { Registry["C19"] = C19 }

// ---- W: wrapper twins -------------------------------------------------------------------------

// twinPair: F offers the same structure as G through a different signature and calls G.
type twinPair struct {
	F, G *ssa.Function
	call *ssa.Call
}

// sameStructure: result 0 of both functions is the same library named type modulo one pointer.
func sameStructure(f, g *ssa.Function) bool {
	rf, rg := f.Signature.Results(), g.Signature.Results()
	if rf.Len() == 0 || rg.Len() == 0 {
		return false
	}
	pf, nf := an.NamedOf(an.Deref(rf.At(0).Type()))
	pg, ng := an.NamedOf(an.Deref(rg.At(0).Type()))
	return nf != "" && nf == ng && pf == pg && an.IsLibPath(pf)
}

// paramPassThrough: every parameter of g is fed by the same-typed parameter of f, in order.
func paramPassThrough(f *ssa.Function, call *ssa.Call) bool {
	args := call.Call.Args
	if len(args) == 0 {
		return false
	}
	used := map[int]bool{}
	for _, a := range args {
		prm, ok := an.Canon(a).(*ssa.Parameter)
		if !ok || prm.Parent() != f {
			return false
		}
		for i, fp := range f.Params {
			if fp == prm {
				if used[i] {
					return false
				}
				used[i] = true
			}
		}
	}
	return len(used) == len(f.Params)
}

// wrapperTwins discovers (F,G): F exported library function (no receiver) that calls library function
// G of the same package with its own parameters passed through, both yielding the same structure.
func wrapperTwins(p *an.Prog) []twinPair {
	var out []twinPair
	for _, f := range p.ExportedAPI() {
		if f.Signature.Recv() != nil || f.Synthetic != "" || len(f.Blocks) == 0 || len(f.Params) == 0 {
			continue
		}
		if f.Params[0].Type().String() != "[]byte" {
			continue
		}
		var found []twinPair
		for _, b := range f.Blocks {
			for _, in := range b.Instrs {
				c, ok := in.(*ssa.Call)
				if !ok {
					continue
				}
				g := c.Call.StaticCallee()
				if g == nil || g == f || !an.InLib(g) || an.FnPkgPath(g) != an.FnPkgPath(f) || g.Signature.Recv() != nil || !g.Object().Exported() {
					continue
				}
				if !sameStructure(f, g) || !paramPassThrough(f, c) {
					continue
				}
				found = append(found, twinPair{f, g, c})
			}
		}
		out = append(out, found...)
	}
	sort.Slice(out, func(i, j int) bool { return an.FnKey(out[i].F) < an.FnKey(out[j].F) })
	return out
}

// twinEval evaluates F with its delegate G replaced by an assumption: "ok" (value, remainder, nil
// error) or "fail" (non-nil error).
func twinEval(p *an.Prog, tp twinPair, assume string) ([]an.Outcome, error) {
	g := tp.G
	gres := g.Signature.Results()
	gerr := an.ErrIndex(g)
	ev := &an.PEval{P: p, Domain: an.IvAll(), MaxPaths: 20000, MaxSteps: 400000, LoopOK: true, MaxDepth: 8, NoInlineInHavoc: true,
		Trap: func(ssa.Instruction, string, []string) {},
		InlineIf: func(callee *ssa.Function, as []an.AV) bool {
			for _, a := range as {
				if twinTagged(a, 0) {
					return true
				}
			}
			return false
		},
		OnCall: func(ev *an.PEval, call *ssa.Call, callee *ssa.Function, args []an.AV) (an.AV, bool) {
			if call != tp.call {
				return an.AV{}, false
			}
			ev.Note("delegate")
			el := make([]an.AV, gres.Len())
			for i := range el {
				t := gres.At(i).Type()
				switch {
				case i == gerr:
					if assume == "ok" {
						el[i] = an.AV{K: an.KNil}
					} else if _, isSlice := t.Underlying().(*types.Slice); isSlice {
						el[i] = an.AV{K: an.KPos, Tag: "delegate-errors"}
					} else {
						el[i] = an.AV{K: an.KNonNil, Tag: "delegate-error"}
					}
				case assume == "ok":
					el[i] = an.AV{K: an.KObj, Path: fmt.Sprintf("G.%d", i)}
					if _, isPtr := t.(*types.Pointer); isPtr {
						el[i] = an.AV{K: an.KNonNil, Tag: fmt.Sprintf("G.%d", i)}
					}
				}
			}
			if gres.Len() == 1 {
				return el[0], true
			}
			return an.AV{K: an.KTuple, Elems: el}, true
		}}
	return ev.Run(tp.F, rootArgs(tp.F))
}

func twinTagged(a an.AV, d int) bool {
	if d > 3 {
		return false
	}
	if strings.HasPrefix(a.Path, "G.") || strings.HasPrefix(a.Tag, "G.") || strings.HasPrefix(a.Tag, "delegate") {
		return true
	}
	for _, e := range a.Elems {
		if twinTagged(e, d+1) {
			return true
		}
	}
	return false
}

func c19Wrappers(p *an.Prog, r *an.Report) int {
	flow := an.NewFlow(p)
	_ = flow
	pairs := wrapperTwins(p)
	for _, tp := range pairs {
		key := an.FnKey(tp.F) + "~" + tp.G.Name()
		pos := p.FnPos(tp.F)
		ferr := an.ErrIndex(tp.F)
		if os.Getenv("C19DEBUG") != "" {
			fmt.Fprintf(os.Stderr, "twin %s wraps %s\n", an.FnKey(tp.F), an.FnKey(tp.G))
		}
		// W1: whenever the delegate accepts, the wrapper accepts.
		outs, err := twinEval(p, tp, "ok")
		if err != nil {
			r.Ob("C19.W1", key+"/accepts", pos, an.Undecided, "wrapper accepts what its delegate accepts", err.Error())
		} else {
			var bad []string
			n := 0
			for _, o := range outs {
				if !o.HasNote("delegate") {
					// returned before delegating: an input the wrapper decides without its twin
					if !o.Panic && ferr >= 0 && ferr < len(o.Results) && !avIsNil(o.Results[ferr]) {
						bad = append(bad, fmt.Sprintf("return at %s rejects before the delegate is consulted", p.Pos(o.RetPos)))
					}
					continue
				}
				n++
				if o.Panic {
					bad = append(bad, "may panic after the delegate accepted: "+strings.Join(tail(o.Trail, 3), " | "))
					continue
				}
				if ferr >= 0 && ferr < len(o.Results) && !avIsNil(o.Results[ferr]) {
					bad = append(bad, fmt.Sprintf("return at %s may report an error although %s accepted the input", p.Pos(o.RetPos), tp.G.Name()))
				}
			}
			if n == 0 {
				bad = append(bad, "no explored path reaches the delegate call")
			}
			r.Check(len(bad) == 0, "C19.W1", key+"/accepts", pos, fmt.Sprintf("%s accepts every input %s accepts (no extra rejection or panic around the delegate call; %d paths)", tp.F.Name(), tp.G.Name(), n), uniq(bad)...)
		}
		// W2: whenever the delegate rejects, the wrapper rejects.
		outs, err = twinEval(p, tp, "fail")
		if err != nil {
			r.Ob("C19.W2", key+"/rejects", pos, an.Undecided, "wrapper rejects what its delegate rejects", err.Error())
		} else if ferr >= 0 && an.ErrIndex(tp.G) >= 0 {
			var bad []string
			n := 0
			for _, o := range outs {
				if !o.HasNote("delegate") || o.Panic {
					continue
				}
				n++
				if ferr < len(o.Results) && avMayBeNil(o.Results[ferr]) {
					bad = append(bad, fmt.Sprintf("return at %s may report success although %s rejected the input", p.Pos(o.RetPos), tp.G.Name()))
				}
			}
			r.Check(len(bad) == 0 && n > 0, "C19.W2", key+"/rejects", pos, fmt.Sprintf("%s rejects every input %s rejects (%d paths)", tp.F.Name(), tp.G.Name(), n), uniq(bad)...)
		}
		// W3: value and remainder are the delegate's.
		c19PassThrough(p, r, tp, key)
	}
	return len(pairs)
}

func tail(s []string, n int) []string {
	if len(s) > n {
		return s[len(s)-n:]
	}
	return s
}

func uniq(s []string) []string {
	seen := map[string]bool{}
	var out []string
	for _, x := range s {
		if !seen[x] {
			seen[x] = true
			out = append(out, x)
		}
	}
	return out
}

func avIsNil(a an.AV) bool { return a.K == an.KNil }

// avMayBeNil: the abstract value is not known to be non-nil / non-empty.
func avMayBeNil(a an.AV) bool {
	switch a.K {
	case an.KNonNil, an.KPos:
		return false
	case an.KObj:
		return true
	}
	return true
}

// c19PassThrough: on every success return of F, result 0 is (the address of a copy of) the delegate's
// result 0 and the remainder result is the delegate's remainder.
func c19PassThrough(p *an.Prog, r *an.Report, tp twinPair, key string) {
	flow := an.NewFlow(p)
	f, g := tp.F, tp.G
	pos := p.FnPos(f)
	gRem := remainderIndex(g)
	fRem := remainderIndex(f)
	var bad []string
	n := 0
	for _, ret := range flow.OkReturns(f) {
		if len(ret.Results) == 0 {
			continue
		}
		n++
		if !derivesFromCall(ret.Results[0], tp.call, 0, g, ret.Block()) {
			bad = append(bad, fmt.Sprintf("return at %s: value is not %s's value", p.Pos(ret.Pos()), g.Name()))
		}
		if fRem >= 0 {
			if gRem < 0 {
				bad = append(bad, "wrapper returns a remainder its delegate does not produce")
			} else if !derivesFromCall(ret.Results[fRem], tp.call, gRem, g, ret.Block()) {
				bad = append(bad, fmt.Sprintf("return at %s: remainder is not %s's remainder", p.Pos(ret.Pos()), g.Name()))
			}
		}
	}
	r.Check(len(bad) == 0 && n > 0, "C19.W3", key+"/passthrough", pos, fmt.Sprintf("on success %s returns %s's value%s unchanged (%d returns)", f.Name(), g.Name(), map[bool]string{true: " and remainder", false: ""}[fRem >= 0], n), bad...)
}

// derivesFromCall: v is result idx of call (directly, through a named-result cell or local copy,
// or as the address of a local that holds it).
func derivesFromCall(v ssa.Value, call *ssa.Call, idx int, g *ssa.Function, at *ssa.BasicBlock) bool {
	seen := map[ssa.Value]bool{}
	var walk func(v ssa.Value, d int) bool
	walk = func(v ssa.Value, d int) bool {
		if d > 12 || seen[v] {
			return false
		}
		seen[v] = true
		switch x := v.(type) {
		case *ssa.Extract:
			return x.Tuple == ssa.Value(call) && x.Index == idx
		case *ssa.Call:
			return x == call && idx == 0 && g.Signature.Results().Len() == 1
		case *ssa.Alloc:
			// address of a local: every store into it must carry the delegate's result
			stores := 0
			ok := true
			for _, ref := range *x.Referrers() {
				if st, isSt := ref.(*ssa.Store); isSt && st.Addr == ssa.Value(x) {
					stores++
					seenSave := seen
					seen = map[ssa.Value]bool{}
					if !walk(st.Val, d+1) {
						ok = false
					}
					seen = seenSave
				}
			}
			return ok && stores > 0
		case *ssa.UnOp:
			if x.Op.String() == "*" {
				if a, isA := x.X.(*ssa.Alloc); isA {
					return walk(a, d+1)
				}
			}
		case *ssa.ChangeType:
			return walk(x.X, d+1)
		case *ssa.MakeInterface:
			return walk(x.X, d+1)
		case *ssa.Phi:
			for _, e := range x.Edges {
				if an.IsNilConst(e) {
					continue
				}
				if !walk(e, d+1) {
					return false
				}
			}
			return true
		}
		return false
	}
	return walk(v, 0)
}


// ---- X: exact-length twins --------------------------------------------------------------------

// exactTwins: F(data, extra...) (T, error) without remainder next to G(data, extra...) (T, []byte, error)
// of the same package and structure, where F does not call G.
func exactTwins(p *an.Prog, wrapped map[*ssa.Function]bool) []twinPair {
	var out []twinPair
	api := p.ExportedAPI()
	for _, f := range api {
		if f.Signature.Recv() != nil || len(f.Blocks) == 0 || len(f.Params) == 0 || f.Params[0].Type().String() != "[]byte" {
			continue
		}
		if remainderIndex(f) >= 0 || an.ErrIndex(f) < 0 || wrapped[f] {
			continue
		}
		for _, g := range api {
			if g == f || g.Signature.Recv() != nil || len(g.Blocks) == 0 || an.FnPkgPath(g) != an.FnPkgPath(f) {
				continue
			}
			if remainderIndex(g) < 0 || an.ErrIndex(g) < 0 || !sameStructure(f, g) || !strings.HasPrefix(g.Name(), "Read") {
				continue
			}
			if !types.Identical(f.Signature.Params(), g.Signature.Params()) {
				continue
			}
			if _, isPtr := g.Signature.Results().At(0).Type().(*types.Pointer); isPtr {
				continue
			}
			out = append(out, twinPair{F: f, G: g})
		}
	}
	sort.Slice(out, func(i, j int) bool { return an.FnKey(out[i].F) < an.FnKey(out[j].F) })
	return out
}

var c19LenDom = an.IvRange(0, 1<<20)

func lenRegions(p *an.Prog, fn *ssa.Function, extra map[int]an.AV) (must, may an.IvSet, err error) {
	args := rootArgs(fn)
	for i, a := range extra {
		args[i] = a
	}
	must, may, _, err = rejectRegions(p, fn, selLenOf(fn.Params[0]), c19LenDom, args)
	return
}

// lenMayReject: lengths at which some path of fn rejects.
func lenMayReject(p *an.Prog, fn *ssa.Function, extra map[int]an.AV) (an.IvSet, error) {
	args := rootArgs(fn)
	for i, a := range extra {
		args[i] = a
	}
	_, _, outs, err := rejectRegions(p, fn, selLenOf(fn.Params[0]), c19LenDom, args)
	if err != nil {
		return nil, err
	}
	ei := an.ErrIndex(fn)
	_, may, _ := an.RegionWhere(c19LenDom, outs, func(o an.Outcome) bool { return !o.Panic && o.ErrIs(ei) != 1 })
	return may, nil
}

// c19Exact: the length a whole-buffer constructor insists on is the length its streaming twin
// consumes: accept(F) ⊆ accept(G), and the shortest input G accepts is accepted by F.
func c19Exact(p *an.Prog, r *an.Report, wrapped map[*ssa.Function]bool) int {
	n := 0
	for _, tp := range exactTwins(p, wrapped) {
		key := an.FnKey(tp.F) + "~" + tp.G.Name()
		pos := p.FnPos(tp.F)
		var cases []map[int]an.AV
		label := []string{""}
		if len(tp.F.Params) == 1 {
			cases = []map[int]an.AV{nil}
		} else if len(tp.F.Params) == 2 && isIntegerType(tp.F.Params[1].Type()) && tp.F.Params[1].Name() == "sigType" {
			label = nil
			var ks []int64
			for k := range SpecSigning {
				ks = append(ks, k)
			}
			sort.Slice(ks, func(i, j int) bool { return ks[i] < ks[j] })
			for _, k := range ks {
				cases = append(cases, map[int]an.AV{1: {K: an.KInt, I: k}})
				label = append(label, fmt.Sprintf("sigType=%d", k))
			}
		} else {
			continue
		}
		var bad, facts []string
		skipped := false
		for ci, extra := range cases {
			mustF, mayF, err1 := lenRegions(p, tp.F, extra)
			mustG, mayG, err2 := lenRegions(p, tp.G, extra)
			if err1 != nil || err2 != nil {
				r.Ob("C19.X1", key+"/length", pos, an.Undecided, "length regions could not be extracted", fmt.Sprint(err1), fmt.Sprint(err2))
				skipped = true
				break
			}
			mayRejG, e3 := lenMayReject(p, tp.G, extra)
			if e3 != nil || len(mayG) != 1 || mayG[0].Hi != c19LenDom[0].Hi || !mustG.Equal(c19LenDom.Minus(mayG)) || !mayRejG.Equal(mustG) {
				// variable-length structure: the streaming twin's acceptance is not a pure length threshold
				facts = append(facts, fmt.Sprintf("%s %s: accept region %s is not a length threshold — not comparable by length alone", label[ci], tp.G.Name(), mayG))
				skipped = true
				break
			}
			L := mayG[0].Lo
			facts = append(facts, fmt.Sprintf("%s %s accepts len ≥ %d; %s accepts len ∈ %s", label[ci], tp.G.Name(), L, tp.F.Name(), mayF))
			if !mayF.SubsetOf(mayG) {
				bad = append(bad, fmt.Sprintf("%s %s may accept lengths %s that %s rejects", label[ci], tp.F.Name(), mayF.Minus(mayG), tp.G.Name()))
			}
			if mustF.Contains(L) || !mayF.Contains(L) {
				bad = append(bad, fmt.Sprintf("%s %s rejects the %d-byte encoding that %s accepts with empty remainder", label[ci], tp.F.Name(), L, tp.G.Name()))
			}
			if !mayF.Equal(an.IvPoint(L)) {
				bad = append(bad, fmt.Sprintf("%s %s accepts lengths %s, not exactly the %d bytes %s consumes: bytes beyond the structure would be silently kept or dropped", label[ci], tp.F.Name(), mayF, L, tp.G.Name()))
			}
		}
		if skipped && len(bad) == 0 {
			r.Add(&an.Obligation{Key: "C19.X1/" + key + "/length", Rule: "C19.X1", Pos: pos, Verdict: an.Discharged, What: "variable-length twin: not decidable from the length alone (covered by the shared-parser rule where one exists)", Facts: facts})
			continue
		}
		n++
		r.Check(len(bad) == 0, "C19.X1", key+"/length", pos, fmt.Sprintf("%s accepts exactly the input length %s consumes", tp.F.Name(), tp.G.Name()), append(bad, facts...)...)
	}
	return n
}

// ---- S: sibling agreement on the type parameter ------------------------------------------------

// c19TypeParam: functions of one package that take the same type-code parameter must reject the same codes.
func c19TypeParam(p *an.Prog, r *an.Report, group string, fns []string, param string, dom an.IvSet) {
	type reg struct {
		fn        *ssa.Function
		must, may an.IvSet
	}
	var regs []reg
	for _, spec := range fns {
		fn := p.Func(spec)
		if fn == nil {
			r.Fail("C19.S1: anchor %s not found", spec)
			return
		}
		idx := -1
		for i, prm := range fn.Params {
			if prm.Name() == param {
				idx = i
			}
		}
		if idx < 0 {
			r.Fail("C19.S1: %s has no parameter %s", spec, param)
			return
		}
		must, may, _, err := rejectRegions(p, fn, selParam(fn, idx), dom, nil)
		if err != nil {
			r.Ob("C19.S1", group+"/"+param+"/"+fn.Name(), p.FnPos(fn), an.Undecided, "reject region could not be extracted: "+err.Error())
			return
		}
		regs = append(regs, reg{fn, must, may})
	}
	for i := 1; i < len(regs); i++ {
		a, b := regs[0], regs[i]
		ok := a.must.Equal(b.must) && a.may.Equal(b.may)
		var facts []string
		if !ok {
			if d := a.must.Minus(b.must); !d.Empty() {
				facts = append(facts, fmt.Sprintf("%s always rejects %s ∈ %s; %s may accept it", a.fn.Name(), param, d, b.fn.Name()))
			}
			if d := b.must.Minus(a.must); !d.Empty() {
				facts = append(facts, fmt.Sprintf("%s always rejects %s ∈ %s; %s may accept it", b.fn.Name(), param, d, a.fn.Name()))
			}
		}
		facts = append(facts, fmt.Sprintf("%s must-reject %s", a.fn.Name(), a.must), fmt.Sprintf("%s must-reject %s", b.fn.Name(), b.must))
		r.Check(ok, "C19.S1", group+"/"+param+"/"+a.fn.Name()+"~"+b.fn.Name(), p.FnPos(b.fn), fmt.Sprintf("%s and %s reject the same values of %s", a.fn.Name(), b.fn.Name(), param), facts...)
	}
}

// ---- K: key-type payload encoders ---------------------------------------------------------------

type ktEvent struct {
	off  int64 // constant low bound of the destination inside its buffer, -1 when the destination is a fresh scratch buffer
	src  string
	buf  ssa.Value
	pos  string
	wpos int // order of the Write that emits the scratch buffer, -1 if none
}

// keyTypeEncoders: library functions that contain exactly two BigEndian.PutUint16 calls whose
// sources are named after the signing and crypto key types.
func keyTypeEncoders(p *an.Prog) map[*ssa.Function][]ktEvent {
	out := map[*ssa.Function][]ktEvent{}
	for _, fn := range p.RepoFns {
		if !an.InLib(fn) || len(fn.Blocks) == 0 {
			continue
		}
		var evs []ktEvent
		order := 0
		writes := map[ssa.Value]int{}
		for _, b := range rpo(fn) {
			for _, in := range b.Instrs {
				c, ok := in.(*ssa.Call)
				if !ok {
					continue
				}
				callee := c.Call.StaticCallee()
				if callee == nil {
					continue
				}
				if callee.Name() == "Write" && callee.Signature.Recv() != nil && strings.Contains(callee.Signature.Recv().Type().String(), "bytes.Buffer") && len(c.Call.Args) == 2 {
					order++
					writes[sliceBase(c.Call.Args[1])] = order
				}
				if callee.Name() != "PutUint16" || !strings.Contains(an.FnKey(callee), "bigEndian") || len(c.Call.Args) < 3 {
					continue
				}
				dst, src := c.Call.Args[1], c.Call.Args[2]
				ev := ktEvent{off: -1, src: ktSourceName(src), buf: sliceBase(dst), pos: p.Pos(c.Pos()), wpos: -1}
				if s, ok := dst.(*ssa.Slice); ok && s.Low != nil {
					if k, ok := s.Low.(*ssa.Const); ok {
						ev.off = k.Int64()
					}
				} else if s, ok := dst.(*ssa.Slice); ok && s.Low == nil {
					if _, whole := sliceBase(s).(*ssa.Alloc); whole {
						ev.off = -1
					}
				}
				evs = append(evs, ev)
			}
		}
		if len(evs) != 2 {
			continue
		}
		for i := range evs {
			if w, ok := writes[evs[i].buf]; ok {
				evs[i].wpos = w
			}
		}
		cls := ktClass(evs[0].src) + ktClass(evs[1].src)
		if cls != "SC" && cls != "CS" {
			continue
		}
		out[fn] = evs
	}
	return out
}

func sliceBase(v ssa.Value) ssa.Value {
	for i := 0; i < 8; i++ {
		switch x := v.(type) {
		case *ssa.Slice:
			v = x.X
			continue
		}
		break
	}
	return v
}

func ktClass(name string) string {
	n := strings.ToLower(name)
	switch {
	case strings.Contains(n, "sign") || strings.Contains(n, "spk"):
		return "S"
	case strings.Contains(n, "crypto") || strings.Contains(n, "cpk"):
		return "C"
	}
	return "?"
}

func ktSourceName(v ssa.Value) string {
	for i := 0; i < 8; i++ {
		switch x := v.(type) {
		case *ssa.Convert:
			v = x.X
		case *ssa.ChangeType:
			v = x.X
		case *ssa.UnOp:
			v = x.X
		case *ssa.FieldAddr:
			st := an.Deref(x.X.Type()).Underlying().(*types.Struct)
			return st.Field(x.Field).Name()
		case *ssa.Parameter:
			return x.Name()
		case *ssa.Alloc:
			// spilled parameter
			for _, ref := range *x.Referrers() {
				if st, ok := ref.(*ssa.Store); ok && st.Addr == ssa.Value(x) {
					if prm, ok := st.Val.(*ssa.Parameter); ok {
						return prm.Name()
					}
				}
			}
			return x.Comment
		default:
			return v.Name()
		}
	}
	return v.Name()
}

func c19KeyTypeEncoders(p *an.Prog, r *an.Report) int {
	encs := keyTypeEncoders(p)
	var fns []*ssa.Function
	for fn := range encs {
		fns = append(fns, fn)
	}
	sort.Slice(fns, func(i, j int) bool { return an.FnKey(fns[i]) < an.FnKey(fns[j]) })
	for _, fn := range fns {
		evs := encs[fn]
		var bad []string
		// normalise to positions: explicit offsets, or emission order of scratch buffers
		posOf := func(e ktEvent) int64 {
			if e.off >= 0 && e.wpos < 0 {
				return e.off
			}
			if e.wpos > 0 {
				return int64(e.wpos-1) * 2
			}
			return -1
		}
		for _, e := range evs {
			want := int64(0)
			if ktClass(e.src) == "C" {
				want = 2
			}
			if got := posOf(e); got != want {
				bad = append(bad, fmt.Sprintf("%s: %s is encoded at payload offset %d, the other encoders and the reader use %d", e.pos, e.src, got, want))
			}
		}
		r.Check(len(bad) == 0, "C19.K1", an.FnKey(fn)+"/layout", p.FnPos(fn), "key-type payload is BE16(signing type) at [0,2) then BE16(crypto type) at [2,4), as in every sibling encoder",
			append(bad, fmt.Sprintf("%s@%d %s@%d", evs[0].src, posOf(evs[0]), evs[1].src, posOf(evs[1])))...)
	}
	return len(fns)
}

// ---- C: shared-core constructors ----------------------------------------------------------------

// coreCalls: library callees of fn whose outcome matters (their result is returned, passed on, or
// decides an error return), in reverse post-order; log plumbing and calls whose only effect is a
// log-only branch are dropped.
func coreCalls(p *an.Prog, fn *ssa.Function) []string {
	var out []string
	for _, b := range rpo(fn) {
		for _, in := range b.Instrs {
			c, ok := in.(*ssa.Call)
			if !ok || an.IsLogPlumbing(in) {
				continue
			}
			callee := c.Call.StaticCallee()
			if callee == nil || !an.InLib(callee) {
				continue
			}
			if callee.Signature.Results().Len() == 0 {
				continue
			}
			if inertCall(c) {
				continue
			}
			out = append(out, an.FnKey(callee))
		}
	}
	return out
}

// inertCall: every use of the call's result is a nil test that guards a log-only block, or log plumbing.
func inertCall(c *ssa.Call) bool {
	refs := c.Referrers()
	if refs == nil || len(*refs) == 0 {
		return true
	}
	var check func(v ssa.Instruction, d int) bool
	check = func(in ssa.Instruction, d int) bool {
		if d > 4 {
			return false
		}
		if an.IsLogPlumbing(in) {
			return true
		}
		switch x := in.(type) {
		case *ssa.DebugRef:
			return true
		case *ssa.Extract:
			for _, ref := range *x.Referrers() {
				if !check(ref, d+1) {
					return false
				}
			}
			return true
		case *ssa.BinOp:
			if _, _, ok := an.NilTest(x); !ok {
				return false
			}
			for _, ref := range *x.Referrers() {
				iff, ok := ref.(*ssa.If)
				if !ok {
					return false
				}
				blk := iff.Block()
				// one successor must be log-only and fall through to the other
				a, b := blk.Succs[0], blk.Succs[1]
				if !(logOnlyInto(a, b) || logOnlyInto(b, a)) {
					return false
				}
			}
			return true
		}
		return false
	}
	for _, ref := range *refs {
		if !check(ref, 0) {
			return false
		}
	}
	return true
}

func logOnlyInto(a, join *ssa.BasicBlock) bool {
	if len(a.Succs) != 1 || a.Succs[0] != join {
		return false
	}
	for _, in := range a.Instrs {
		switch in.(type) {
		case *ssa.Jump, *ssa.DebugRef:
			continue
		}
		if !an.IsLogPlumbing(in) {
			return false
		}
	}
	return true
}

// c19SharedCore: `full` parses its input into the intermediate value and then must apply exactly
// the steps of `core` (which starts from that intermediate value).
func c19SharedCore(p *an.Prog, r *an.Report, full, core string, acquire int) {
	ff, cf := p.Func(full), p.Func(core)
	if ff == nil || cf == nil {
		r.Fail("C19.C1: anchors %s / %s not found", full, core)
		return
	}
	fs, cs := coreCalls(p, ff), coreCalls(p, cf)
	ok := len(fs) >= acquire && strings.Join(fs[min(acquire, len(fs)):], ",") == strings.Join(cs, ",") && len(cs) >= 1
	r.Check(ok, "C19.C1", ff.Name()+"~"+cf.Name()+"/steps", p.FnPos(ff), fmt.Sprintf("after obtaining the certificate, %s applies exactly the validation/extraction steps of %s, in the same order", ff.Name(), cf.Name()),
		ff.Name()+": "+strings.Join(fs, " → "), cf.Name()+": "+strings.Join(cs, " → "))
}

// ---- T: twin serializers ----------------------------------------------------------------------

func c19TwinSerializers(p *an.Prog, r *an.Report) {
	pairs := []struct {
		full, fullExported, partial string
		byParam                     bool
		dropped                     string
	}{
		{"router_info.serializeRouterInfoFields", "router_info.(RouterInfo).Bytes", "router_info.(*RouterInfo).serializeWithoutSignature", false, "signature"},
		// the count byte is derived from len(leases) in the argument-taking twin
		{"lease_set.(LeaseSet).Bytes", "lease_set.(LeaseSet).Bytes", "lease_set.serializeLeaseSetData", true, "signature,leaseCount"},
		{"offline_signature.(*OfflineSignature).SignedData", "offline_signature.(*OfflineSignature).SignedData", "offline_signature.buildSignedData", true, ""},
	}
	for _, pr := range pairs {
		ff := p.Func(pr.full)
		if ff == nil {
			ff = p.Func(pr.fullExported) // the unexported helper was renamed: start from the exported serializer
		}
		if ff == nil {
			r.Fail("C19.T1: anchor %s not found", pr.fullExported)
			continue
		}
		fo, fraw := serFieldOrder(p, ff)
		var want []string
		for _, f := range fo {
			if !strings.Contains(","+pr.dropped+",", ","+f+",") {
				want = append(want, strings.ToLower(f))
			}
		}
		orderOf := func(f *ssa.Function) ([]string, string) {
			po, praw := serOrder(p, f, pr.byParam)
			for i, x := range po {
				po[i] = strings.ToLower(x)
			}
			return po, praw
		}
		pf := p.Func(pr.partial)
		if pf == nil {
			// renamed: the twin is the other function of the package that returns bytes and emits
			// exactly the wanted order; if none does, the structure's signed data is not a prefix-free
			// re-emission of its fields
			var cands []*ssa.Function
			for _, f := range p.RepoFns {
				if f == ff || an.FnPkgPath(f) != an.FnPkgPath(ff) || len(f.Blocks) == 0 || f.Signature.Results().Len() == 0 || f.Signature.Results().At(0).Type().String() != "[]byte" || (f.Object() != nil && f.Object().Exported()) {
					continue
				}
				for _, byParam := range []bool{pr.byParam, !pr.byParam} {
					po, _ := serOrder(p, f, byParam)
					for i, x := range po {
						po[i] = strings.ToLower(x)
					}
					if len(po) >= 3 && strings.Join(po, ",") == strings.Join(want, ",") {
						cands = append(cands, f)
						break
					}
				}
			}
			if len(cands) == 0 {
				r.Check(false, "C19.T1", ff.Name()+"~signed-data/order", p.FnPos(ff), fmt.Sprintf("some unexported serializer of the package emits the fields of %s in the same order, minus {%s}", ff.Name(), pr.dropped), "full: "+strings.Join(fo, ","), "no candidate found (the named twin "+pr.partial+" no longer exists)")
				continue
			}
			pf = cands[0]
		}
		po, praw := orderOf(pf)
		ok := strings.Join(want, ",") == strings.Join(po, ",") && len(po) >= 3
		r.Check(ok, "C19.T1", ff.Name()+"~"+pf.Name()+"/order", p.FnPos(pf), fmt.Sprintf("the signed-data serializer %s emits the fields of %s in the same order, minus {%s}", pf.Name(), ff.Name(), pr.dropped),
			"full: "+strings.Join(fo, ","), "partial: "+strings.Join(po, ","), "raw full: "+fraw, "raw partial: "+praw)
	}
}

func C19(p *an.Prog, r *an.Report) {
	r.Explanation = "Twin entry points are discovered from the type-checked program (an exported byte-consuming function that calls another exported function of its package with its own parameters and yields the same named structure; a whole-buffer constructor next to a streaming reader of the same structure) or named in small frozen tables (signature constructors, key-type payload encoders, KeyCertificate constructors, signed-data serializers, the three keys-and-cert readers). Wrappers are evaluated path-sensitively with the delegate call replaced by an assumption: if the delegate accepts, no path of the wrapper may reject or panic (W1); if it rejects, no path may report success (W2); on success the value and remainder returned are the delegate's results (W3, dataflow through named results and local copies). Independent twins are compared as siblings: reject regions over the input length and over the type-code parameter extracted by interval partitioning must coincide (X1, S1); every key-type payload encoder must place BE16(signing) at [0,2) and BE16(crypto) at [2,4) (K1); NewKeyCertificate must apply exactly the steps of KeyCertificateFromCertificate after obtaining the certificate (C1); signed-data serializers must emit the fields of the full serializer in the same order minus the signature (T1); the three keys-and-cert readers and the writer must use the same affine key-block offsets for all 20 supported key-size pairs (R1). What is decided is the structural agreement of the twins' guards, delegation and layouts; equality of the produced bytes for every concrete input is implied only where the twins share the code that produces them (wrappers, shared core) and is otherwise not claimed. R1 also requires every keys-and-cert reader to parse the certificate from data[384:] unbounded with no fixed cut after the key block. P1: no package-level container is filled at run time, so no entry point's result can depend on earlier calls."
	r.Rule = "W1-W3 per discovered wrapper pair; X1 per whole-buffer/streaming pair; S1 per sibling group and type parameter; K1 per key-type payload encoder; C1 shared-core step sequence; T1 per serializer pair; R1 keys-and-cert block offsets"
	r.Trusted = append(r.Trusted, "Go SSA construction (golang.org/x/tools/go/ssa)", "the frozen twin tables in c19.go (group membership confirmed by reading)")
	n := c19Wrappers(p, r)
	r.Floor("wrapper twin pairs", n, 10)
	wrapped := map[*ssa.Function]bool{}
	for _, tp := range wrapperTwins(p) {
		wrapped[tp.F] = true
	}
	nx := c19Exact(p, r, wrapped)
	r.Floor("exact-length twin pairs", nx, 3)
	c19TypeParam(p, r, "signature", []string{"signature.ReadSignature", "signature.NewSignature", "signature.NewSignatureFromBytes", "signature.SignatureSize"}, "sigType", an.IvRange(-70000, 140000))
	c19TypeParam(p, r, "keytypes", []string{"certificate.BuildKeyTypePayload", "certificate.(*CertificateBuilder).WithKeyTypes"}, "signingType", an.IvRange(-70000, 140000))
	c19TypeParam(p, r, "keytypes", []string{"certificate.BuildKeyTypePayload", "certificate.(*CertificateBuilder).WithKeyTypes"}, "cryptoType", an.IvRange(-70000, 140000))
	c19BuilderState(p, r)
	nk := c19KeyTypeEncoders(p, r)
	r.Floor("key-type payload encoders", nk, 1)
	c19SharedCore(p, r, "key_certificate.NewKeyCertificate", "key_certificate.KeyCertificateFromCertificate", 1)
	c19TwinSerializers(p, r)
	c01Block(p, r, "C19.R1")
	c19NoCallHistory(p, r, "C19.P1")
}

// c19NoCallHistory (P1): what an entry point returns cannot depend on earlier calls. The library
// keeps no package-level container that is filled at run time: no function calls a mutating method
// (Store, LoadOrStore, Swap, CompareAndSwap, Delete, Put, Add) on a package-level variable or on
// something reached from one, and no package-level variable has a sync/atomic container type. (A
// memo cache makes two entry points that agree on every fresh process disagree after a colliding
// key was cached; plain stores to package-level variables after init are C18.W3.)
func c19NoCallHistory(p *an.Prog, r *an.Report, rule string) {
	mutators := map[string]bool{"Store": true, "LoadOrStore": true, "LoadAndDelete": true, "Swap": true, "CompareAndSwap": true, "CompareAndDelete": true, "Delete": true, "Put": true, "Add": true, "Clear": true}
	rootGlobal := func(v ssa.Value) *ssa.Global {
		for i := 0; i < 8 && v != nil; i++ {
			switch x := v.(type) {
			case *ssa.Global:
				return x
			case *ssa.FieldAddr:
				v = x.X
			case *ssa.IndexAddr:
				v = x.X
			case *ssa.UnOp:
				v = x.X
			case *ssa.ChangeType:
				v = x.X
			default:
				return nil
			}
		}
		return nil
	}
	var bad []string
	calls := 0
	for _, fn := range p.RepoFns {
		if !an.InLib(fn) || len(fn.Blocks) == 0 || fn.Name() == "init" {
			continue
		}
		for _, b := range fn.Blocks {
			for _, in := range b.Instrs {
				c, ok := in.(*ssa.Call)
				if !ok || len(c.Call.Args) == 0 {
					continue
				}
				callee := c.Call.StaticCallee()
				if callee == nil || callee.Signature.Recv() == nil {
					continue
				}
				g := rootGlobal(c.Call.Args[0])
				if g == nil || g.Pkg == nil || !an.IsLibPath(g.Pkg.Pkg.Path()) {
					continue
				}
				calls++
				pkg := an.FnPkgPath(callee)
				if (pkg == "sync" || pkg == "sync/atomic") && mutators[callee.Name()] {
					bad = append(bad, fmt.Sprintf("%s calls %s on package-level %s at %s", an.FnKey(fn), an.FnKey(callee), g.Name(), p.Pos(c.Pos())))
				}
			}
		}
	}
	// container-typed package-level variables
	for _, pkg := range p.SSA.AllPackages() {
		if pkg.Pkg == nil || !an.IsLibPath(pkg.Pkg.Path()) {
			continue
		}
		for _, m := range pkg.Members {
			g, ok := m.(*ssa.Global)
			if !ok {
				continue
			}
			ts := an.Deref(g.Type()).String()
			if strings.HasPrefix(ts, "sync.Map") || strings.HasPrefix(ts, "sync.Pool") || strings.HasPrefix(ts, "sync/atomic.") || strings.HasPrefix(ts, "atomic.") {
				bad = append(bad, fmt.Sprintf("package-level %s.%s has container type %s", an.ShortPkg(pkg.Pkg.Path()), g.Name(), ts))
			}
		}
	}
	r.Analysed["method_calls_on_package_level_variables"] = calls
	if calls < 10 {
		r.Fail(rule+" canary: only %d method calls on package-level variables found (the loggers alone account for hundreds): the detector no longer sees them", calls)
	}
	sort.Strings(bad)
	r.Check(len(bad) == 0, rule, "no-call-history", "-", "no entry point's result can depend on earlier calls: the library fills no package-level container at run time", bad...)
}

// c19BuilderState (K2): the certificate builder agrees with the direct constructors only if the
// payload it emits is built from the key types whenever key types are set and no explicit payload
// was requested — whatever an earlier Build() or WithPayload() left in the builder. Build() is
// evaluated on a builder in exactly that state with a non-empty stale payload: every successful
// path must have called buildKeyTypePayload.
func c19BuilderState(p *an.Prog, r *an.Report) {
	build := p.Func("certificate.(*CertificateBuilder).Build")
	if build == nil {
		r.Fail("C19.K2: anchor certificate.(*CertificateBuilder).Build not found")
		return
	}
	st, ok := an.Deref(build.Params[0].Type()).Underlying().(*types.Struct)
	if !ok {
		r.Fail("C19.K2: CertificateBuilder is not a struct")
		return
	}
	want := map[string]an.AV{
		"certType":    {K: an.KInt, I: 5},
		"payload":     {K: an.KPos, Tag: "stale"},
		"payloadSet":  {K: an.KBool, B: false},
		"signingType": {K: an.KNonNil, Tag: "set"},
		"cryptoType":  {K: an.KNonNil, Tag: "set"},
	}
	el := make([]an.AV, st.NumFields())
	found := 0
	for i := 0; i < st.NumFields(); i++ {
		if av, ok := want[st.Field(i).Name()]; ok {
			el[i] = av
			found++
		}
	}
	if found != len(want) {
		r.Fail("C19.K2: CertificateBuilder no longer has the fields certType/payload/payloadSet/signingType/cryptoType (%d of %d found)", found, len(want))
		return
	}
	store := []an.AV{{K: an.KStruct, Elems: el}}
	ev := &an.PEval{P: p, Domain: an.IvAll(), MaxPaths: 20000, MaxSteps: 400000, LoopOK: true, MaxDepth: 8, InitStore: store, NoInlineInHavoc: true,
		Trap: func(ssa.Instruction, string, []string) {},
		Inline: func(f *ssa.Function) bool {
			return an.InLib(f) && strings.HasSuffix(an.FnPkgPath(f), "/certificate") && len(f.Blocks) > 0 && f.Name() != "NewCertificateWithType"
		},
		OnCall: func(ev *an.PEval, call *ssa.Call, callee *ssa.Function, args []an.AV) (an.AV, bool) {
			if callee != nil && callee.Name() == "buildKeyTypePayload" {
				ev.Note("key-type-payload-built")
				return an.AV{K: an.KPos, Tag: "key-type-payload"}, true
			}
			return an.AV{}, false
		}}
	outs, err := ev.Run(build, []an.AV{an.PtrToCell(0)})
	if err != nil {
		r.Ob("C19.K2", "(*CertificateBuilder).Build/stale-payload", p.FnPos(build), an.Undecided, "Build could not be evaluated: "+err.Error())
		return
	}
	ei := an.ErrIndex(build)
	var bad []string
	succ := 0
	for _, o := range outs {
		if o.Panic || o.ErrIs(ei) == 2 {
			continue
		}
		succ++
		// name-free criterion: the payload field of the builder no longer holds the stale value
		stillStale := false
		if len(o.Store) > 0 && o.Store[0].K == an.KStruct {
			for i := 0; i < st.NumFields(); i++ {
				if st.Field(i).Name() == "payload" && i < len(o.Store[0].Elems) && o.Store[0].Elems[i].Tag == "stale" {
					stillStale = true
				}
			}
		}
		if stillStale && !o.HasNote("key-type-payload-built") {
			bad = append(bad, fmt.Sprintf("a successful path (return at %s) keeps the payload left in the builder instead of building it from the key types: %s", p.Pos(o.RetPos), strings.Join(tail(o.Trail, 3), " | ")))
		}
	}
	r.Check(len(bad) == 0 && succ > 0, "C19.K2", "(*CertificateBuilder).Build/stale-payload", p.FnPos(build),
		"with key types set and no explicit payload, Build() always derives the payload from the key types (a reused builder agrees with the direct constructors)", append(uniq(bad), fmt.Sprintf("%d successful paths", succ))...)
}
