package rules

import (
	b32 "encoding/base32"
	"fmt"
	"os"
	"go/token"
	"go/types"
	"strings"

	"golang.org/x/tools/go/ssa"

	"verif/checker/internal/an"
)

func init() { Registry["C07"] = C07 }

func isKACBytes(f *ssa.Function) bool {
	return f != nil && f.Name() == "Bytes" && f.Signature.Recv() != nil && an.IsLibNamed(f.Signature.Recv().Type(), "keys_and_cert", "KeysAndCert")
}

// sha256Call classifies a call as SHA-256 of its argument: crypto/sha256.Sum256 directly or the
// go-i2p/crypto types.SHA256 function variable.
func sha256Call(call ssa.CallInstruction) (isSHA bool, viaGlobal *ssa.Global) {
	c := call.Common()
	if f := c.StaticCallee(); f != nil {
		if an.FnPkgPath(f) == "crypto/sha256" && f.Name() == "Sum256" {
			return true, nil
		}
		return false, nil
	}
	if u, ok := c.Value.(*ssa.UnOp); ok && u.Op == token.MUL {
		if g, ok := u.X.(*ssa.Global); ok && g.Name() == "SHA256" && g.Pkg.Pkg.Path() == cryptoTypesPkg {
			return true, g
		}
	}
	return false, nil
}

func c07Slicer(p *an.Prog, root *ssa.Function) *an.Slicer {
	return &an.Slicer{P: p, Root: root, Through: an.AllArgs, MaxDepth: 8,
		StopAt: func(call ssa.CallInstruction, callee *ssa.Function) bool {
			if isKACBytes(callee) {
				return true
			}
			ok, _ := sha256Call(call)
			return ok
		}}
}

// bytesOfOwn checks that leaves are exactly one unsliced (*KeysAndCert).Bytes call whose receiver
// originates from parameter `param`'s KeysAndCert.
func bytesOfOwn(leaves []an.Leaf, param int) (bool, []string) {
	var bad []string
	n := 0
	for _, l := range leaves {
		switch l.Kind {
		case an.LCall:
			if !strings.HasSuffix(l.Name, "keys_and_cert.KeysAndCert).Bytes") {
				bad = append(bad, "unexpected source "+l.String())
				continue
			}
			n++
			if l.Sliced {
				bad = append(bad, "the serialised identity is sub-sliced before use")
			}
			okRecv := false
			if len(l.Args) > 0 {
				for _, a := range l.Args[0] {
					if a.Kind == an.LParam && a.Param == param && strings.HasSuffix(a.Path, "KeysAndCert") {
						okRecv = true
					} else if a.Kind == an.LParam {
						bad = append(bad, "serialises "+a.String()+" instead of the KeysAndCert of parameter "+fmt.Sprint(param))
					}
				}
			}
			if !okRecv {
				bad = append(bad, "receiver of KeysAndCert.Bytes is not the identity's own KeysAndCert")
			}
		case an.LConst:
			if l.Name != "nil" {
				bad = append(bad, "constant "+l.Name+" mixed into the identity bytes")
			}
		case an.LParam:
			bad = append(bad, "raw field "+l.String()+" used instead of the full serialisation")
		case an.LGlobal:
			bad = append(bad, "package variable "+l.Name)
		}
	}
	if n != 1 {
		bad = append(bad, fmt.Sprintf("%d KeysAndCert.Bytes sources (expected exactly 1)", n))
	}
	return len(bad) == 0, bad
}

// findCalls lists calls in fn (not descending) matching pred.
func findCalls(fn *ssa.Function, pred func(ssa.CallInstruction) bool) []ssa.CallInstruction {
	var out []ssa.CallInstruction
	for _, b := range fn.Blocks {
		for _, in := range b.Instrs {
			if c, ok := in.(ssa.CallInstruction); ok && pred(c) {
				out = append(out, c)
			}
		}
	}
	return out
}

func C07(p *an.Prog, r *an.Report) {
	r.Explanation = "For Destination.Hash/Base32Address/Base64/Equals, RouterIdentity.Equal and RouterInfo.IdentHash the value that is hashed, encoded or compared is traced backwards across library calls: its only origin must be result 0 of (*KeysAndCert).Bytes applied to the receiver's (resp. the other operand's) own KeysAndCert, not sub-sliced, with no raw field or constant mixed in. The digest is crypto/sha256.Sum256 (directly or through go-i2p/crypto's types.SHA256, whose initialiser is Sum256 and which no instruction in the program stores to); the base32 address is TrimRight(base32(full digest), \"=\") + \".b32.i2p\" (52+8 = 60 characters by the standard length formula); base64 is the I2P base64 of the same bytes; equality is bytes.Equal / ConstantTimeCompare==1 on the two serialisations; KeysAndCert.Bytes itself draws on every field of KeysAndCert. This decides 'pure function of the identity's wire bytes' structurally for all identities; collision resistance is not decided. H6: the three keys-and-cert readers restore the whole 384-byte block for every supported size pair."
	r.Rule = "one obligation per accessor clause (source of hashed/encoded/compared bytes, digest function, address shape), per KeysAndCert field for coverage"
	defer c01Block(p, r, "C07.H6") // the bytes hashed are the bytes parsed only if every reader restores the whole 384-byte block
	r.Trusted = []string{"crypto/sha256, encoding/base32/64 (see C13), bytes.Equal, subtle.ConstantTimeCompare", "go/ssa"}
	flow := an.NewFlow(p)
	need := func(name string) *ssa.Function {
		fn := p.Func(name)
		if fn == nil {
			r.Fail("C07: anchor %s not found", name)
		}
		return fn
	}
	// H2: SHA256 function variable
	var shaGlobal *ssa.Global
	if pk := p.ByPath[cryptoTypesPkg]; pk != nil {
		if sp := p.SSA.Package(pk.Types); sp != nil {
			shaGlobal, _ = sp.Members["SHA256"].(*ssa.Global)
		}
	}
	if shaGlobal != nil {
		okInit := false
		if initFn := shaGlobal.Pkg.Func("init"); initFn != nil {
			for _, b := range initFn.Blocks {
				for _, in := range b.Instrs {
					if st, ok := in.(*ssa.Store); ok && st.Addr == ssa.Value(shaGlobal) {
						f, isF := st.Val.(*ssa.Function)
						okInit = isF && an.FnPkgPath(f) == "crypto/sha256" && f.Name() == "Sum256"
					}
				}
			}
		}
		w := p.GlobalWrites(shaGlobal)
		r.Check(okInit && len(w) == 0, "C07.H2", "types.SHA256", "-", "types.SHA256 is initialised to crypto/sha256.Sum256 and never reassigned anywhere in the program", fmt.Sprintf("%d writes outside the initialiser", len(w)))
	}

	// hash-producing accessors: (function, index of the identity parameter)
	hashers := []string{"destination.(*Destination).Hash", "router_info.(*RouterInfo).IdentHash", "destination.(Destination).Base32Address"}
	for _, name := range hashers {
		fn := need(name)
		if fn == nil {
			continue
		}
		chains := callChains(p, fn, func(c ssa.CallInstruction) bool { ok, _ := sha256Call(c); return ok }, nil, 3)
		if len(chains) != 1 {
			r.Ob("C07.H1", name+"/digest", p.FnPos(fn), an.Violated, fmt.Sprintf("expected exactly one SHA-256 computation, found %d", len(chains)))
			continue
		}
		ch := chains[0]
		site := ch[len(ch)-1]
		sl := c07Slicer(p, fn)
		leaves := sl.LeavesInContext(ch[:len(ch)-1], site.Common().Args[0])
		ok, bad := bytesOfOwn(leaves, 0)
		r.Check(ok, "C07.H1", name+"/hashed-bytes", p.Pos(site.Pos()), "SHA-256 is computed over exactly KeysAndCert.Bytes() of the identity", append(bad, "origins: "+strings.Join(an.LeafStrings(leaves), ", "))...)
		// the digest reaches the result unmodified on success returns
		for _, ret := range flow.OkReturns(fn) {
			rl := c07Slicer(p, fn).Leaves(ret.Results[0])
			nsha, other := 0, []string{}
			for _, l := range rl {
				switch {
				case l.Kind == an.LCall && (strings.Contains(l.Name, "dynamic") || strings.Contains(l.Name, "Sum256")):
					nsha++
					if l.Sliced && fn.Name() != "Base32Address" {
						other = append(other, "digest is sub-sliced")
					}
				case l.Kind == an.LConst, l.Kind == an.LGlobal && strings.HasPrefix(l.Name, "base32."):
				case l.Kind == an.LCall && strings.HasSuffix(l.Name, "KeysAndCert).Bytes"):
					other = append(other, "raw identity bytes reach the result next to the digest")
				default:
					other = append(other, "unexpected origin "+l.String())
				}
			}
			r.Check(nsha == 1 && len(other) == 0, "C07.H2", name+"/result-is-digest", p.Pos(ret.Pos()), "the returned value derives from that digest only", append(other, "origins: "+strings.Join(an.LeafStrings(rl), ", "))...)
		}
	}
	// H3: base32 address shape
	if fn := need("destination.(Destination).Base32Address"); fn != nil {
		suffix, _ := p.ConstString("destination", "I2PBase32Suffix")
		r.Check(suffix == ".b32.i2p", "C07.H3", "destination.I2PBase32Suffix", "-", "suffix constant is .b32.i2p", suffix)
		n := b32.StdEncoding.WithPadding(b32.NoPadding).EncodedLen(32) + len(suffix)
		r.Check(n == 60, "C07.H3", "address-length", "-", "unpadded base32 of a 32-byte digest plus the suffix is 60 characters", fmt.Sprint(n))
		for _, ret := range flow.OkReturns(fn) {
			var bad []string
			add, ok := ret.Results[0].(*ssa.BinOp)
			if !ok || add.Op != token.ADD {
				bad = append(bad, "result is not <address> + suffix")
			} else {
				if c, ok := add.Y.(*ssa.Const); !ok || c.Value == nil || strings.Trim(c.Value.ExactString(), `"`) != ".b32.i2p" {
					bad = append(bad, "appended suffix is not the constant .b32.i2p")
				}
				trim, ok := add.X.(*ssa.Call)
				if !ok || !isFn(trim.Call.StaticCallee(), "strings", "TrimRight") {
					bad = append(bad, "address is not strings.TrimRight(...)")
				} else {
					if c, ok := trim.Call.Args[1].(*ssa.Const); !ok || c.Value == nil || c.Value.ExactString() != `"="` {
						bad = append(bad, "trim set is not \"=\"")
					}
					enc, ok := trim.Call.Args[0].(*ssa.Call)
					if !ok || enc.Call.StaticCallee() == nil || enc.Call.StaticCallee().Name() != "EncodeToString" || an.FnPkgPath(enc.Call.StaticCallee()) != an.ModPath+"/base32" {
						bad = append(bad, "trimmed value is not base32.EncodeToString(...)")
					} else if s, ok := enc.Call.Args[0].(*ssa.Slice); !ok || s.Low != nil || s.High != nil {
						bad = append(bad, "base32 input is not the full digest")
					}
				}
			}
			r.Check(len(bad) == 0, "C07.H3", "destination.(Destination).Base32Address/shape", p.Pos(ret.Pos()), "address = TrimRight(base32(full digest), \"=\") + \".b32.i2p\"", bad...)
		}
	}
	// Base64
	if fn := need("destination.(Destination).Base64"); fn != nil {
		for _, ret := range flow.OkReturns(fn) {
			var bad []string
			enc, ok := ret.Results[0].(*ssa.Call)
			if !ok || enc.Call.StaticCallee() == nil || enc.Call.StaticCallee().Name() != "EncodeToString" || an.FnPkgPath(enc.Call.StaticCallee()) != an.ModPath+"/base64" {
				bad = append(bad, "result is not base64.EncodeToString(...)")
			} else {
				leaves := c07Slicer(p, fn).Leaves(enc.Call.Args[0])
				ok2, b2 := bytesOfOwn(leaves, 0)
				if !ok2 {
					bad = append(bad, b2...)
				}
			}
			r.Check(len(bad) == 0, "C07.H3", "destination.(Destination).Base64", p.Pos(ret.Pos()), "Base64 is the I2P base64 of exactly KeysAndCert.Bytes()", bad...)
		}
	}
	// H5: equality
	for _, name := range []string{"destination.(*Destination).Equals", "router_identity.(*RouterIdentity).Equal"} {
		fn := need(name)
		if fn == nil {
			continue
		}
		cmps := findCalls(fn, func(c ssa.CallInstruction) bool {
			f := c.Common().StaticCallee()
			return isFn(f, "bytes", "Equal") || isFn(f, "crypto/subtle", "ConstantTimeCompare")
		})
		if len(cmps) != 1 {
			r.Ob("C07.H5", name, p.FnPos(fn), an.Violated, fmt.Sprintf("expected exactly one byte comparison, found %d", len(cmps)))
			continue
		}
		cmp := cmps[0]
		var bad []string
		okA, bA := bytesOfOwn(c07Slicer(p, fn).Leaves(cmp.Common().Args[0]), 0)
		okB, bB := bytesOfOwn(c07Slicer(p, fn).Leaves(cmp.Common().Args[1]), 1)
		if !okA {
			bad = append(bad, bA...)
		}
		if !okB {
			bad = append(bad, bB...)
		}
		// a true result is only returned as the comparison's outcome
		for _, ret := range an.Returns(fn) {
			v := ret.Results[0]
			if c, ok := v.(*ssa.Const); ok && c.Value != nil && c.Value.ExactString() == "false" {
				continue
			}
			if v == cmp.Value() {
				continue
			}
			if bo, ok := v.(*ssa.BinOp); ok && bo.Op == token.EQL && bo.X == cmp.Value() {
				if c, ok := bo.Y.(*ssa.Const); ok && c.Value != nil && c.Value.ExactString() == "1" && isFn(cmp.Common().StaticCallee(), "crypto/subtle", "ConstantTimeCompare") {
					continue
				}
			}
			bad = append(bad, "a result other than the comparison (or false) is returned at "+p.Pos(ret.Pos()))
		}
		r.Check(len(bad) == 0, "C07.H5", name, p.Pos(cmp.Pos()), "two identities are equal exactly when their full serialisations are byte-equal", bad...)
	}
	// H4: KeysAndCert.Bytes covers every field
	if fn := need("keys_and_cert.(*KeysAndCert).Bytes"); fn != nil {
		covered := map[string]bool{}
		whole := map[string]bool{}
		for _, ret := range flow.OkReturns(fn) {
			sl := &an.Slicer{P: p, Root: fn, Through: an.AllArgs, MaxDepth: 8}
			for _, l := range sl.Leaves(ret.Results[0]) {
				if os.Getenv("C07DEBUG") != "" {
					fmt.Println("LEAF", l.String(), l.Via)
				}
				if l.Kind == an.LParam && l.Param == 0 {
					parts := strings.Split(strings.TrimPrefix(l.Path, "."), ".")
					covered[parts[0]] = true
					if !l.Sliced {
						whole[parts[0]] = true
					}
				}
			}
		}
		st := an.Deref(fn.Signature.Recv().Type()).Underlying().(*types.Struct)
		for i := 0; i < st.NumFields(); i++ {
			name := st.Field(i).Name()
			// keys and certificate enter whole; only the padding is legitimately cut in two
			ok := covered[name] && (whole[name] || name == "Padding")
			r.Check(ok, "C07.H4", "KeysAndCert.Bytes/covers-"+name, p.FnPos(fn), "the identity serialisation draws on the whole of field "+name, fmt.Sprintf("covered=%v unsliced=%v", covered[name], whole[name]))
		}
	}
}
