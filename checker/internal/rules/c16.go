package rules

import (
	"fmt"
	"go/token"
	"go/types"
	"sort"
	"strings"

	"golang.org/x/tools/go/ssa"

	"verif/checker/internal/an"
)

func init() { Registry["C16"] = C16 }

// nondetUse describes a use of a nondeterminism source in fn.
func nondetUses(p *an.Prog, fn *ssa.Function) []string {
	var out []string
	for _, b := range fn.Blocks {
		for _, in := range b.Instrs {
			for _, op := range in.Operands(nil) {
				if g, ok := (*op).(*ssa.Global); ok && g.Pkg != nil && g.Pkg.Pkg.Path() == "crypto/rand" && g.Name() == "Reader" {
					out = append(out, "crypto/rand.Reader at "+p.Pos(in.Pos()))
				}
			}
			switch x := in.(type) {
			case ssa.CallInstruction:
				if an.IsLogCall(x) {
					continue
				}
				f := x.Common().StaticCallee()
				if f == nil {
					continue
				}
				pkg := an.FnPkgPath(f)
				switch {
				case pkg == "time" && (f.Name() == "Now" || f.Name() == "Since" || f.Name() == "Until"):
					out = append(out, "time."+f.Name()+" at "+p.Pos(in.Pos()))
				case pkg == "math/rand" || pkg == "math/rand/v2":
					out = append(out, pkg+"."+f.Name()+" at "+p.Pos(in.Pos()))
				case pkg == "crypto/rand":
					out = append(out, "crypto/rand."+f.Name()+" at "+p.Pos(in.Pos()))
				case pkg == "os" && (f.Name() == "Getenv" || f.Name() == "Hostname" || f.Name() == "Getpid"):
					out = append(out, "os."+f.Name()+" at "+p.Pos(in.Pos()))
				}
			case *ssa.Range:
				if _, ok := x.X.Type().Underlying().(*types.Map); ok {
					out = append(out, "range over a map at "+p.Pos(in.Pos()))
				}
			case *ssa.Go:
				out = append(out, "goroutine at "+p.Pos(in.Pos()))
			}
		}
	}
	return out
}

func C16(p *an.Prog, r *an.Report) {
	r.Explanation = "X1: the call-graph closure of CreateBlindedDestination through the library and go-i2p/crypto contains no nondeterminism source (time.Now, math/rand, crypto/rand, map iteration, goroutines; logging excluded). X2: the day string given to kdf.DeriveBlindingFactor is date.UTC().Format(\"2006-01-02\") of the date parameter and the secret is the secret parameter. X3: the blinded destination is NewKeysAndCert(dest.KeyCertificate, dest.ReceivingPublic, dest.Padding, blinded key) of the same dest. X4: DecryptInnerData evaluated under the assumption that the AEAD open fails reports no success, its success value originates only from the AEAD plaintext, and the slice offsets it reads (ephemeral key [0,32), nonce [32,44), ciphertext [44,n-16), tag [n-16,n)) equal, as affine forms, the order and sizes EncryptInnerLeaseSet2 appends. X5: VerifyBlindedSignature returns the equality of the blinded destination's key with BlindPublicKey(original key, alpha). decrypt(encrypt(x)) = x as a value equality and AEAD tamper rejection are properties of the primitives (trusted). X6: no copy() on the encrypt/decrypt path can truncate (len(dst) >= len(src), relational proof; an X25519 shared secret is trusted to be 32 bytes). X2 also requires the secret to reach the KDF whole. X7: the AEAD seal and open authenticate the same associated data on every path. X8: the decrypted buffer is handed to the parser and to nothing else."
	r.Rule = "one obligation per clause; the closure scan counts functions scanned; non-trivial = a concrete call site or slice was resolved; X6: one obligation per copy() on the encrypt/decrypt path"
	defer c16Copies(p, r)
	r.Trusted = []string{"go-i2p/crypto (kdf, ed25519 blinding, chacha20poly1305), go.step.sm x25519", "go/ssa, VTA call graph"}

	// X1
	if fn := p.Func("encrypted_leaseset.CreateBlindedDestination"); fn != nil {
		clos := p.Reachable(p.CG(), []*ssa.Function{fn}, func(f *ssa.Function) bool {
			pkg := an.FnPkgPath(f)
			return an.IsRepoPath(pkg) || strings.HasPrefix(pkg, "github.com/go-i2p/crypto")
		})
		scanned := 0
		var bad []string
		var fns []*ssa.Function
		for f := range clos {
			fns = append(fns, f)
		}
		sort.Slice(fns, func(i, j int) bool { return an.FnKey(fns[i]) < an.FnKey(fns[j]) })
		for _, f := range fns {
			pkg := an.FnPkgPath(f)
			if !(an.IsRepoPath(pkg) || strings.HasPrefix(pkg, "github.com/go-i2p/crypto")) || an.IsLoggerPkg(pkg) {
				continue
			}
			scanned++
			for _, u := range nondetUses(p, f) {
				bad = append(bad, u+" in "+an.FnKey(f)+" via "+an.PathString(clos[f]))
			}
		}
		r.Analysed["blinding_closure_functions"] = scanned
		r.Check(len(bad) == 0 && scanned >= 10, "C16.X1", "CreateBlindedDestination/deterministic", p.FnPos(fn),
			fmt.Sprintf("no nondeterminism source among the %d library/crypto functions reachable from CreateBlindedDestination", scanned), bad...)
		// canary: the detector must fire on the encryption path, which does use crypto/rand
		if enc := p.Func("encrypted_leaseset.EncryptInnerLeaseSet2"); enc != nil {
			n := 0
			for f := range p.Reachable(p.CG(), []*ssa.Function{enc}, func(f *ssa.Function) bool { return an.InLib(f) }) {
				if an.InLib(f) {
					n += len(nondetUses(p, f))
				}
			}
			if n == 0 {
				r.Fail("C16.X1 canary: the nondeterminism detector found nothing on the encryption path, which draws an ephemeral key and nonce from crypto/rand")
			}
			r.Analysed["nondeterminism_uses_on_encryption_path_canary"] = n
		}
		// X2
		chains := callChains(p, fn, func(c ssa.CallInstruction) bool {
			f := c.Common().StaticCallee()
			return f != nil && f.Name() == "DeriveBlindingFactor" && strings.HasSuffix(an.FnPkgPath(f), "crypto/kdf")
		}, nil, 4)
		if len(chains) != 1 {
			r.Ob("C16.X2", "DeriveBlindingFactor-site", p.FnPos(fn), an.Violated, fmt.Sprintf("expected exactly one DeriveBlindingFactor call, found %d", len(chains)))
		} else {
			site := chains[0][len(chains[0])-1]
			var bad []string
			// argument 1: Format(UTC(date), "2006-01-02")
			fc, ok := site.Common().Args[1].(*ssa.Call)
			if !ok || !isFn(fc.Call.StaticCallee(), "time", "Format") {
				bad = append(bad, "day argument is not a time.Time.Format result")
			} else {
				if c, ok := fc.Call.Args[1].(*ssa.Const); !ok || c.Value == nil || c.Value.ExactString() != `"2006-01-02"` {
					bad = append(bad, "layout is not \"2006-01-02\"")
				}
				uc, ok := fc.Call.Args[0].(*ssa.Call)
				if !ok || !isFn(uc.Call.StaticCallee(), "time", "UTC") {
					bad = append(bad, "the formatted time is not date.UTC()")
				} else {
					sl := &an.Slicer{P: p, Root: fn, Through: an.AllArgs}
					ls := sl.LeavesInContext(chains[0][:len(chains[0])-1], uc.Call.Args[0])
					for _, l := range ls {
						if !(l.Kind == an.LParam && l.Param == 2) {
							bad = append(bad, "time origin "+l.String()+" is not the date parameter")
						}
					}
				}
			}
			sl := &an.Slicer{P: p, Root: fn, Through: an.AllArgs}
			for _, l := range sl.LeavesInContext(chains[0][:len(chains[0])-1], site.Common().Args[0]) {
				if !(l.Kind == an.LParam && l.Param == 1) {
					bad = append(bad, "secret origin "+l.String()+" is not the secret parameter")
				} else if l.Sliced || l.Path != "" {
					bad = append(bad, "the secret is narrowed before derivation ("+l.String()+"): part of the caller's secret does not take part")
				}
			}
			r.Check(len(bad) == 0, "C16.X2", "DeriveBlindingFactor-site", p.Pos(site.Pos()), "blinding factor = DeriveBlindingFactor(secret, date.UTC().Format(\"2006-01-02\"))", bad...)
		}
		// X3
		chains = callChains(p, fn, func(c ssa.CallInstruction) bool {
			f := c.Common().StaticCallee()
			return f != nil && f.Name() == "NewKeysAndCert" && an.FnPkgPath(f) == an.ModPath+"/keys_and_cert"
		}, nil, 4)
		if len(chains) != 1 {
			r.Ob("C16.X3", "NewKeysAndCert-site", p.FnPos(fn), an.Violated, fmt.Sprintf("expected exactly one NewKeysAndCert call, found %d", len(chains)))
		} else {
			ch := chains[0]
			site := ch[len(ch)-1]
			want := []string{"KeyCertificate", "ReceivingPublic", "Padding"}
			var bad []string
			for i, w := range want {
				sl := &an.Slicer{P: p, Root: fn, Through: an.AllArgs}
				ls := sl.LeavesInContext(ch[:len(ch)-1], site.Common().Args[i])
				ok := len(ls) > 0
				for _, l := range ls {
					if l.Kind == an.LConst {
						continue
					}
					if !(l.Kind == an.LParam && l.Param == 0 && strings.HasSuffix(l.Path, "."+w) && !l.Sliced) {
						ok = false
					}
				}
				if !ok {
					bad = append(bad, fmt.Sprintf("argument %d is not dest.%s: %s", i, w, strings.Join(an.LeafStrings(ls), ", ")))
				}
			}
			sl := &an.Slicer{P: p, Root: fn, Through: an.AllArgs, StopAt: func(c ssa.CallInstruction, f *ssa.Function) bool {
				return f != nil && f.Name() == "BlindPublicKey"
			}}
			ls := sl.LeavesInContext(ch[:len(ch)-1], site.Common().Args[3])
			okB := false
			for _, l := range ls {
				if l.Kind == an.LCall && strings.Contains(l.Name, "BlindPublicKey") {
					okB = true
				} else if l.Kind == an.LParam {
					bad = append(bad, "signing key argument derives directly from "+l.String())
				}
			}
			if !okB {
				bad = append(bad, "signing key argument is not the BlindPublicKey result")
			}
			r.Check(len(bad) == 0, "C16.X3", "NewKeysAndCert-site", p.Pos(site.Pos()), "blinded destination keeps the same destination's key certificate, encryption key and padding and carries the blinded signing key", bad...)
		}
	} else {
		r.Fail("C16: anchor encrypted_leaseset.CreateBlindedDestination not found")
	}

	// X4
	if fn := p.Func("encrypted_leaseset.(*EncryptedLeaseSet).DecryptInnerData"); fn != nil {
		isOpen := func(c ssa.CallInstruction) bool {
			f := c.Common().StaticCallee()
			return f != nil && f.Name() == "Decrypt" && strings.Contains(an.FnPkgPath(f), "chacha20poly1305")
		}
		relevant := reachesAnyCall(p, isOpen)
		for _, mode := range []string{"fail", "ok"} {
			mode := mode
			ev := &an.PEval{P: p, MaxPaths: 50000, LoopOK: true, MaxDepth: 8,
				Inline: func(f *ssa.Function) bool { return an.InLib(f) && relevant[f] && len(f.Blocks) > 0 },
				OnCall: func(ev *an.PEval, call *ssa.Call, callee *ssa.Function, args []an.AV) (an.AV, bool) {
					if isOpen(call) {
						ev.Note("aead-open")
						if mode == "fail" {
							return an.AV{K: an.KTuple, Elems: []an.AV{{K: an.KNil}, {K: an.KNonNil}}}, true
						}
						return an.AV{K: an.KTuple, Elems: []an.AV{{K: an.KNonNil, Tag: "plaintext"}, {K: an.KNil}}}, true
					}
					return an.AV{}, false
				}}
			outs, err := ev.Run(fn, rootArgs(fn))
			if err != nil {
				r.Ob("C16.X4", "DecryptInnerData/aead-"+mode, p.FnPos(fn), an.Undecided, err.Error())
				continue
			}
			succ, noOpen := 0, 0
			for _, o := range outs {
				if !o.Panic && o.ErrIs(1) != 2 {
					succ++
					if !o.HasNote("aead-open") {
						noOpen++
					}
				}
			}
			if mode == "fail" {
				r.Check(succ == 0 && len(outs) > 0, "C16.X4", "DecryptInnerData/aead-fail", p.FnPos(fn), "no value is returned when the authenticated decryption fails", fmt.Sprintf("%d paths, %d succeed", len(outs), succ))
			} else {
				r.Check(succ > 0 && noOpen == 0, "C16.X4", "DecryptInnerData/aead-ok", p.FnPos(fn), "every success path went through the authenticated decryption", fmt.Sprintf("%d success paths, %d without AEAD open", succ, noOpen))
			}
		}
		// origin of the returned value
		flow := an.NewFlow(p)
		for _, ret := range flow.OkReturns(fn) {
			sl := &an.Slicer{P: p, Root: fn, Through: an.AllArgs, MaxDepth: 4, StopAt: func(c ssa.CallInstruction, f *ssa.Function) bool {
				return isOpen(c) || (f != nil && f.Name() == "ReadLeaseSet2")
			}}
			ls := sl.Leaves(ret.Results[0])
			var bad []string
			seen := false
			for _, l := range ls {
				switch {
				case l.Kind == an.LCall && strings.Contains(l.Name, "ReadLeaseSet2"):
					// its input must be the AEAD plaintext only
					for _, a := range l.Args[0] {
						if a.Kind == an.LCall && strings.Contains(a.Name, "Decrypt") {
							seen = true
						} else if a.Kind == an.LParam {
							bad = append(bad, "parsed bytes derive from "+a.String()+" without decryption")
						}
					}
				case l.Kind == an.LParam:
					bad = append(bad, "result derives from "+l.String()+" bypassing decryption")
				}
			}
			if !seen {
				bad = append(bad, "result is not ReadLeaseSet2 of the AEAD plaintext")
			}
			r.Check(len(bad) == 0, "C16.X4", "DecryptInnerData/result-origin", p.Pos(ret.Pos()), "the returned LeaseSet2 is parsed from the authenticated plaintext only", append(bad, "origins: "+strings.Join(an.LeafStrings(ls), ", "))...)
		}
	} else {
		r.Fail("C16: anchor DecryptInnerData not found")
	}
	c16Layout(p, r)
	c16PlaintextUntouched(p, r)

	// X5
	if fn := p.Func("encrypted_leaseset.VerifyBlindedSignature"); fn != nil {
		var bad []string
		found := false
		chains := callChains(p, fn, func(c ssa.CallInstruction) bool {
			f := c.Common().StaticCallee()
			return f != nil && f.Name() == "BlindPublicKey"
		}, nil, 3)
		for _, ch := range chains {
			site := ch[len(ch)-1]
			holder := site.Parent()
			// the holder returns (BlindPublicKey result == other)
			for _, ret := range an.Returns(holder) {
				bo, ok := ret.Results[0].(*ssa.BinOp)
				if !ok || bo.Op != token.EQL {
					continue
				}
				var other ssa.Value
				if e, ok := bo.X.(*ssa.Extract); ok && e.Tuple == site.Value() && e.Index == 0 {
					other = bo.Y
				} else if e, ok := bo.Y.(*ssa.Extract); ok && e.Tuple == site.Value() && e.Index == 0 {
					other = bo.X
				} else {
					continue
				}
				found = true
				ctx := ch[:len(ch)-1]
				mk := func() *an.Slicer { return &an.Slicer{P: p, Root: fn, Through: an.AllArgs} }
				check := func(v ssa.Value, param int, what string) {
					ls := mk().LeavesInContext(ctx, v)
					ok := false
					for _, l := range ls {
						if l.Kind == an.LParam {
							if l.Param == param {
								ok = true
							} else {
								bad = append(bad, what+" derives from "+l.String())
							}
						}
					}
					if !ok {
						bad = append(bad, what+" does not derive from parameter "+fn.Params[param].Name())
					}
				}
				check(site.Common().Args[0], 1, "the key that is blinded")
				check(site.Common().Args[1], 2, "the blinding factor")
				check(other, 0, "the key compared against")
			}
		}
		if !found {
			bad = append(bad, "no `BlindPublicKey(original, alpha) == blinded` comparison reaches the result")
		}
		// false on every failure: all other returns are the constant false
		r.Check(len(bad) == 0, "C16.X5", "VerifyBlindedSignature", p.FnPos(fn), "result is the equality of the blinded destination's key with BlindPublicKey(original's key, alpha)", bad...)
	} else {
		r.Fail("C16: anchor VerifyBlindedSignature not found")
	}
}

// c16Layout compares the offsets DecryptInnerData reads with what EncryptInnerLeaseSet2 appends.
func c16Layout(p *an.Prog, r *an.Report) {
	top := p.Func("encrypted_leaseset.(*EncryptedLeaseSet).DecryptInnerData")
	encTop := p.Func("encrypted_leaseset.EncryptInnerLeaseSet2")
	if top == nil || encTop == nil {
		r.Fail("C16.X4 layout: anchors DecryptInnerData / EncryptInnerLeaseSet2 not found")
		return
	}
	isAEAD := func(name string) func(ssa.CallInstruction) bool {
		return func(c ssa.CallInstruction) bool {
			f := c.Common().StaticCallee()
			return f != nil && f.Name() == name && strings.Contains(an.FnPkgPath(f), "chacha20poly1305")
		}
	}
	// the function that seals is the one that assembles; the function whose results feed Decrypt
	// is the one that splits
	var enc, dec *ssa.Function
	if chs := callChains(p, encTop, isAEAD("Encrypt"), nil, 4); len(chs) == 1 {
		enc = chs[0][len(chs[0])-1].Parent()
	}
	if chs := callChains(p, top, isAEAD("Decrypt"), nil, 4); len(chs) == 1 {
		site := chs[0][len(chs[0])-1]
		for _, a := range site.Common().Args {
			if e, ok := a.(*ssa.Extract); ok {
				if c, ok := e.Tuple.(*ssa.Call); ok && c.Call.StaticCallee() != nil && an.InLib(c.Call.StaticCallee()) {
					dec = c.Call.StaticCallee()
				}
			}
		}
		if dec == nil {
			dec = site.Parent() // components are sliced in the same function
		}
	}
	// X7: both sides authenticate the same associated data on every path (nil on both, or the same
	// role of argument on both, unconditionally)
	{
		adOrigins := func(root *ssa.Function, name string, argIdx int) ([]string, bool) {
			chs := callChains(p, root, isAEAD(name), nil, 4)
			if len(chs) != 1 {
				return nil, false
			}
			site := chs[0][len(chs[0])-1]
			args := site.Common().Args
			if argIdx >= len(args) {
				return nil, false
			}
			sl := &an.Slicer{P: p, Root: root, Through: an.AllArgs}
			set := map[string]bool{}
			for _, l := range sl.LeavesInContext(chs[0][:len(chs[0])-1], args[argIdx]) {
				switch l.Kind {
				case an.LConst:
					set["const "+l.Name] = true
				case an.LParam:
					role := fmt.Sprintf("param %d", l.Param)
					if l.Param < len(root.Params) {
						nm := strings.ToLower(root.Params[l.Param].Name())
						if strings.Contains(nm, "cookie") {
							role = "cookie"
						}
					}
					if l.Sliced || l.Path != "" {
						role += " (part)"
					}
					set[role] = true
				default:
					set[l.String()] = true
				}
			}
			var out []string
			for k := range set {
				out = append(out, k)
			}
			sort.Strings(out)
			return out, true
		}
		// receiver first: Encrypt(recv, plaintext, ad, nonce), Decrypt(recv, ciphertext, tag, ad, nonce)
		eo, ok1 := adOrigins(encTop, "Encrypt", 2)
		do, ok2 := adOrigins(top, "Decrypt", 3)
		if !ok1 || !ok2 {
			r.Ob("C16.X7", "aead-associated-data", "-", an.Undecided, "could not locate the single AEAD seal/open call")
		} else {
			same := strings.Join(eo, ";") == strings.Join(do, ";") && len(eo) == 1
			r.Check(same, "C16.X7", "aead-associated-data", p.FnPos(top), "encryption and decryption authenticate the same associated data on every path",
				"encrypt side: "+strings.Join(eo, ", "), "decrypt side: "+strings.Join(do, ", "))
		}
	}
	if enc == nil || dec == nil {
		r.Ob("C16.X4", "layout", "-", an.Undecided, "could not locate the functions that assemble / split the encrypted blob around the AEAD calls")
		return
	}
	// encrypt side: lengths of the appended parts, in order
	var parts []string
	for _, b := range enc.Blocks {
		for _, in := range b.Instrs {
			c, ok := in.(*ssa.Call)
			if !ok {
				continue
			}
			if bi, ok := c.Call.Value.(*ssa.Builtin); !ok || bi.Name() != "append" || len(c.Call.Args) != 2 {
				continue
			}
			if c.Call.Args[0].Type().String() != "[]byte" {
				continue
			}
			parts = append(parts, staticLen(c.Call.Args[1]))
		}
	}
	if len(parts) == 0 {
		// not an append chain: a buffer of the final size filled by adjacent copies
		b := an.NewBounds(p)
		for _, ret := range an.NewFlow(p).OkReturns(enc) {
			if len(ret.Results) == 0 {
				continue
			}
			if vs, why := bufferParts(b, ret.Results[0], 0); why == "" && len(vs) > 0 {
				for _, v := range vs {
					parts = append(parts, staticLen(v))
				}
				break
			}
		}
	}
	wantEnc := []string{"32|?", "12", "?", "16"}
	okEnc := len(parts) == 4
	for i := range parts {
		if okEnc && !strings.Contains("|"+wantEnc[i]+"|", "|"+parts[i]+"|") {
			okEnc = false
		}
	}
	r.Check(okEnc, "C16.X4", "layout/encrypt-append-order", p.FnPos(enc), "encrypted blob is ephemeral key (32) | nonce (12) | ciphertext | tag (16), appended in that order", "appended part sizes: "+strings.Join(parts, ", "))
	// decrypt side: slices of the parameter as affine ranges
	prm := dec.Params[0]
	atom := func(v ssa.Value) string {
		if v == ssa.Value(prm) {
			return "data"
		}
		return ""
	}
	var ranges []string
	for _, b := range dec.Blocks {
		for _, in := range b.Instrs {
			s, ok := in.(*ssa.Slice)
			if !ok {
				continue
			}
			root, lo, hi := an.SliceRange(s, atom)
			if root != ssa.Value(prm) {
				continue
			}
			ranges = append(ranges, "["+lo.String()+","+hi.String()+")")
		}
	}
	sort.Strings(ranges)
	want := map[string]bool{"[32,44)": true, "[44,len(data))": true, "[44,len(data)-16)": true, "[len(data)-16,len(data))": true}
	var missing, extra []string
	have := map[string]bool{}
	for _, rg := range ranges {
		have[rg] = true
		if !want[rg] {
			extra = append(extra, rg)
		}
	}
	for w := range want {
		if !have[w] {
			missing = append(missing, w)
		}
	}
	sort.Strings(missing)
	r.Check(len(missing) == 0 && len(extra) == 0, "C16.X4", "layout/decrypt-offsets", p.FnPos(dec), "decryption reads nonce [32,44), ciphertext [44,n-16) and tag [n-16,n) — the mirror of the encryption layout",
		"ranges read: "+strings.Join(ranges, " "), "missing: "+strings.Join(missing, " "), "unexpected: "+strings.Join(extra, " "))
	// ephemeral key range in the top-level function
	okEph := false
	for _, b := range top.Blocks {
		for _, in := range b.Instrs {
			if s, ok := in.(*ssa.Slice); ok && s.Low == nil && s.High != nil {
				if c, ok := s.High.(*ssa.Const); ok && c.Value != nil && c.Int64() == 32 {
					okEph = true
				}
			}
		}
	}
	r.Check(okEph, "C16.X4", "layout/decrypt-ephemeral-key", p.FnPos(top), "the ephemeral public key is read from bytes [0,32)")
}

// staticLen gives the statically known length of an appended operand ("?" when data dependent).
func staticLen(v ssa.Value) string {
	switch x := v.(type) {
	case *ssa.Slice:
		if pt, ok := x.X.Type().Underlying().(*types.Pointer); ok {
			if arr, ok := pt.Elem().Underlying().(*types.Array); ok && x.Low == nil && x.High == nil {
				return fmt.Sprint(arr.Len())
			}
		}
		if x.Low == nil && x.High == nil {
			return staticLen(x.X)
		}
	case *ssa.MakeSlice:
		if c, ok := x.Len.(*ssa.Const); ok && c.Value != nil {
			return fmt.Sprint(c.Int64())
		}
	case *ssa.UnOp:
		return "?"
	}
	// a make([]byte, const) lowered to new [N]byte + slice
	if s, ok := v.(*ssa.Slice); ok {
		if a, ok := s.X.(*ssa.Alloc); ok {
			if arr, ok := an.Deref(a.Type()).Underlying().(*types.Array); ok {
				return fmt.Sprint(arr.Len())
			}
		}
	}
	return "?"
}


// c16Copies (X6): on the encrypt/decrypt path no copy() may silently truncate: for every
// copy(dst, src) in the library functions reachable from EncryptInnerLeaseSet2 / DecryptInnerData
// inside package encrypted_leaseset, len(dst) >= len(src) must hold on every path (relational
// bounds proof, engine E11). A key, nonce or ciphertext copied into a shorter buffer makes
// decrypt(encrypt(x)) fail or differ for every x.
func c16Copies(p *an.Prog, r *an.Report) {
	var roots []*ssa.Function
	for _, name := range []string{"encrypted_leaseset.EncryptInnerLeaseSet2", "encrypted_leaseset.(*EncryptedLeaseSet).DecryptInnerData"} {
		if fn := p.Func(name); fn != nil {
			roots = append(roots, fn)
		} else {
			r.Fail("C16.X6: anchor %s not found", name)
		}
	}
	b := an.NewBounds(p)
	// trusted: an X25519 shared secret is 32 bytes
	b.Axioms = func(b *an.Bounds, c *ssa.Call, prove func(an.Lin) bool) []an.Fact {
		callee := c.Call.StaticCallee()
		if callee == nil || callee.Name() != "SharedKey" || !strings.Contains(an.FnKey(callee), "x25519.PrivateKey") {
			return nil
		}
		for _, ref := range *c.Referrers() {
			if ex, ok := ref.(*ssa.Extract); ok && ex.Index == 0 {
				return []an.Fact{{L: an.LinConst(32).Add(b.LenOf(ex), -1), Why: "X25519 shared secrets are 32 bytes"}}
			}
		}
		return nil
	}
	clos := p.Reachable(p.CG(), roots, func(f *ssa.Function) bool { return strings.HasSuffix(an.FnPkgPath(f), "/encrypted_leaseset") })
	var fns []*ssa.Function
	for f := range clos {
		if strings.HasSuffix(an.FnPkgPath(f), "/encrypted_leaseset") {
			fns = append(fns, f)
		}
	}
	sort.Slice(fns, func(i, j int) bool { return an.FnKey(fns[i]) < an.FnKey(fns[j]) })
	n := 0
	for _, fn := range fns {
		k := 0
		for _, blk := range fn.Blocks {
			for _, in := range blk.Instrs {
				c, ok := in.(*ssa.Call)
				if !ok || !isBuiltin(c, "copy") || len(c.Call.Args) != 2 {
					continue
				}
				n++
				k++
				goal := b.LenOf(c.Call.Args[0]).Add(b.LenOf(c.Call.Args[1]), -1)
				pr := b.ProveAt(c, goal)
				r.Check(pr.OK, "C16.X6", fmt.Sprintf("%s/copy%d", an.FnKey(fn), k), p.Pos(c.Pos()),
					"copy() on the encrypt/decrypt path does not truncate: len(dst) >= len(src) on every path", append([]string{"goal " + goal.String() + " >= 0"}, pr.Trail...)...)
			}
		}
	}
	r.Analysed["copies on the encrypt/decrypt path"] = n
	if n < 3 {
		r.Fail("C16.X6: only %d copy() calls found on the encrypt/decrypt path (expected at least 3)", n)
	}
}

// c16PlaintextUntouched (X8): the buffer that comes out of the authenticated decryption is handed
// to the parser and to nothing else. The parsed LeaseSet2 may keep pointing into that buffer (the
// options mapping keeps sub-slices of its input by design, C08's exemption), so anything that
// writes the buffer afterwards — a deferred wipe, a reuse as scratch space — changes the value that
// was just returned, and decrypt(encrypt(x)) no longer has x's bytes. Allowed uses: len(), logging,
// and being passed (possibly re-sliced) to one library call.
func c16PlaintextUntouched(p *an.Prog, r *an.Report) {
	top := p.Func("encrypted_leaseset.(*EncryptedLeaseSet).DecryptInnerData")
	if top == nil {
		r.Fail("C16.X8: anchor DecryptInnerData not found")
		return
	}
	isOpen := func(c ssa.CallInstruction) bool {
		f := c.Common().StaticCallee()
		return f != nil && f.Name() == "Decrypt" && strings.Contains(an.FnPkgPath(f), "chacha20poly1305")
	}
	chs := callChains(p, top, isOpen, nil, 4)
	if len(chs) != 1 || len(chs[0]) == 0 {
		r.Ob("C16.X8", "plaintext-untouched", p.FnPos(top), an.Undecided, "could not locate the single AEAD open call")
		return
	}
	// the plaintext as seen by the function nearest the top that receives it from the call chain
	first, ok := chs[0][0].(*ssa.Call)
	if !ok {
		r.Ob("C16.X8", "plaintext-untouched", p.FnPos(top), an.Undecided, "the decryption is not reached through a plain call")
		return
	}
	var plain ssa.Value
	if first.Common().Signature().Results().Len() == 1 {
		plain = first
	} else if first.Referrers() != nil {
		for _, ref := range *first.Referrers() {
			if ex, ok := ref.(*ssa.Extract); ok && ex.Index == 0 {
				plain = ex
			}
		}
	}
	if plain == nil || !isByteSliceType(plain.Type()) {
		r.Ob("C16.X8", "plaintext-untouched", p.Pos(first.Pos()), an.Undecided, "the decrypted plaintext value was not found")
		return
	}
	var bad []string
	passed := 0
	var visit func(v ssa.Value, d int)
	visit = func(v ssa.Value, d int) {
		if d > 4 || v.Referrers() == nil {
			return
		}
		for _, ref := range *v.Referrers() {
			if an.IsLogPlumbing(ref) {
				continue
			}
			switch x := ref.(type) {
			case *ssa.DebugRef:
			case *ssa.Slice:
				visit(x, d+1)
			case *ssa.Phi:
				visit(x, d+1)
			case *ssa.Call:
				if bi, ok := x.Call.Value.(*ssa.Builtin); ok {
					if bi.Name() == "len" || bi.Name() == "cap" {
						continue
					}
					bad = append(bad, fmt.Sprintf("builtin %s at %s", bi.Name(), p.Pos(x.Pos())))
					continue
				}
				if callee := x.Call.StaticCallee(); callee != nil && an.InLib(callee) {
					passed++
					continue
				}
				bad = append(bad, fmt.Sprintf("passed to %s at %s", x.Call.Value.Name(), p.Pos(x.Pos())))
			case *ssa.MakeInterface:
				// logging fields
				visit(x, d+1)
			case *ssa.Return:
			default:
				bad = append(bad, fmt.Sprintf("%T at %s", ref, p.Pos(ref.Pos())))
			}
		}
	}
	visit(plain, 0)
	if passed > 1 {
		bad = append(bad, fmt.Sprintf("handed to %d library calls (only the parser may receive it)", passed))
	}
	sort.Strings(bad)
	r.Check(len(bad) == 0 && passed == 1, "C16.X8", "plaintext-untouched", p.Pos(first.Pos()),
		"the decrypted buffer is handed to the parser and to nothing else (a later write would change the LeaseSet2 just returned, which may point into it)", bad...)
}
