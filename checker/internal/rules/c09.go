package rules

import (
	"fmt"
	"go/token"
	"go/types"
	"sort"
	"strings"

	"golang.org/x/tools/go/ssa"

	"verif/checker/internal/an"
)

func init() { Registry["C09"] = C09 }

// identity types and their prohibited sets
type idSpec struct {
	pkg, name      string
	signing, crypt an.IvSet
}

var idSpecs = []idSpec{
	{"destination", "Destination", SpecDestProhibitedSigning, SpecDestProhibitedCrypto},
	{"router_identity", "RouterIdentity", SpecRIProhibitedSigning, SpecRIProhibitedCrypto},
}

func idSpecOf(t types.Type) *idSpec {
	for i := range idSpecs {
		if an.IsLibNamed(t, idSpecs[i].pkg, idSpecs[i].name) {
			return &idSpecs[i]
		}
	}
	return nil
}

// integerFieldSelector selects q = (data.Integer).Int() applied to a symbolic object whose access
// path ends in the given field name.
func integerFieldSelector(field string) an.QSelector {
	return func(ev *an.PEval, v ssa.Value, args []an.AV) bool {
		c, ok := v.(*ssa.Call)
		if !ok {
			return false
		}
		callee := c.Call.StaticCallee()
		if callee == nil || callee.Name() != "Int" || !isNamed(recvType(callee), "common/data", "Integer") {
			return false
		}
		return len(args) > 0 && args[0].K == an.KObj && strings.HasSuffix(args[0].Path, "."+field)
	}
}

type kacValidator struct {
	fn             *ssa.Function
	rejS, rejC     an.IvSet // must-reject regions given non-nil KeysAndCert/KeyCertificate
	mayRejS, mayRejC an.IvSet
	err            error
}

// discoverKACValidators evaluates every library function (or method) taking exactly one
// *keys_and_cert.KeysAndCert and returning error.
func discoverKACValidators(p *an.Prog) map[*ssa.Function]*kacValidator {
	out := map[*ssa.Function]*kacValidator{}
	for _, fn := range p.RepoFns {
		if fn.Synthetic != "" || fn.Parent() != nil || len(fn.Blocks) == 0 || len(fn.Params) != 1 {
			continue
		}
		if !an.IsLibNamed(fn.Params[0].Type(), "keys_and_cert", "KeysAndCert") {
			continue
		}
		if _, isPtr := fn.Params[0].Type().Underlying().(*types.Pointer); !isPtr {
			continue
		}
		res := fn.Signature.Results()
		if res.Len() != 1 || !isErrorType(res.At(0).Type()) {
			continue
		}
		v := &kacValidator{fn: fn}
		for _, side := range []string{"SpkType", "CpkType"} {
			ev := &an.PEval{P: p, Domain: Code16, Select: integerFieldSelector(side), MaxPaths: 5000,
				AssumeNonNil: func(string) bool { return true }}
			outs, err := ev.Run(fn, rootArgs(fn))
			if err != nil {
				v.err = err
				break
			}
			must, may, _ := an.RegionWhere(Code16, outs, func(o an.Outcome) bool { return !o.Panic && o.ErrIs(0) == 2 })
			if side == "SpkType" {
				v.rejS, v.mayRejS = must, may
			} else {
				v.rejC, v.mayRejC = must, may
			}
		}
		out[fn] = v
	}
	return out
}

// C09 decides K1 (every construction of an identity type is guarded by a checked validator or is a
// reviewed derivation from an already-validated identity) and K2 (validators reject exactly the
// specified sets over all 65,536 codes).
func C09(p *an.Prog, r *an.Report) {
	r.Explanation = "K2: every function f(*KeysAndCert) error of the library is evaluated statically as a function of the signing and of the crypto type code (interval partitioning of its SSA paths, receiver assumed non-nil); the region it must reject is compared with the specification's prohibited set for the identity type on all 65,536 codes (equality: never admits a prohibited type, never rejects a permitted one). K1: every SSA store that puts a non-nil *KeysAndCert into a Destination or RouterIdentity (and every conversion into those types) anywhere in the library must lie, on every path from function entry to a success return, behind the nil-edge of a checked call to a validator whose reject sets cover the type's prohibited sets on that same KeysAndCert value — or be a derivation from an existing identity value whose type's prohibited sets are a superset. Decided for all API paths at once because the construction sites are enumerated from the program, not from call examples."
	r.Rule = "obligations: one per discovered validator side (K2) and one per identity construction site (K1); non-trivial = resolved to a concrete function/instruction"
	r.Trusted = []string{"go/ssa", "exported embedded field KeysAndCert is not assigned by callers (values assembled outside the library are out of scope)"}
	r.Exhaustive = true
	flow := an.NewFlow(p)
	vals := discoverKACValidators(p)
	r.Analysed["functions_of_KeysAndCert_returning_error"] = len(vals)

	// K2
	full := map[string][]*kacValidator{} // type name -> validators covering its sets
	var keys []*ssa.Function
	for fn := range vals {
		keys = append(keys, fn)
	}
	sort.Slice(keys, func(i, j int) bool { return an.FnKey(keys[i]) < an.FnKey(keys[j]) })
	nK2 := 0
	for _, fn := range keys {
		v := vals[fn]
		if v.err != nil {
			// only matters when used as a guard; reported at K1
			continue
		}
		if v.rejS.Empty() && v.rejC.Empty() && v.mayRejS.Equal(v.rejS) {
			// rejects no type code: not a key-type validator
		}
		for i := range idSpecs {
			sp := &idSpecs[i]
			if sp.signing.SubsetOf(v.rejS) && sp.crypt.SubsetOf(v.rejC) {
				full[sp.name] = append(full[sp.name], v)
			}
		}
		// validators living in the package of an identity type and rejecting some type code are
		// held to that type's exact sets
		for i := range idSpecs {
			sp := &idSpecs[i]
			if an.FnPkgPath(fn) != an.ModPath+"/"+sp.pkg {
				continue
			}
			if v.rejS.Empty() && v.rejC.Empty() {
				continue
			}
			// partial helpers (one side only) are compared on the side they act on
			if !v.rejS.Empty() {
				nK2++
				r.Check(v.rejS.Equal(sp.signing), "C09.K2", sp.name+"/signing/"+an.FnKey(fn), p.FnPos(fn),
					fmt.Sprintf("signing codes rejected for %s equal the prohibited set on all 65,536 codes", sp.name),
					"rejects "+v.rejS.String(), "specification "+sp.signing.String(),
					"missing "+sp.signing.Minus(v.rejS).String(), "wrongly rejected "+v.rejS.Minus(sp.signing).String())
			}
			if !v.rejC.Empty() {
				nK2++
				r.Check(v.rejC.Equal(sp.crypt), "C09.K2", sp.name+"/crypto/"+an.FnKey(fn), p.FnPos(fn),
					fmt.Sprintf("crypto codes rejected for %s equal the prohibited set on all 65,536 codes", sp.name),
					"rejects "+v.rejC.String(), "specification "+sp.crypt.String(),
					"missing "+sp.crypt.Minus(v.rejC).String(), "wrongly rejected "+v.rejC.Minus(sp.crypt).String())
			}
		}
	}
	for i := range idSpecs {
		sp := &idSpecs[i]
		r.Check(len(full[sp.name]) > 0, "C09.K2", sp.name+"/full-validator-exists", "-",
			fmt.Sprintf("some function f(*KeysAndCert) error rejects every prohibited signing and crypto code for %s", sp.name))
	}
	r.Analysed["K2_validator_sides"] = nK2

	// K1
	sites := 0
	for _, fn := range p.RepoFns {
		if len(fn.Blocks) == 0 {
			continue
		}
		for _, b := range fn.Blocks {
			for _, in := range b.Instrs {
				switch x := in.(type) {
				case *ssa.Store:
					fa, ok := x.Addr.(*ssa.FieldAddr)
					if !ok {
						continue
					}
					sp := idSpecOf(fa.X.Type())
					if sp == nil || an.IsNilConst(x.Val) {
						continue
					}
					sites++
					c09Site(p, r, flow, vals, sp, fn, x, x.Val)
				case *ssa.ChangeType:
					sp := idSpecOf(x.Type())
					if sp == nil || idSpecOf(x.X.Type()) == sp {
						continue
					}
					sites++
					src := idSpecOf(x.X.Type())
					ok := src != nil && sp.signing.SubsetOf(src.signing) && sp.crypt.SubsetOf(src.crypt)
					r.Check(ok, "C09.K1", an.FnKey(fn)+"/convert-to-"+sp.name, p.Pos(x.Pos()),
						"conversion into an identity type from a type whose prohibited sets cover it")
				}
			}
		}
	}
	r.Floor("identity_construction_sites", sites, 5)
}

// kacOrigin strips loads of the field just stored.
func sameKAC(arg, v ssa.Value, site *ssa.Store) bool {
	return an.Canon(arg) == an.Canon(v)
}

func c09Site(p *an.Prog, r *an.Report, flow *an.Flow, vals map[*ssa.Function]*kacValidator, sp *idSpec, fn *ssa.Function, site *ssa.Store, v ssa.Value) {
	key := an.FnKey(fn) + "/construct-" + sp.name
	pos := p.Pos(site.Pos())
	// (a) derivation from an existing identity value
	if src, how := derivedFromIdentity(v, 0); src != nil {
		ok := sp.signing.SubsetOf(src.signing) && sp.crypt.SubsetOf(src.crypt)
		r.Check(ok, "C09.K1", key, pos,
			fmt.Sprintf("%s built from the key certificate of an existing %s; the source type's prohibited sets must cover the target's", sp.name, src.name),
			how, fmt.Sprintf("source signing %s crypto %s; target signing %s crypto %s", src.signing, src.crypt, sp.signing, sp.crypt))
		return
	}
	// (b) guarded by a checked validator on the same value
	cut := map[an.Edge]bool{}
	var guards []string
	var weak []string
	for _, b := range fn.Blocks {
		for _, in := range b.Instrs {
			call, ok := in.(*ssa.Call)
			if !ok {
				continue
			}
			callee := call.Call.StaticCallee()
			if callee == nil {
				continue
			}
			val := vals[callee]
			if val == nil || len(call.Call.Args) != 1 || !sameKAC(call.Call.Args[0], v, site) {
				continue
			}
			if val.err != nil {
				weak = append(weak, fmt.Sprintf("%s: could not be evaluated (%v)", an.FnKey(callee), val.err))
				continue
			}
			if !(sp.signing.SubsetOf(val.rejS) && sp.crypt.SubsetOf(val.rejC)) {
				weak = append(weak, fmt.Sprintf("%s rejects signing %s crypto %s — does not cover %s", an.FnKey(callee), val.rejS, val.rejC, sp.name))
				continue
			}
			nilEdges, _ := an.CheckedNilEdges(call)
			if len(nilEdges) == 0 {
				weak = append(weak, fmt.Sprintf("%s called at %s but its error is not tested", an.FnKey(callee), p.Pos(call.Pos())))
				continue
			}
			// passing the validator = taking a nil edge; cut all *other* ways past the call: model by
			// cutting the error edges and requiring paths to cross the call block.
			_, errEdges := an.CheckedNilEdges(call)
			for _, e := range errEdges {
				cut[e] = true
			}
			guards = append(guards, fmt.Sprintf("%s at %s", an.FnKey(callee), p.Pos(call.Pos())))
			_ = nilEdges
		}
	}
	// A path entry -> site -> ok-return is guarded when it crosses a guard call block and leaves it by
	// the nil edge. With the error edges of all guards cut, the remaining question is whether some
	// path through the site reaches an ok-return without passing any guard call block at all.
	guardBlocks := map[*ssa.BasicBlock]bool{}
	guardIdx := map[*ssa.BasicBlock]int{}
	for _, b := range fn.Blocks {
		for i, in := range b.Instrs {
			call, ok := in.(*ssa.Call)
			if !ok {
				continue
			}
			callee := call.Call.StaticCallee()
			if callee == nil || vals[callee] == nil || vals[callee].err != nil || len(call.Call.Args) != 1 || !sameKAC(call.Call.Args[0], v, site) {
				continue
			}
			val := vals[callee]
			if sp.signing.SubsetOf(val.rejS) && sp.crypt.SubsetOf(val.rejC) {
				if ne, _ := an.CheckedNilEdges(call); len(ne) > 0 {
					guardBlocks[b] = true
					guardIdx[b] = i
				}
			}
		}
	}
	okRets := flow.OkReturns(fn)
	siteBlock := site.Block()
	siteIdx := an.InstrIndex(site)
	// does the site's own block contain a guard before/after the site? then every path through the
	// site passes that guard call; what remains is that its error edge is cut (it is).
	guardedInBlock := guardBlocks[siteBlock]
	_ = siteIdx
	violated := false
	var witness string
	if !guardedInBlock {
		entry := fn.Blocks[0]
		// prefix avoiding guard blocks
		prefixFree := an.ReachAvoiding(entry, siteBlock, cut, guardBlocks)
		if prefixFree {
			for _, ret := range okRets {
				if an.ReachAvoiding(siteBlock, ret.Block(), cut, guardBlocks) {
					violated = true
					witness = fmt.Sprintf("path entry → %s → return at %s passes no checked key-type validator", pos, p.Pos(ret.Pos()))
					break
				}
			}
		}
	}
	// additionally, with guards present, the error edge of a guard must not reach an ok-return that
	// hands out the value: covered by cutting error edges only if those edges really lead to error
	// returns; verify.
	for e := range cut {
		for _, ret := range okRets {
			if an.ReachAvoiding(e.To, ret.Block(), nil, nil) && flow.ClassAt(retErr(ret), ret.Block()) != an.DefNonNil {
				// reaching an ok-return from the error edge is only harmless when that return
				// does not carry the constructed value; accept the zero-value idiom
				if !returnsZeroIdentity(ret, sp) {
					violated = true
					witness = fmt.Sprintf("validator failure edge at %s reaches the success return at %s", p.Pos(e.From.Instrs[len(e.From.Instrs)-1].Pos()), p.Pos(ret.Pos()))
				}
			}
		}
	}
	facts := append([]string{}, guards...)
	facts = append(facts, weak...)
	if witness != "" {
		facts = append(facts, witness)
	}
	if len(okRets) == 0 {
		facts = append(facts, "function has no success return")
	}
	what := fmt.Sprintf("%s constructed from a *KeysAndCert that passed a checked key-type validator on every success path", sp.name)
	if violated {
		what = fmt.Sprintf("%s constructed without a checked key-type validator for %s on some success path", sp.name, sp.name)
	}
	r.Check(!violated, "C09.K1", key, pos, what, facts...)
}

func retErr(ret *ssa.Return) ssa.Value {
	i := an.ErrIndex(ret.Parent())
	if i < 0 || i >= len(ret.Results) {
		return nil
	}
	return ret.Results[i]
}

// returnsZeroIdentity: the identity-typed result of this return is the zero value / nil.
func returnsZeroIdentity(ret *ssa.Return, sp *idSpec) bool {
	for _, v := range ret.Results {
		if idSpecOf(v.Type()) == nil {
			continue
		}
		switch x := v.(type) {
		case *ssa.Const:
			if x.Value == nil {
				continue
			}
		}
		return false
	}
	return true
}

// derivedFromIdentity recognises a *KeysAndCert whose key certificate is that of an existing
// identity value: (i) a fresh copy of X.KeysAndCert, (ii) NewKeysAndCert(X.KeyCertificate, ...).
func derivedFromIdentity(v ssa.Value, depth int) (*idSpec, string) {
	if depth > 4 {
		return nil, ""
	}
	switch x := v.(type) {
	case *ssa.Alloc:
		// &copy where copy := *X.KeysAndCert
		var src ssa.Value
		n := 0
		for _, ref := range *x.Referrers() {
			if st, ok := ref.(*ssa.Store); ok && st.Addr == ssa.Value(x) {
				n++
				src = st.Val
			}
		}
		if n == 1 {
			if u, ok := src.(*ssa.UnOp); ok && u.Op == token.MUL {
				if sp := identityField(u.X, "KeysAndCert"); sp != nil {
					return sp, "copy of the KeysAndCert of an existing " + sp.name
				}
			}
		}
	case *ssa.Extract:
		if call, ok := x.Tuple.(*ssa.Call); ok && x.Index == 0 {
			callee := call.Call.StaticCallee()
			if callee != nil && callee.Name() == "NewKeysAndCert" && an.FnPkgPath(callee) == an.ModPath+"/keys_and_cert" && len(call.Call.Args) > 0 {
				if sp := identityField(call.Call.Args[0], "KeyCertificate"); sp != nil {
					return sp, "NewKeysAndCert over the KeyCertificate of an existing " + sp.name
				}
			}
		}
	}
	return nil, ""
}

// identityField: v is (a load of) field `field` reached from a value of an identity type through
// its embedded KeysAndCert.
func identityField(v ssa.Value, field string) *idSpec {
	for i := 0; i < 8; i++ {
		switch x := v.(type) {
		case *ssa.UnOp:
			if x.Op != token.MUL {
				return nil
			}
			v = x.X
		case *ssa.FieldAddr:
			if sp := idSpecOf(x.X.Type()); sp != nil {
				return sp
			}
			v = x.X
		case *ssa.Field:
			if sp := idSpecOf(x.X.Type()); sp != nil {
				return sp
			}
			v = x.X
		default:
			return nil
		}
	}
	return nil
}
