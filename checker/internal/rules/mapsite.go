package rules

import (
	"fmt"
	"go/constant"
	"go/token"
	"sort"
	"strings"

	"golang.org/x/tools/go/ssa"

	"verif/checker/internal/an"
)

func isMappingReader(f *ssa.Function) bool {
	return f != nil && an.FnPkgPath(f) == an.ModPath+"/data" && (f.Name() == "NewMapping" || f.Name() == "ReadMapping")
}

// benignMappingMessages: message constants of the warnings the mapping reader emits when the
// input continues past the declared mapping size (if len(x) > declared { errs = append(errs, Errorf(msg)) }).
func benignMappingMessages(p *an.Prog) []string {
	root := p.Func("data.ReadMapping")
	if root == nil {
		return nil
	}
	set := map[string]bool{}
	for f := range libClosure(p, root) {
		for _, b := range f.Blocks {
			iff, ok := b.Instrs[len(b.Instrs)-1].(*ssa.If)
			if !ok {
				continue
			}
			bo, ok := iff.Cond.(*ssa.BinOp)
			if !ok || bo.Op != token.GTR {
				continue
			}
			if c, ok := bo.X.(*ssa.Call); !ok || !isBuiltin(c, "len") {
				// also accept a local that holds len(...)
				if !derivesFromLen(bo.X) {
					continue
				}
			}
			// Errorf constants in blocks dominated by the true successor
			for _, blk := range f.Blocks {
				if !b.Succs[0].Dominates(blk) {
					continue
				}
				for _, in := range blk.Instrs {
					c, ok := in.(*ssa.Call)
					if !ok || !an.ErrorCtor(c.Call.StaticCallee()) || len(c.Call.Args) == 0 {
						continue
					}
					if k, ok := c.Call.Args[0].(*ssa.Const); ok && k.Value != nil && k.Value.Kind() == constant.String {
						set[constant.StringVal(k.Value)] = true
					}
				}
			}
		}
	}
	var out []string
	for s := range set {
		out = append(out, s)
	}
	sort.Strings(out)
	return out
}

// allMappingMessages: every constant error message the mapping reader's closure can produce.
func allMappingMessages(p *an.Prog) []string {
	root := p.Func("data.ReadMapping")
	if root == nil {
		return nil
	}
	set := map[string]bool{}
	for f := range libClosure(p, root) {
		for _, b := range f.Blocks {
			for _, in := range b.Instrs {
				c, ok := in.(*ssa.Call)
				if !ok || !an.ErrorCtor(c.Call.StaticCallee()) || len(c.Call.Args) == 0 {
					continue
				}
				if k, ok := c.Call.Args[0].(*ssa.Const); ok && k.Value != nil && k.Value.Kind() == constant.String {
					set[constant.StringVal(k.Value)] = true
				}
			}
		}
	}
	var out []string
	for s := range set {
		out = append(out, s)
	}
	sort.Strings(out)
	return out
}

func derivesFromLen(v ssa.Value) bool {
	switch x := v.(type) {
	case *ssa.Call:
		return isBuiltin(x, "len")
	case *ssa.Convert:
		return derivesFromLen(x.X)
	}
	return false
}

// mappingSiteRule evaluates every function outside package data that reads an embedded mapping
// under three assumptions about the reader's error list.
func mappingSiteRule(p *an.Prog, r *an.Report, rule string) int {
	benign := benignMappingMessages(p)
	r.Analysed["benign_mapping_warning_messages"] = benign
	isBenign := map[string]bool{}
	for _, b := range benign {
		isBenign[b] = true
	}
	var others []string
	for _, m := range allMappingMessages(p) {
		if !isBenign[m] {
			others = append(others, m)
		}
	}
	r.Analysed["other_mapping_error_messages"] = len(others)
	flow := an.NewFlow(p)
	nsites := 0
	for _, fn := range p.RepoFns {
		if an.FnPkgPath(fn) == an.ModPath+"/data" || len(fn.Blocks) == 0 {
			continue
		}
		sites := findCalls(fn, func(c ssa.CallInstruction) bool { return isMappingReader(c.Common().StaticCallee()) })
		if len(sites) == 0 {
			continue
		}
		nsites++
		key := an.FnKey(fn)
		pos := p.Pos(sites[0].Pos())
		ei := an.ErrIndex(fn)
		if ei < 0 {
			r.Ob(rule, key+"/mapping-errors", pos, an.Violated, "reads an embedded mapping but has no error result to report its failures")
			continue
		}
		var filters []string
		run := func(nerrs int64, benignOnly bool) ([]an.Outcome, error) {
			ev := &an.PEval{P: p, Domain: an.IvPoint(nerrs), MaxPaths: 20000, MaxSteps: 600000, LoopOK: true, MaxDepth: 6, Unroll: 3,
				Inline: func(f *ssa.Function) bool {
					return an.InLib(f) && len(f.Blocks) > 0 && an.FnPkgPath(f) == an.FnPkgPath(fn) && !isMappingReader(f)
				},
				Select: func(ev *an.PEval, v ssa.Value, args []an.AV) bool {
					c, ok := v.(*ssa.Call)
					return ok && isBuiltin(c, "len") && len(args) == 1 && args[0].Tag == "errs"
				},
				OnCall: func(ev *an.PEval, call *ssa.Call, callee *ssa.Function, args []an.AV) (an.AV, bool) {
					if isMappingReader(callee) {
						m := an.AV{}
						if flow.AlwaysNonNil(callee, 0) {
							m = an.AV{K: an.KNonNil, Tag: "mapping"}
						}
						return an.AV{K: an.KTuple, Elems: []an.AV{m, {}, {K: an.KNonNil, Tag: "errs"}}}, true
					}
					if isFn(callee, "strings", "Contains") && len(args) == 2 && args[1].K == an.KStr {
						filters = append(filters, args[1].S)
						return an.AV{K: an.KBool, B: benignOnly}, true
					}
					return an.AV{}, false
				}}
			return ev.Run(fn, rootArgs(fn))
		}
		succeeds := func(outs []an.Outcome) (n int) {
			for _, o := range outs {
				if !o.Panic && o.ErrIs(ei) != 2 {
					n++
				}
			}
			return
		}
		o0, e0 := run(0, true)
		o1, e1 := run(1, true)
		o2, e2 := run(1, false)
		if e0 != nil || e1 != nil || e2 != nil {
			r.Ob(rule, key+"/mapping-errors", pos, an.Undecided, fmt.Sprintf("could not be evaluated: %v %v %v", e0, e1, e2))
			continue
		}
		r.Check(succeeds(o0) > 0, rule, key+"/no-errors-succeeds", pos, "succeeds when the mapping reader reports no errors", fmt.Sprintf("%d of %d paths succeed", succeeds(o0), len(o0)))
		what := "the 'data exists beyond length of mapping' warning, which every embedded mapping followed by more bytes produces, does not fail the parse"
		if succeeds(o1) == 0 {
			what = "the benign 'data exists beyond length of mapping' warning is treated as fatal: every embedded non-empty mapping that is followed by more bytes is rejected"
		}
		r.Check(succeeds(o1) > 0, rule, key+"/benign-warning-passes", pos, what, fmt.Sprintf("%d of %d paths succeed", succeeds(o1), len(o1)))
		what = "any other mapping error fails the parse"
		if succeeds(o2) > 0 {
			what = "a mapping error other than the benign warning does not fail the parse (errors of the mapping reader are dropped)"
		}
		r.Check(succeeds(o2) == 0, rule, key+"/other-errors-fail", pos, what, fmt.Sprintf("%d of %d paths succeed", succeeds(o2), len(o2)))
		// the filter's substring must occur in a message the reader really produces
		uniq := map[string]bool{}
		for _, f := range filters {
			uniq[f] = true
		}
		var bad []string
		for f := range uniq {
			ok := false
			for _, b := range benign {
				if strings.Contains(b, f) {
					ok = true
				}
			}
			if !ok {
				bad = append(bad, fmt.Sprintf("filter substring %q occurs in none of the reader's warning messages %q", f, benign))
			}
			for _, m := range others {
				if strings.Contains(m, f) {
					bad = append(bad, fmt.Sprintf("filter substring %q also matches the genuine error %q, which would then be ignored", f, m))
				}
			}
		}
		if len(uniq) > 0 {
			r.Check(len(bad) == 0, rule, key+"/filter-matches-message", pos, "the substring the site's filter tests occurs in the reader's trailing-data warning and in none of its other error messages", bad...)
		}
	}
	return nsites
}
