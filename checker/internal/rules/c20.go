package rules

import (
	"fmt"
	"os"
	"time"
	"go/token"
	"go/types"
	"sort"
	"strings"

	"golang.org/x/tools/go/ssa"

	"verif/checker/internal/an"
)

func init() { Registry["C20"] = C20 }

type c20Trap struct {
	pos, what, fn string
}

// c20Run evaluates method fn on the given receiver value and returns the traps hit and outcomes.
func c20Run(p *an.Prog, fn *ssa.Function, recv an.AV, store []an.AV) ([]c20Trap, []an.Outcome, error) {
	var traps []c20Trap
	seen := map[string]bool{}
	ev := &an.PEval{P: p, MaxPaths: 20000, MaxSteps: 400000, LoopOK: true, MaxDepth: 14, InitStore: store, NoInlineInHavoc: true,
		// a callee is explored only when some argument carries tracked state (a definite nil, or an
		// object whose fields are known); with only unknown arguments nothing definite can be found in it
		InlineIf: func(callee *ssa.Function, args []an.AV) bool {
			for _, a := range args {
				if interestingAV(a, 0) {
					return true
				}
			}
			return false
		},
		Trap: func(in ssa.Instruction, what string, trail []string) {
			k := p.Pos(in.Pos()) + what
			if !seen[k] {
				seen[k] = true
				traps = append(traps, c20Trap{p.Pos(in.Pos()), what, an.FnKey(in.Parent())})
			}
		}}
	args := make([]an.AV, len(fn.Params))
	if len(args) > 0 {
		args[0] = recv
	}
	t0 := time.Now()
	outs, err := ev.Run(fn, args)
	if d := time.Since(t0); d > 500*time.Millisecond && os.Getenv("C20DEBUG") != "" {
		fmt.Fprintf(os.Stderr, "SLOW %s %v paths=%d err=%v\n", an.FnKey(fn), d, len(outs), err)
	}
	return traps, outs, err
}

// shapeAV builds a struct value whose first k fields are "set" (non-nil / unknown) and the rest zero.
func shapeAV(st *types.Struct, k int) an.AV {
	el := make([]an.AV, st.NumFields())
	for i := range el {
		ft := st.Field(i).Type()
		if i >= k {
			el[i] = an.ZeroAV(ft)
			continue
		}
		switch ft.Underlying().(type) {
		case *types.Pointer, *types.Slice, *types.Map, *types.Interface, *types.Signature, *types.Chan:
			el[i] = an.AV{K: an.KNonNil}
		default:
			el[i] = an.AV{}
		}
	}
	return an.AV{K: an.KStruct, Elems: el}
}

func C20(p *an.Prog, r *an.Report) {
	r.Explanation = "Nil-state abstract interpretation: every exported argument-free method (declared or promoted) of every exported named type of the library is evaluated path-sensitively on the type's zero value (value receiver: the zero struct; pointer receiver: a pointer to it), with library callees explored in place, known-zero lengths and nil-ness folded through every branch, and unknown conditions followed both ways. Any instruction that must panic on an explored path — dereference of a nil pointer, field access through nil, index or non-empty slice of an empty slice, write to a nil map, method call on a nil interface, type assertion on nil, explicit panic — is reported with the path. The same evaluation is repeated on prefix shapes of each wire structure (first k fields set to non-nil unknowns, the rest zero), the values a parser hands back together with an error when it stops after k fields. Verify*/VerifySignature methods must not report success on the zero value. Enumeration is exhaustive over (type, method) pairs and shapes; methods with parameters and behaviour of dependencies on nil are not covered. Z4: pointer slices returned early from their fill loop are append-built (never preallocated with nil elements)."
	r.Rule = "one obligation per (type, method) on the zero value, one per (type, method, prefix length) for wire structures; non-trivial = the method has a body with at least one branch or call"
	r.Trusted = []string{"go/ssa; external calls return unknown (never reported) values"}
	r.Exhaustive = true
	defer c20Prealloc(p, r)
	// Z5: methods never index or slice out of range whatever the receiver holds (bounds proof of C04
	// restricted to methods of library types): covers partially filled values with non-zero length fields
	defer boundsFor(p, r, "C20.Z5", 50, func(f *ssa.Function) bool { return f.Signature.Recv() != nil })

	type tm struct {
		T     *types.Named
		ptr   bool
		fn    *ssa.Function
		name  string
		promo bool
	}
	var pairs []tm
	ntypes := 0
	parsed := map[string]bool{} // types that an exported []byte reader returns
	for _, fn := range p.ExportedAPI() {
		if fn.Signature.Recv() == nil && len(fn.Params) > 0 && fn.Params[0].Type().String() == "[]byte" && fn.Signature.Results().Len() > 0 {
			if pk, n := an.NamedOf(fn.Signature.Results().At(0).Type()); an.IsLibPath(pk) {
				parsed[pk+"."+n] = true
			}
		}
	}
	for _, pk := range p.LibPkgs {
		scope := pk.Types.Scope()
		for _, name := range scope.Names() {
			tn, ok := scope.Lookup(name).(*types.TypeName)
			if !ok || !tn.Exported() || tn.IsAlias() {
				continue
			}
			named, ok := tn.Type().(*types.Named)
			if !ok {
				continue
			}
			if _, isIface := named.Underlying().(*types.Interface); isIface {
				continue
			}
			hadMethod := false
			seen := map[string]bool{}
			for _, ptr := range []bool{false, true} {
				var T types.Type = named
				if ptr {
					T = types.NewPointer(named)
				}
				ms := p.SSA.MethodSets.MethodSet(T)
				for i := 0; i < ms.Len(); i++ {
					sel := ms.At(i)
					m := sel.Obj().(*types.Func)
					if !m.Exported() || seen[m.Name()] {
						continue
					}
					sig := m.Type().(*types.Signature)
					if sig.Params().Len() != 0 {
						continue
					}
					fn := p.SSA.MethodValue(sel)
					if fn == nil || len(fn.Blocks) == 0 {
						continue
					}
					seen[m.Name()] = true
					hadMethod = true
					pairs = append(pairs, tm{named, ptr, fn, m.Name(), len(sel.Index()) > 1})
				}
			}
			if hadMethod {
				ntypes++
			}
		}
	}
	r.Analysed["exported_types_with_methods"] = ntypes
	r.Floor("type_method_pairs", len(pairs), 200)
	npromo, nshapes := 0, 0
	shapesByType := c20Shapes(p, r)
	for _, pr := range pairs {
		if pr.promo {
			npromo++
		}
		tkey := an.ShortPkg(pr.T.Obj().Pkg().Path()) + "." + pr.T.Obj().Name()
		recvIsPtr := false
		if len(pr.fn.Params) > 0 {
			_, recvIsPtr = pr.fn.Params[0].Type().Underlying().(*types.Pointer)
		}
		mk := func(val an.AV) (an.AV, []an.AV) {
			if recvIsPtr {
				return an.PtrToCell(0), []an.AV{val}
			}
			return val, nil
		}
		// Z1 zero value
		recv, store := mk(an.ZeroAV(pr.T))
		traps, outs, err := c20Run(p, pr.fn, recv, store)
		key := tkey + "." + pr.name
		pos := p.FnPos(pr.fn)
		if err != nil {
			r.Ob("C20.Z1", key, pos, an.Undecided, "evaluation on the zero value did not complete: "+err.Error())
		} else {
			var facts []string
			for _, t := range traps {
				facts = append(facts, fmt.Sprintf("%s at %s in %s", t.what, t.pos, t.fn))
			}
			sort.Strings(facts)
			what := "returns normally on the zero value on every explored path"
			if len(traps) > 0 {
				what = "panics on the zero value"
			}
			o := r.Check(len(traps) == 0, "C20.Z1", key, pos, what, append(facts, fmt.Sprintf("%d paths", len(outs)))...)
			o.Nontrivial = len(pr.fn.Blocks) > 1 || hasCall(pr.fn)
			// Z3
			if strings.HasPrefix(pr.name, "Verify") {
				succ := 0
				for _, o := range outs {
					if verifySuccess(pr.fn, o) {
						succ++
					}
				}
				r.Check(succ == 0, "C20.Z3", key, pos, "verification of the zero value never reports success", fmt.Sprintf("%d of %d paths report success", succ, len(outs)))
			}
		}
		// Z2: shapes a parser of this type can return together with an error
		shapes := shapesByType[pr.T.Obj().Pkg().Path()+"."+pr.T.Obj().Name()]
		if len(shapes) == 0 {
			continue
		}
		var facts []string
		bad := false
		for _, sh := range shapes {
			nshapes++
			store := append([]an.AV(nil), sh.store...)
			recv := sh.val
			if recvIsPtr {
				store = append(store, sh.val)
				recv = an.PtrToCell(len(store) - 1)
			}
			traps, _, err := c20Run(p, pr.fn, recv, store)
			if err != nil {
				facts = append(facts, fmt.Sprintf("shape %s from %s: evaluation did not complete (%v)", sh.sig, sh.from, err))
				bad = true
				continue
			}
			for _, t := range traps {
				bad = true
				facts = append(facts, fmt.Sprintf("on the value %s returns with an error (%s): %s at %s in %s", sh.from, sh.sig, t.what, t.pos, t.fn))
			}
		}
		sort.Strings(facts)
		what := fmt.Sprintf("returns normally on each of the %d partially filled values its parsers can return together with an error", len(shapes))
		if bad {
			what = "panics on a partially filled value that a parser returns together with an error"
		}
		r.Check(!bad, "C20.Z2", key, pos, what, facts...)
	}
	r.Analysed["promoted_method_pairs"] = npromo
	r.Analysed["partial_shapes_evaluated"] = nshapes
	_ = token.NoPos
}

func hasCall(fn *ssa.Function) bool {
	for _, b := range fn.Blocks {
		for _, in := range b.Instrs {
			if _, ok := in.(ssa.CallInstruction); ok {
				return true
			}
		}
	}
	return false
}

func interestingAV(a an.AV, d int) bool {
	if d > 3 {
		return false
	}
	switch a.K {
	case an.KNil, an.KPtr:
		return true
	case an.KStruct, an.KTuple:
		for _, e := range a.Elems {
			if interestingAV(e, d+1) {
				return true
			}
		}
	}
	return false
}

type c20Shape struct {
	val   an.AV
	store []an.AV
	sig   string
	from  string
}

// shapeSig renders the nil pattern of a struct value.
func shapeSig(a an.AV, t types.Type, store []an.AV, d int) string {
	st, ok := an.Deref(t).Underlying().(*types.Struct)
	if a.K == an.KPtr {
		if v, ok2 := an.LoadCell(store, a); ok2 {
			return "&" + shapeSig(v, an.Deref(t), store, d)
		}
		return "ptr"
	}
	if a.K != an.KStruct || !ok || d > 1 {
		switch a.K {
		case an.KNil:
			return "nil"
		case an.KNonNil, an.KMap, an.KFunc:
			return "set"
		case an.KInt, an.KBool, an.KStr:
			return "zero?"
		}
		return "?"
	}
	var parts []string
	for i, e := range a.Elems {
		if i < st.NumFields() {
			parts = append(parts, st.Field(i).Name()+":"+shapeSig(e, st.Field(i).Type(), store, d+1))
		}
	}
	return "{" + strings.Join(parts, " ") + "}"
}

// c20Shapes explores every exported parser with an unknown input and collects the distinct
// abstract values it returns together with a non-nil error.
func c20Shapes(p *an.Prog, r *an.Report) map[string][]c20Shape {
	out := map[string][]c20Shape{}
	nparsers := 0
	for _, fn := range p.ExportedAPI() {
		if fn.Signature.Recv() != nil || fn.Synthetic != "" || len(fn.Params) == 0 || fn.Params[0].Type().String() != "[]byte" || len(fn.Blocks) == 0 {
			continue
		}
		res := fn.Signature.Results()
		if res.Len() < 2 {
			continue
		}
		pk, tn := an.NamedOf(res.At(0).Type())
		if !an.IsLibPath(pk) {
			continue
		}
		if _, isStruct := an.Deref(res.At(0).Type()).Underlying().(*types.Struct); !isStruct {
			continue
		}
		ei := res.Len() - 1
		nparsers++
		ev := &an.PEval{P: p, MaxPaths: 20000, MaxSteps: 1500000, LoopOK: true, MaxDepth: 10, NoInlineInHavoc: true,
			InlineIf: func(callee *ssa.Function, args []an.AV) bool {
				for _, a := range args {
					if interestingAV(a, 0) {
						return true
					}
				}
				// helpers of the parser's own package that build library objects are explored;
				// sub-structure parsers of other packages and scalar/[]byte/error helpers are opaque
				if an.FnPkgPath(callee) != an.FnPkgPath(fn) {
					return false
				}
				cr := callee.Signature.Results()
				for i := 0; i < cr.Len(); i++ {
					if q, _ := an.NamedOf(cr.At(i).Type()); an.IsLibPath(q) {
						if _, isS := an.Deref(cr.At(i).Type()).Underlying().(*types.Struct); isS {
							return true
						}
					}
				}
				return false
			}}
		args := make([]an.AV, len(fn.Params))
		outs, err := ev.Run(fn, args)
		if err != nil {
			r.Analysed["shape_extraction_incomplete/"+an.FnKey(fn)] = err.Error()
			continue
		}
		key := pk + "." + tn
		seen := map[string]bool{}
		for _, sh := range out[key] {
			seen[sh.sig] = true
		}
		for _, o := range outs {
			if o.Panic || ei >= len(o.Results) || o.Results[ei].K == an.KNil {
				continue
			}
			if o.Results[ei].K != an.KNonNil {
				continue // error not known to be set on this path
			}
			v := o.Results[0]
			val := v
			if v.K == an.KPtr {
				lv, ok := an.LoadCell(o.Store, v)
				if !ok {
					continue
				}
				val = lv
			}
			if val.K != an.KStruct {
				continue
			}
			sig := shapeSig(val, an.Deref(res.At(0).Type()), o.Store, 0)
			if seen[sig] || !strings.Contains(sig, "nil") || len(out[key]) >= capFor(48, 2000) {
				continue
			}
			seen[sig] = true
			out[key] = append(out[key], c20Shape{val: val, store: o.Store, sig: sig, from: an.FnKey(fn)})
		}
	}
	r.Analysed["parsers_explored_for_partial_values"] = nparsers
	n := 0
	for _, v := range out {
		n += len(v)
	}
	r.Analysed["distinct_partial_shapes"] = n
	return out
}

// c20Prealloc (Z4): a slice of pointers that a parser returns together with an error must not
// contain nil elements its own accessors would dereference. A slice grown with append only ever
// holds the elements parsed so far; a slice preallocated with make([]*T, n) and filled by index
// holds nil for every element after the failing one. The rule finds returns that sit inside the
// loop filling a locally built pointer slice and requires that slice to be append-built.
func c20Prealloc(p *an.Prog, r *an.Report) {
	seen, bad := 0, []string{}
	for _, fn := range p.RepoFns {
		if !an.InLib(fn) || len(fn.Blocks) == 0 {
			continue
		}
		for _, li := range naturalLoops(fn) {
			for _, blk := range fn.Blocks {
				ret, ok := blk.Instrs[len(blk.Instrs)-1].(*ssa.Return)
				if !ok || li.body[blk] || !li.header.Dominates(blk) {
					continue
				}
				// an early exit: reached from inside the loop body (not from the loop condition in the header)
				early := false
				work := []*ssa.BasicBlock{blk}
				visitedB := map[*ssa.BasicBlock]bool{}
				for len(work) > 0 && !early {
					x := work[len(work)-1]
					work = work[:len(work)-1]
					if visitedB[x] {
						continue
					}
					visitedB[x] = true
					for _, pr := range x.Preds {
						if li.body[pr] {
							if pr != li.header {
								early = true
							}
							continue
						}
						work = append(work, pr)
					}
				}
				if !early {
					continue
				}
				for _, res := range ret.Results {
					sl, ok := res.Type().Underlying().(*types.Slice)
					if !ok {
						continue
					}
					switch sl.Elem().Underlying().(type) {
					case *types.Pointer, *types.Interface:
					default:
						continue
					}
					// origins of the returned slice inside this function
					var makes []*ssa.MakeSlice
					appendBuilt := false
					var walk func(v ssa.Value, d int)
					visited := map[ssa.Value]bool{}
					walk = func(v ssa.Value, d int) {
						if d > 8 || visited[v] {
							return
						}
						visited[v] = true
						switch x := v.(type) {
						case *ssa.MakeSlice:
							makes = append(makes, x)
						case *ssa.Phi:
							for _, e := range x.Edges {
								walk(e, d+1)
							}
						case *ssa.Call:
							if isBuiltin(x, "append") {
								appendBuilt = true
								walk(x.Call.Args[0], d+1)
							}
						case *ssa.Slice:
							walk(x.X, d+1)
						}
					}
					walk(res, 0)
					if len(makes) == 0 && !appendBuilt {
						continue
					}
					seen++
					for _, mk := range makes {
						if c, isC := mk.Len.(*ssa.Const); isC && c.Value != nil && c.Int64() == 0 {
							continue
						}
						bad = append(bad, fmt.Sprintf("%s returns at %s, from inside the loop that fills it, a pointer slice preallocated at %s: elements not yet parsed are nil and the value's accessors dereference them", an.FnKey(fn), p.Pos(ret.Pos()), p.Pos(mk.Pos())))
					}
				}
			}
		}
	}
	r.Analysed["returns of a locally built pointer slice from inside its fill loop"] = seen
	r.Check(len(bad) == 0 && seen > 0, "C20.Z4", "parsers/partial-pointer-slices", "", fmt.Sprintf("pointer slices returned early from their fill loop (%d sites) are append-built, so they hold no nil elements", seen), bad...)
}
