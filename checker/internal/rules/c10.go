package rules

import (
	"go/token"
	"os"
	"fmt"
	"go/types"
	"sort"
	"strings"

	"golang.org/x/tools/go/ssa"

	"verif/checker/internal/an"
)

func init() { Registry["C10"] = C10 }

// sizeLookup is one discovered code -> size mapping (a table column, or a function result as a
// function of one code-valued input).
type sizeLookup struct {
	Name   string
	Pos    string
	Domain an.IvSet
	Pieces []lkPiece
	Err    string
	Class  string // "sig", "spk", "cpk" or ""
	Score  float64
}

type lkPiece struct {
	Iv    an.Iv
	Known bool
	Val   int64
	Amb   string // non-empty when the piece has no single constant value
}

func (l *sizeLookup) at(code int64) (lkPiece, bool) {
	for _, p := range l.Pieces {
		if code >= p.Iv.Lo && code <= p.Iv.Hi {
			return p, true
		}
	}
	return lkPiece{}, false
}

func (l *sizeLookup) knownSet() an.IvSet {
	var s an.IvSet
	for _, p := range l.Pieces {
		if p.Known {
			s = append(s, p.Iv)
		}
	}
	return s.Union(nil)
}

func (l *sizeLookup) String() string {
	var parts []string
	for _, p := range l.Pieces {
		if !p.Known {
			continue
		}
		v := fmt.Sprint(p.Val)
		if p.Amb != "" {
			v = "?" + p.Amb
		}
		parts = append(parts, an.IvSet{p.Iv}.String()+"→"+v)
	}
	return strings.Join(parts, " ")
}

func specFn(class string) map[int64]int64 {
	m := map[int64]int64{}
	switch class {
	case "sig":
		for k, v := range SpecSigning {
			m[k] = v.Sig
		}
	case "spk":
		for k, v := range SpecSigning {
			m[k] = v.Pub
		}
	case "cpk":
		for k, v := range SpecCrypto {
			m[k] = v
		}
	case "sprv":
		return SpecSigningPrivate
	case "cprv":
		return SpecCryptoPrivate
	}
	return m
}

// classify scores a lookup against the three spec columns.
func (l *sizeLookup) classify() {
	// a result that is the same set of possible values for every code does not depend on this
	// parameter at all (it is computed from something else): not a lookup on it
	{
		desc := map[string]bool{}
		known, amb := 0, 0
		for _, p := range l.Pieces {
			if !p.Known {
				continue
			}
			known++
			if p.Amb != "" {
				amb++
				desc["amb:"+p.Amb] = true
			} else {
				desc[fmt.Sprint("val:", p.Val)] = true
			}
		}
		if known >= 2 && amb == known && len(desc) == 1 {
			l.Class, l.Score = "", 0
			return
		}
	}
	best, second := 0.0, 0.0
	for _, c := range []string{"sig", "spk", "cpk", "sprv", "cprv"} {
		spec := specFn(c)
		hit := 0
		for k, v := range spec {
			// for classification an ambiguous piece counts when the column's value is among its
			// possible values (the ambiguity itself is reported by T1)
			if p, ok := l.at(k); ok && p.Known && (p.Amb == "" && p.Val == v || p.Amb != "" && strings.Contains("|"+p.Amb+"|", "|"+fmt.Sprint(v)+"|")) {
				hit++
			}
		}
		// penalise known codes outside the spec column
		extra := 0
		for _, p := range l.Pieces {
			if p.Known && (p.Amb == "" || strings.ContainsAny(p.Amb, "0123456789")) {
				for c := p.Iv.Lo; c <= p.Iv.Hi && c-p.Iv.Lo < 64; c++ {
					if _, ok := spec[c]; !ok {
						extra++
					}
				}
			}
		}
		score := float64(hit) / float64(len(spec)+extra)
		if score > best {
			second = best
			best = score
			l.Class = c
		} else if score > second {
			second = score
		}
	}
	l.Score = best
	if best < 0.7 || best-second < 0.15 {
		l.Class = ""
	}
}

// tableLookups turns every integer-keyed package-level map literal of the library into lookups.
func tableLookups(p *an.Prog) []*sizeLookup {
	var out []*sizeLookup
	for _, pk := range p.LibPkgs {
		sp := p.SSA.Package(pk.Types)
		var names []string
		for name, m := range sp.Members {
			if g, ok := m.(*ssa.Global); ok {
				if mt, ok := g.Type().(*types.Pointer).Elem().Underlying().(*types.Map); ok {
					if b, ok := mt.Key().Underlying().(*types.Basic); ok && b.Info()&types.IsInteger != 0 {
						// only tables that can hold sizes: integer values, or structs with an integer
						// field (constructor tables, sets and name tables are not size lookups)
						holdsInt := false
						switch vt := mt.Elem().Underlying().(type) {
						case *types.Basic:
							holdsInt = vt.Info()&types.IsInteger != 0
						case *types.Struct:
							for i := 0; i < vt.NumFields(); i++ {
								if fb, ok := vt.Field(i).Type().Underlying().(*types.Basic); ok && fb.Info()&types.IsInteger != 0 {
									holdsInt = true
								}
							}
						}
						if holdsInt {
							names = append(names, name)
						}
					}
				}
			}
		}
		sort.Strings(names)
		for _, name := range names {
			g := sp.Members[name].(*ssa.Global)
			short := an.ShortPkg(pk.PkgPath)
			t, err := p.GlobalTable(short, name)
			if err != nil {
				out = append(out, &sizeLookup{Name: "table " + short + "." + name, Pos: p.Pos(g.Pos()), Err: err.Error()})
				continue
			}
			cols := []string{""}
			if t.Fields != nil {
				cols = nil
				st := t.ValType.Underlying().(*types.Struct)
				for i := 0; i < st.NumFields(); i++ {
					if b, ok := st.Field(i).Type().Underlying().(*types.Basic); ok && b.Info()&types.IsInteger != 0 {
						cols = append(cols, st.Field(i).Name())
					}
				}
			} else if b, ok := t.ValType.Underlying().(*types.Basic); !ok || b.Info()&types.IsInteger == 0 {
				continue
			}
			for _, col := range cols {
				l := &sizeLookup{Name: "table " + short + "." + name, Pos: p.Pos(g.Pos()), Domain: an.IvAll()}
				if col != "" {
					l.Name += "." + col
				}
				keyRange, _ := typeRangeOf(g.Type().(*types.Pointer).Elem().Underlying().(*types.Map).Key())
				l.Domain = keyRange
				for _, k := range t.Keys {
					v, ok := t.Int(k, col)
					pc := lkPiece{Iv: an.Iv{Lo: k, Hi: k}, Known: true, Val: v}
					if !ok {
						pc.Amb = "non-integer"
					}
					l.Pieces = append(l.Pieces, pc)
				}
				l.fillUnknown()
				out = append(out, l)
			}
		}
	}
	return out
}

func typeRangeOf(t types.Type) (an.IvSet, bool) {
	b, ok := t.Underlying().(*types.Basic)
	if !ok {
		return an.IvAll(), false
	}
	switch b.Kind() {
	case types.Uint8:
		return an.IvRange(0, 255), true
	case types.Uint16:
		return an.IvRange(0, 65535), true
	case types.Uint32:
		return an.IvRange(0, 1<<32-1), true
	case types.Int8:
		return an.IvRange(-128, 127), true
	case types.Int16:
		return an.IvRange(-32768, 32767), true
	case types.Int32:
		return an.IvRange(-1<<31, 1<<31-1), true
	case types.Uint, types.Uint64:
		return an.IvRange(0, an.PosInf), true
	}
	return an.IvAll(), true
}

// fillUnknown adds "unknown" pieces for the parts of the domain not covered.
func (l *sizeLookup) fillUnknown() {
	var cov an.IvSet
	for _, p := range l.Pieces {
		cov = append(cov, p.Iv)
	}
	for _, iv := range l.Domain.Minus(cov.Union(nil)) {
		l.Pieces = append(l.Pieces, lkPiece{Iv: iv})
	}
	sort.Slice(l.Pieces, func(i, j int) bool { return l.Pieces[i].Iv.Lo < l.Pieces[j].Iv.Lo })
}

func isIntegerType(t types.Type) bool {
	b, ok := t.Underlying().(*types.Basic)
	return ok && b.Info()&types.IsInteger != 0
}

func isErrorType(t types.Type) bool {
	return types.Identical(t, types.Universe.Lookup("error").Type())
}

func isNamed(t types.Type, pkgSuffix, name string) bool {
	if p, ok := t.(*types.Pointer); ok {
		t = p.Elem()
	}
	n, ok := t.(*types.Named)
	if !ok || n.Obj().Pkg() == nil {
		return false
	}
	return n.Obj().Name() == name && strings.HasSuffix(n.Obj().Pkg().Path(), pkgSuffix)
}

type qSource struct {
	label string
	sel   an.QSelector
	dom   an.IvSet
}

// qSources enumerates the code-valued inputs of fn: integer parameters and data.Integer fields of
// a struct receiver read through (Integer).Int().
func qSources(fn *ssa.Function) []qSource {
	var out []qSource
	for i, prm := range fn.Params {
		prm := prm
		if isIntegerType(prm.Type()) {
			dom, _ := typeRangeOf(prm.Type())
			out = append(out, qSource{
				label: fmt.Sprintf("param %s", prm.Name()),
				dom:   dom,
				sel:   func(ev *an.PEval, v ssa.Value, args []an.AV) bool { return v == ssa.Value(prm) },
			})
		}
		_ = i
	}
	if fn.Signature.Recv() != nil && len(fn.Params) > 0 {
		rt := fn.Params[0].Type()
		if pt, ok := rt.Underlying().(*types.Pointer); ok {
			rt = pt.Elem()
		}
		if st, ok := rt.Underlying().(*types.Struct); ok {
			for i := 0; i < st.NumFields(); i++ {
				f := st.Field(i)
				if isNamed(f.Type(), "common/data", "Integer") {
					path := "p0." + f.Name()
					out = append(out, qSource{
						label: "recv." + f.Name() + ".Int()",
						dom:   Code16,
						sel: func(ev *an.PEval, v ssa.Value, args []an.AV) bool {
							c, ok := v.(*ssa.Call)
							if !ok {
								return false
							}
							callee := c.Call.StaticCallee()
							if callee == nil || callee.Name() != "Int" || !isNamed(recvType(callee), "common/data", "Integer") {
								return false
							}
							return len(args) > 0 && args[0].K == an.KObj && args[0].Path == path
						},
					})
				}
			}
		}
	}
	return out
}

func recvType(fn *ssa.Function) types.Type {
	if r := fn.Signature.Recv(); r != nil {
		return r.Type()
	}
	return types.Typ[types.Invalid]
}

func rootArgs(fn *ssa.Function) []an.AV {
	args := make([]an.AV, len(fn.Params))
	for i, prm := range fn.Params {
		if isIntegerType(prm.Type()) {
			continue
		}
		args[i] = an.AV{K: an.KObj, Path: fmt.Sprintf("p%d", i)}
	}
	return args
}

type resSlot struct {
	label string
	get   func(o an.Outcome) an.AV
}

func intResultSlots(fn *ssa.Function) []resSlot {
	var out []resSlot
	res := fn.Signature.Results()
	for i := 0; i < res.Len(); i++ {
		i := i
		t := res.At(i).Type()
		if isIntegerType(t) {
			out = append(out, resSlot{fmt.Sprintf("r%d", i), func(o an.Outcome) an.AV {
				if i < len(o.Results) {
					return o.Results[i]
				}
				return an.AV{}
			}})
		} else if st, ok := t.Underlying().(*types.Struct); ok && st.NumFields() <= 8 {
			for j := 0; j < st.NumFields(); j++ {
				j := j
				if isIntegerType(st.Field(j).Type()) {
					out = append(out, resSlot{fmt.Sprintf("r%d.%s", i, st.Field(j).Name()), func(o an.Outcome) an.AV {
						if i < len(o.Results) && o.Results[i].K == an.KStruct && j < len(o.Results[i].Elems) {
							return o.Results[i].Elems[j]
						}
						return an.AV{}
					}})
				}
			}
		}
	}
	return out
}

// funcLookups evaluates every candidate library function as a function of each of its code-valued
// inputs and keeps those that behave as a table (>= 3 known codes with constant values).
func funcLookups(p *an.Prog, r *an.Report) []*sizeLookup {
	var out []*sizeLookup
	tried := 0
	for _, fn := range p.RepoFns {
		if fn.Synthetic != "" || fn.Parent() != nil || len(fn.Blocks) == 0 {
			continue
		}
		if len(fn.Params) > 3 {
			continue
		}
		slots := intResultSlots(fn)
		if len(slots) == 0 {
			continue
		}
		res := fn.Signature.Results()
		errIdx := -1
		if n := res.Len(); n > 0 && isErrorType(res.At(n-1).Type()) {
			errIdx = n - 1
		}
		for _, qs := range qSources(fn) {
			tried++
			ev := &an.PEval{P: p, Select: qs.sel, Domain: qs.dom, MaxPaths: 4000}
			outs, err := ev.Run(fn, rootArgs(fn))
			if err != nil {
				if os.Getenv("C10DEBUG") != "" {
					fmt.Fprintln(os.Stderr, "C10DEBUG eval error", an.FnKey(fn), qs.label, err)
				}
				continue
			}
			for _, sl := range slots {
				l := &sizeLookup{Name: fmt.Sprintf("func %s [%s -> %s]", an.FnKey(fn), qs.label, sl.label), Pos: p.FnPos(fn), Domain: qs.dom}
				ivs, idx := an.Pieces(qs.dom, outs)
				for i, iv := range ivs {
					vals := map[string]bool{}
					var val int64
					known := false
					for _, j := range idx[i] {
						o := outs[j]
						if o.Panic {
							continue
						}
						if errIdx >= 0 && o.ErrIs(errIdx) == 2 {
							continue // rejected
						}
						a := sl.get(o)
						if a.K == an.KInt {
							if errIdx < 0 && a.I == 0 {
								continue // "returns 0 for unknown"
							}
							known = true
							val = a.I
							vals[fmt.Sprint(a.I)] = true
						} else {
							known = true
							vals[a.String()] = true
						}
					}
					pc := lkPiece{Iv: iv, Known: known, Val: val}
					if len(vals) > 1 || (known && len(vals) == 1 && !vals[fmt.Sprint(val)]) {
						var vs []string
						for v := range vals {
							vs = append(vs, v)
						}
						sort.Strings(vs)
						pc.Amb = strings.Join(vs, "|")
					}
					l.Pieces = append(l.Pieces, pc)
				}
				// table-like: at least 3 distinct known singleton codes with constant values, and
				// the known set is small (a size lookup is defined on a handful of codes)
				n, nAmbConst := 0, 0
				for _, pc := range l.Pieces {
					if pc.Known && pc.Amb == "" && pc.Iv.Hi-pc.Iv.Lo < 8 {
						n += int(pc.Iv.Hi - pc.Iv.Lo + 1)
					}
					// a code that yields a table constant on one path and something else on another
					// (a cache, a fallback): still a size lookup, but no longer a function of the code
					if pc.Known && pc.Amb != "" && pc.Iv.Hi-pc.Iv.Lo < 8 && strings.ContainsAny(pc.Amb, "0123456789") {
						nAmbConst += int(pc.Iv.Hi - pc.Iv.Lo + 1)
					}
				}
				if os.Getenv("C10DEBUG") != "" && strings.Contains(an.FnKey(fn), os.Getenv("C10DEBUG")) {
					fmt.Fprintln(os.Stderr, "C10DEBUG", l.Name, "n=", n, "amb=", nAmbConst, len(outs), "outcomes")
					for _, pc := range l.Pieces {
						if pc.Known {
							fmt.Fprintln(os.Stderr, "   ", pc.Iv, pc.Val, pc.Amb)
						}
					}
				}
				if n >= 3 || nAmbConst >= 3 {
					out = append(out, l)
				}
			}
		}
	}
	r.Analysed["candidate_function_inputs_evaluated"] = tried
	return out
}

// C10 decides T1 (all size lookups agree with each other and the spec on all 65,536 codes).
func C10(p *an.Prog, r *an.Report) {
	r.Explanation = "Static extraction of every key/signature size lookup in the library (package-level map literals through go/types constants; functions through path-sensitive interval partitioning of their SSA control flow on the type-code input) as a total function on the 16-bit code space, compared exhaustively with the frozen I2P 0.9.67 table and with each other. Decides table agreement (T1), constructed-key length vs declared size (T3) and the key-block offset forms (T2); does not decide byte contents for arbitrary keys. T2 is evaluated by the key-block layout rule shared with C01.R5. T4: private-key size columns are read only inside the table's package or by private-key code."
	r.Rule = "one obligation per discovered lookup column (known-set equality and value equality over all 65,536 codes) plus pairwise agreement per class; non-trivial = the lookup resolved at least 3 codes to constants"
	defer c01Block(p, r, "C10.T2") // key offsets inside the 384-byte block for every supported size pair
	r.Trusted = []string{"go/types constant evaluation", "go/ssa construction", "frozen spec table in checker/internal/rules/spec.go"}
	r.Exhaustive = true

	var all []*sizeLookup
	all = append(all, tableLookups(p)...)
	all = append(all, funcLookups(p, r)...)
	byClass := map[string][]*sizeLookup{}
	var unclassified []string
	for _, l := range all {
		if l.Err != "" {
			r.Ob("C10.T1", l.Name, l.Pos, an.Undecided, "integer-keyed table could not be evaluated: "+l.Err)
			continue
		}
		l.classify()
		if l.Class == "" && l.Score >= 0.4 {
			r.Ob("C10.T1", "unclassified/"+l.Name, l.Pos, an.Undecided,
				fmt.Sprintf("resembles a key/signature size table (best column score %.2f) but matches no specification column well enough to be compared", l.Score), "extracted: "+l.String())
			continue
		}
		if l.Class == "" {
			unclassified = append(unclassified, fmt.Sprintf("%s (best score %.2f): %s", l.Name, l.Score, l.String()))
			continue
		}
		byClass[l.Class] = append(byClass[l.Class], l)
	}
	r.Analysed["unclassified_table_like"] = unclassified
	codes := 0
	r.Analysed["private_size_columns_seen_not_checked"] = len(byClass["sprv"]) + len(byClass["cprv"])
	for _, class := range []string{"sig", "spk", "cpk"} {
		spec := specFn(class)
		var specKeys an.IvSet
		for k := range spec {
			specKeys = specKeys.Union(an.IvPoint(k))
		}
		for _, l := range byClass[class] {
			codes += 65536
			var facts []string
			ok := true
			known := l.knownSet()
			if !known.Equal(specKeys) {
				ok = false
				facts = append(facts, fmt.Sprintf("known codes %s, specification %s (missing %s, extra %s)", known, specKeys, specKeys.Minus(known), known.Minus(specKeys)))
			}
			for k, v := range spec {
				pc, _ := l.at(k)
				if pc.Known && (pc.Amb != "" || pc.Val != v) {
					ok = false
					got := fmt.Sprint(pc.Val)
					if pc.Amb != "" {
						got = pc.Amb
					}
					facts = append(facts, fmt.Sprintf("code %d: %s, specification %d", k, got, v))
				}
			}
			sort.Strings(facts)
			facts = append(facts, "extracted: "+l.String())
			what := fmt.Sprintf("%s size lookup equals the I2P 0.9.67 table on all codes of its domain %s", class, l.Domain)
			if !ok {
				what = fmt.Sprintf("%s size lookup disagrees with the I2P 0.9.67 table", class)
			}
			r.Check(ok, "C10.T1", class+"/"+l.Name, l.Pos, what, facts...)
		}
		// pairwise agreement
		ls := byClass[class]
		for i := 1; i < len(ls); i++ {
			a, b := ls[0], ls[i]
			var diffs []string
			for c := int64(0); c <= 65535; c++ {
				pa, _ := a.at(c)
				pb, _ := b.at(c)
				if pa.Known != pb.Known || (pa.Known && (pa.Val != pb.Val || pa.Amb != pb.Amb)) {
					if len(diffs) < 6 {
						diffs = append(diffs, fmt.Sprintf("code %d: %v/%d vs %v/%d", c, pa.Known, pa.Val, pb.Known, pb.Val))
					}
				}
			}
			o := r.Check(len(diffs) == 0, "C10.T1pair", class+"/"+a.Name+" ~ "+b.Name, b.Pos, "sibling lookups agree on every 16-bit code", diffs...)
			o.Nontrivial = true
		}
	}
	r.Analysed["codes_compared"] = codes
	r.Floor("sig_size_lookups", len(byClass["sig"]), 4)
	r.Floor("signing_pubkey_size_lookups", len(byClass["spk"]), 4)
	r.Floor("crypto_pubkey_size_lookups", len(byClass["cpk"]), 3)
	// the exported lookups confirmed on the pinned tree are the reference: one that can no longer
	// be extracted (rewritten in a form the evaluator does not read) must not silently leave the
	// comparison. Unexported helpers may come and go.
	for class, names := range c10ExportedLookups {
		for _, want := range names {
			found := false
			for _, l := range byClass[class] {
				if strings.HasPrefix(l.Name, want) {
					found = true
				}
			}
			if !found {
				r.Ob("C10.T1", "exported/"+class+"/"+want, "-", an.Undecided,
					"an exported size lookup confirmed on the pinned tree is no longer extracted as a total function of the type code (rewritten in a form the evaluator cannot read, renamed or removed): it has left the comparison with the specification")
			}
		}
	}
	c10TypeValidators(p, r)
	c10PrivateColumns(p, r, "C10.T4")
	c10Constructed(p, r)
	c10Block(p, r)
}

// c10ExportedLookups: the exported size lookups (functions by key, tables by name) per class, as
// extracted on the pinned tree.
var c10ExportedLookups = map[string][]string{
	"sig": {"func (key_certificate.KeyCertificate).SignatureSize ", "func key_certificate.GetKeySizes [param signingType -> r0.SignatureSize]", "func key_certificate.GetSignatureSize ", "func offline_signature.SignatureSize ", "func signature.SignatureSize ", "table key_certificate.SigningKeySizes.SignatureSize"},
	"spk": {"func (key_certificate.KeyCertificate).SigningPublicKeySize ", "func key_certificate.GetKeySizes [param signingType -> r0.SigningPublicKeySize]", "func key_certificate.GetSigningKeySize ", "func offline_signature.SigningPublicKeySize ", "table key_certificate.SignaturePublicKeySizes", "table key_certificate.SigningKeySizes.SigningPublicKeySize"},
	"cpk": {"func (key_certificate.KeyCertificate).CryptoPublicKeySize ", "func (key_certificate.KeyCertificate).CryptoSize ", "func key_certificate.GetCryptoKeySize ", "func key_certificate.GetKeySizes [param cryptoType -> r0.CryptoPublicKeySize]", "table key_certificate.CryptoKeySizes.CryptoPublicKeySize", "table key_certificate.CryptoPublicKeySizes"},
}

// c10TypeValidators: func(int) error whose accept set is close to a spec key set must accept exactly
// spec keys plus the experimental range.
func c10TypeValidators(p *an.Prog, r *an.Report) {
	n := 0
	lengthValidators := 0
	callSites := map[*ssa.Function][]*ssa.Call{}
	for _, fn := range p.RepoFns {
		for _, b := range fn.Blocks {
			for _, in := range b.Instrs {
				if c, ok := in.(*ssa.Call); ok {
					if g := c.Call.StaticCallee(); g != nil {
						callSites[g] = append(callSites[g], c)
					}
				}
			}
		}
	}
	for _, fn := range p.RepoFns {
		if fn.Synthetic != "" || fn.Parent() != nil || len(fn.Blocks) == 0 || len(fn.Params) != 1 || !isIntegerType(fn.Params[0].Type()) {
			continue
		}
		res := fn.Signature.Results()
		if res.Len() != 1 || !isErrorType(res.At(0).Type()) {
			continue
		}
		prm := fn.Params[0]
		// a validator that is only ever handed a length (len(x) or arithmetic on it) checks sizes,
		// not type codes, however small its accept set is
		if sites := callSites[fn]; len(sites) > 0 {
			allLen := true
			for _, c := range sites {
				if len(c.Call.Args) != 1 || !lengthDerived(c.Call.Args[0], 0) {
					allLen = false
				}
			}
			if allLen {
				lengthValidators++
				continue
			}
		}
		dom, _ := typeRangeOf(prm.Type())
		ev := &an.PEval{P: p, Domain: dom, MaxPaths: 2000, Select: func(ev *an.PEval, v ssa.Value, args []an.AV) bool { return v == ssa.Value(prm) }}
		outs, err := ev.Run(fn, rootArgs(fn))
		if err != nil {
			continue
		}
		_, mayAccept, _ := an.RegionWhere(dom, outs, func(o an.Outcome) bool { return !o.Panic && o.ErrIs(0) != 2 })
		low := mayAccept.Intersect(an.IvRange(0, 65279))
		if low.Count() > 64 || low.Count() < 3 {
			continue
		}
		for _, cl := range []struct {
			name string
			keys an.IvSet
		}{{"signing", specSigKeys()}, {"crypto", specCryptoKeys()}} {
			inter := low.Intersect(cl.keys).Count()
			union := low.Union(cl.keys).Count()
			if float64(inter)/float64(union) < 0.8 {
				continue
			}
			// ambiguous between signing and crypto? prefer the larger Jaccard
			other := specCryptoKeys()
			if cl.name == "crypto" {
				other = specSigKeys()
			}
			if float64(low.Intersect(other).Count())/float64(low.Union(other).Count()) > float64(inter)/float64(union) {
				continue
			}
			n++
			want := cl.keys.Union(SpecExperimental)
			ok := mayAccept.Equal(want)
			r.Check(ok, "C10.T1valid", cl.name+"/"+an.FnKey(fn), p.FnPos(fn),
				fmt.Sprintf("%s type-code validator accepts exactly the specified codes plus the experimental range", cl.name),
				"accepts "+mayAccept.String(), "expected "+want.String())
		}
	}
	r.Analysed["type_code_validators"] = n
	r.Analysed["length_validators_set_aside"] = lengthValidators
}

// c10PrivateColumns (T4): the wire structures carry public keys only, so outside the table's own
// package no function that handles wire data sizes anything by a private-key column of a size
// table (a column whose name says Private). Functions whose receiver or parameters are themselves
// private-key types are the only admitted readers.
func c10PrivateColumns(p *an.Prog, r *an.Report, rule string) {
	var bad []string
	reads, home := 0, 0
	for _, fn := range p.RepoFns {
		if !an.InLib(fn) || len(fn.Blocks) == 0 {
			continue
		}
		for _, b := range fn.Blocks {
			for _, in := range b.Instrs {
				var st types.Type
				idx := -1
				switch x := in.(type) {
				case *ssa.Field:
					st, idx = x.X.Type(), x.Field
				case *ssa.FieldAddr:
					// reads only: the address is loaded, not stored to
					isRead := false
					for _, ref := range *x.Referrers() {
						if u, ok := ref.(*ssa.UnOp); ok && u.Op == token.MUL {
							isRead = true
						}
					}
					if isRead {
						st, idx = an.Deref(x.X.Type()), x.Field
					}
				}
				if idx < 0 {
					continue
				}
				s, ok := st.Underlying().(*types.Struct)
				if !ok || idx >= s.NumFields() {
					continue
				}
				f := s.Field(idx)
				if !strings.Contains(f.Name(), "Private") || !strings.Contains(f.Name(), "Size") || !isIntegerType(f.Type()) {
					continue
				}
				reads++
				pkgOfType, _ := an.NamedOf(st)
				if f.Pkg() != nil && an.FnPkgPath(fn) == f.Pkg().Path() {
					home++
					continue
				}
				_ = pkgOfType
				private := false
				sig := fn.Signature
				check := func(t types.Type) {
					if _, name := an.NamedOf(an.Deref(t)); strings.Contains(name, "Private") {
						private = true
					}
				}
				if sig.Recv() != nil {
					check(sig.Recv().Type())
				}
				for i := 0; i < sig.Params().Len(); i++ {
					check(sig.Params().At(i).Type())
				}
				if strings.Contains(fn.Name(), "Private") {
					private = true
				}
				if !private {
					bad = append(bad, fmt.Sprintf("%s reads the private-key column %s at %s", an.FnKey(fn), f.Name(), p.Pos(in.Pos())))
				}
			}
		}
	}
	r.Analysed["private_size_column_reads"] = reads
	if home == 0 {
		r.Fail(rule+" canary: no read of a private-key size column was found inside the table's own package (the detector no longer sees GetKeySizes-style accessors)")
	}
	r.Check(len(bad) == 0, rule, "private-size-columns", "-", "no function handling wire (public-key) data takes a size from a private-key column of a size table", bad...)
}

// lengthDerived: v is len(x), or sums/differences of such values and constants.
func lengthDerived(v ssa.Value, depth int) bool {
	if depth > 4 {
		return false
	}
	switch x := v.(type) {
	case *ssa.Call:
		bi, ok := x.Call.Value.(*ssa.Builtin)
		return ok && (bi.Name() == "len" || bi.Name() == "cap")
	case *ssa.BinOp:
		if x.Op != token.ADD && x.Op != token.SUB {
			return false
		}
		_, cx := x.X.(*ssa.Const)
		_, cy := x.Y.(*ssa.Const)
		return (cx || lengthDerived(x.X, depth+1)) && (cy || lengthDerived(x.Y, depth+1)) && !(cx && cy)
	case *ssa.Convert:
		return lengthDerived(x.X, depth+1)
	}
	return false
}

func c10Constructed(p *an.Prog, r *an.Report) {}
func c10Block(p *an.Prog, r *an.Report)       {}
