package rules

import (
	"fmt"
	"go/token"
	"sort"
	"strings"

	"golang.org/x/tools/go/ssa"

	"verif/checker/internal/an"
)

// ---- loops ----------------------------------------------------------------------------------------

type loopInfo struct {
	header *ssa.BasicBlock
	body   map[*ssa.BasicBlock]bool
	latch  []*ssa.BasicBlock
}

func naturalLoops(fn *ssa.Function) []loopInfo {
	byHeader := map[*ssa.BasicBlock]*loopInfo{}
	var order []*ssa.BasicBlock
	for _, b := range fn.Blocks {
		for _, s := range b.Succs {
			if s.Dominates(b) {
				li := byHeader[s]
				if li == nil {
					li = &loopInfo{header: s, body: map[*ssa.BasicBlock]bool{s: true}}
					byHeader[s] = li
					order = append(order, s)
				}
				li.latch = append(li.latch, b)
				// body: blocks that reach the latch without passing the header
				work := []*ssa.BasicBlock{b}
				for len(work) > 0 {
					x := work[len(work)-1]
					work = work[:len(work)-1]
					if li.body[x] {
						continue
					}
					li.body[x] = true
					work = append(work, x.Preds...)
				}
			}
		}
	}
	var out []loopInfo
	for _, h := range order {
		out = append(out, *byHeader[h])
	}
	return out
}

// loopBounded: the loop has a counter (a header phi moved by a non-zero constant on every way
// round) that the facts holding at every latch bound, on the side it moves towards, by quantities
// that do not change inside the loop; or it is a range over a map/string (Next instruction).
func loopBounded(b *an.Bounds, li loopInfo) (bool, string) {
	for _, in := range li.header.Instrs {
		if _, ok := in.(*ssa.Next); ok {
			return true, "range over a finite map/string"
		}
	}
	invariant := func(t an.Term) bool {
		v, ok := t.K.(ssa.Value)
		if !ok {
			return an.TermDefinedOutside(t, li.body)
		}
		switch x := v.(type) {
		case *ssa.Parameter, *ssa.Const, *ssa.Global, *ssa.FreeVar:
			return true
		case ssa.Instruction:
			return !li.body[x.Block()]
		}
		return false
	}
	var why []string
	for _, in := range li.header.Instrs {
		phi, ok := in.(*ssa.Phi)
		if !ok {
			break
		}
		pt := an.Term{K: an.TermKeyOf(phi)}
		step := int64(0)
		okStep := true
		for i, e := range phi.Edges {
			if !li.body[li.header.Preds[i]] {
				continue // entry edge
			}
			d := b.LinOf(e).Add(an.LinTerm(pt), -1)
			if !d.IsConst() {
				// a variable step that is provably at least one in one direction (e.g. the
				// result of copy into a non-empty window from a non-empty source)
				latch := li.header.Preds[i]
				last := latch.Instrs[len(latch.Instrs)-1]
				switch {
				case b.ProveAt(last, d.Add(an.LinConst(1), -1)).OK:
					d = an.LinConst(1)
				case b.ProveAt(last, d.Scale(-1).Add(an.LinConst(1), -1)).OK:
					d = an.LinConst(-1)
				}
			}
			if !d.IsConst() || d.C == 0 || (step != 0 && (step > 0) != (d.C > 0)) {
				okStep = false
				break
			}
			step = d.C
		}
		if !okStep || step == 0 {
			continue
		}
		// every latch must carry a bound on the counter in the direction of travel
		all := true
		for _, l := range li.latch {
			found := false
			for _, f := range b.FactsAt(l, len(l.Instrs)-1) {
				if f.Neq {
					continue
				}
				c := f.L.T[pt]
				if c == 0 || (c < 0) != (step > 0) {
					continue
				}
				inv := true
				for t := range f.L.T {
					if t != pt && !invariant(t) {
						inv = false
					}
				}
				if inv {
					found = true
					break
				}
			}
			if !found {
				all = false
				why = append(why, fmt.Sprintf("counter %s (step %+d) has no loop-invariant bound at the latch block %d", phi.Name(), step, l.Index))
				break
			}
		}
		if all {
			return true, fmt.Sprintf("a counter moves by %+d per iteration towards a loop-invariant bound", step)
		}
	}
	if len(why) == 0 {
		why = append(why, "no header phi is moved by a constant on every back edge")
	}
	return false, strings.Join(why, "; ")
}

func c04Loops(p *an.Prog, r *an.Report, b *an.Bounds, inScope func(*ssa.Function) bool) int {
	n := 0
	for _, fn := range p.RepoFns {
		if !an.InLib(fn) || len(fn.Blocks) == 0 || !inScope(fn) {
			continue
		}
		for i, li := range naturalLoops(fn) {
			n++
			ok, how := loopBounded(b, li)
			pos := p.FnPos(fn)
			r.Check(ok, "C04.T1", fmt.Sprintf("%s/loop%d", an.FnKey(fn), i+1), pos, "loop terminates: "+how)
		}
	}
	return n
}

// ---- recursion --------------------------------------------------------------------------------

func c04Recursion(p *an.Prog, r *an.Report, scope map[*ssa.Function][]*ssa.Function) {
	// Tarjan over the library part of the call graph
	cg := p.CG()
	index := map[*ssa.Function]int{}
	low := map[*ssa.Function]int{}
	on := map[*ssa.Function]bool{}
	var stack []*ssa.Function
	next := 0
	var sccs [][]*ssa.Function
	var strong func(f *ssa.Function)
	succs := func(f *ssa.Function) []*ssa.Function {
		var out []*ssa.Function
		if n := cg.Nodes[f]; n != nil {
			for _, e := range n.Out {
				if g := e.Callee.Func; g != nil && an.InLib(g) {
					out = append(out, g)
				}
			}
		}
		return out
	}
	strong = func(f *ssa.Function) {
		index[f], low[f] = next, next
		next++
		stack = append(stack, f)
		on[f] = true
		for _, g := range succs(f) {
			if _, seen := index[g]; !seen {
				strong(g)
				if low[g] < low[f] {
					low[f] = low[g]
				}
			} else if on[g] && index[g] < low[f] {
				low[f] = index[g]
			}
		}
		if low[f] == index[f] {
			var comp []*ssa.Function
			for {
				g := stack[len(stack)-1]
				stack = stack[:len(stack)-1]
				on[g] = false
				comp = append(comp, g)
				if g == f {
					break
				}
			}
			self := false
			for _, g := range succs(f) {
				if g == f {
					self = true
				}
			}
			if len(comp) > 1 || self {
				sccs = append(sccs, comp)
			}
		}
	}
	var fns []*ssa.Function
	for f := range scope {
		fns = append(fns, f)
	}
	sort.Slice(fns, func(i, j int) bool { return an.FnKey(fns[i]) < an.FnKey(fns[j]) })
	for _, f := range fns {
		if _, seen := index[f]; !seen {
			strong(f)
		}
	}
	var facts []string
	for _, c := range sccs {
		var names []string
		for _, f := range c {
			names = append(names, an.FnKey(f))
		}
		sort.Strings(names)
		facts = append(facts, "cycle: "+strings.Join(names, " -> "))
	}
	r.Check(len(sccs) == 0, "C04.T2", "call-graph/recursion", "", fmt.Sprintf("no recursion among the %d library functions reachable from the entry points (input cannot drive recursion depth)", len(fns)), facts...)
}

// ---- constructs that panic or block unconditionally ---------------------------------------------

// c04Callers: static call sites per library function; c04ValueUsed: functions used as values.
var c04Callers map[*ssa.Function][]*ssa.Call
var c04ValueUsed map[*ssa.Function]bool

func c04IndexCallers(p *an.Prog) {
	c04Callers = map[*ssa.Function][]*ssa.Call{}
	c04ValueUsed = map[*ssa.Function]bool{}
	for _, fn := range p.RepoFns {
		for _, blk := range fn.Blocks {
			for _, in := range blk.Instrs {
				if c, ok := in.(*ssa.Call); ok {
					if g := c.Call.StaticCallee(); g != nil {
						c04Callers[g] = append(c04Callers[g], c)
					}
				}
				for _, op := range in.Operands(nil) {
					if op == nil || *op == nil {
						continue
					}
					if g, ok := (*op).(*ssa.Function); ok {
						if ci, isCall := in.(ssa.CallInstruction); isCall && ci.Common().Value == ssa.Value(g) {
							if _, plain := in.(*ssa.Call); plain {
								continue
							}
						}
						c04ValueUsed[g] = true
					}
				}
			}
		}
	}
}

func c04Forbidden(p *an.Prog, r *an.Report, inScope func(*ssa.Function) bool) {
	c04IndexCallers(p)
	var facts []string
	n := 0
	for _, fn := range p.RepoFns {
		if !an.InLib(fn) || len(fn.Blocks) == 0 || !inScope(fn) {
			continue
		}
		n++
		for _, blk := range fn.Blocks {
			for _, in := range blk.Instrs {
				kind := ""
				switch x := in.(type) {
				case *ssa.Panic:
					kind = "explicit panic"
				case *ssa.TypeAssert:
					if !x.CommaOk {
						kind = "type assertion without comma-ok"
					}
				case *ssa.Send:
					kind = "channel send"
				case *ssa.Select:
					if x.Blocking {
						kind = "blocking select"
					}
				case *ssa.UnOp:
					if x.Op == token.ARROW {
						kind = "channel receive"
					}
				case *ssa.MapUpdate:
					if !mapSurelyMade(x.Map, 0) {
						kind = "write to a map that may be nil"
					}
				}
				if kind != "" {
					facts = append(facts, fmt.Sprintf("%s at %s in %s", kind, p.Pos(in.Pos()), an.FnKey(fn)))
				}
			}
		}
	}
	r.Check(len(facts) == 0, "C04.F1", "forbidden-constructs", "", fmt.Sprintf("no explicit panic, unchecked type assertion, channel operation or nil-map write in the %d functions reachable from the entry points", n), facts...)
}

// mapSurelyMade: the map operand is a make(map) on every way it can be produced inside the function.
func mapSurelyMade(v ssa.Value, d int) bool {
	if d > 6 {
		return false
	}
	switch x := v.(type) {
	case *ssa.MakeMap:
		return true
	case *ssa.ChangeType:
		return mapSurelyMade(x.X, d+1)
	case *ssa.Phi:
		for _, e := range x.Edges {
			if !mapSurelyMade(e, d+1) {
				return false
			}
		}
		return true
	case *ssa.UnOp:
		al, ok := x.X.(*ssa.Alloc)
		if !ok {
			return false
		}
		n := 0
		for _, ref := range *al.Referrers() {
			if st, ok := ref.(*ssa.Store); ok && st.Addr == ssa.Value(al) {
				n++
				if !mapSurelyMade(st.Val, d+1) {
					return false
				}
			}
		}
		return n > 0
	case *ssa.Parameter:
		// every static caller of an unexported function passes a made map
		fn := x.Parent()
		if fn.Object() == nil || fn.Object().Exported() || c04ValueUsed[fn] || len(c04Callers[fn]) == 0 {
			return false
		}
		idx := -1
		for i, q := range fn.Params {
			if q == x {
				idx = i
			}
		}
		for _, c := range c04Callers[fn] {
			if idx < 0 || idx >= len(c.Call.Args) || !mapSurelyMade(c.Call.Args[idx], d+1) {
				return false
			}
		}
		return true
	}
	return false
}
