package rules

import (
	"go/token"
	"fmt"
	"go/types"
	"math"
	"strings"

	"golang.org/x/tools/go/ssa"

	"verif/checker/internal/an"
)

func init() { Registry["C12"] = C12 }

// usesByteOrder reports uses of encoding/binary byte orders other than BigEndian in fn.
func nonBigEndianUses(p *an.Prog, fn *ssa.Function) []string {
	var out []string
	for _, b := range fn.Blocks {
		for _, in := range b.Instrs {
			for _, op := range in.Operands(nil) {
				if g, ok := (*op).(*ssa.Global); ok && g.Pkg != nil && g.Pkg.Pkg.Path() == "encoding/binary" && (g.Name() == "LittleEndian" || g.Name() == "NativeEndian") {
					out = append(out, fmt.Sprintf("%s uses binary.%s at %s", an.FnKey(fn), g.Name(), p.Pos(in.Pos())))
				}
			}
			if c, ok := in.(ssa.CallInstruction); ok {
				if f := c.Common().StaticCallee(); f != nil && an.FnPkgPath(f) == "encoding/binary" && f.Signature.Recv() != nil {
					_, n := an.NamedOf(f.Signature.Recv().Type())
					if n == "littleEndian" || n == "nativeEndian" {
						out = append(out, fmt.Sprintf("%s calls %s at %s", an.FnKey(fn), an.FnKey(f), p.Pos(in.Pos())))
					}
				}
			}
		}
	}
	return out
}

// fixedSizeReaders: library functions (data []byte) -> ([N]byte-typed value, []byte, error).
func fixedSizeReaders(p *an.Prog) map[*ssa.Function]int64 {
	out := map[*ssa.Function]int64{}
	for _, fn := range p.RepoFns {
		if fn.Synthetic != "" || fn.Parent() != nil || len(fn.Blocks) == 0 || len(fn.Params) != 1 {
			continue
		}
		if fn.Params[0].Type().String() != "[]byte" {
			continue
		}
		res := fn.Signature.Results()
		if res.Len() != 3 || !isErrorType(res.At(2).Type()) || res.At(1).Type().String() != "[]byte" {
			continue
		}
		t := an.Deref(res.At(0).Type())
		arr, ok := t.Underlying().(*types.Array)
		if !ok {
			continue
		}
		if b, ok := arr.Elem().Underlying().(*types.Basic); !ok || b.Kind() != types.Uint8 {
			continue
		}
		out[fn] = arr.Len()
	}
	return out
}

func C12(p *an.Prog, r *an.Report) {
	// P7: the primitive readers (Integer, Date, I2PString, Hash, mapping codec) never index or slice
	// beyond the input: the bounds proof of C04 restricted to package data
	defer boundsFor(p, r, "C12.P7", 20, func(f *ssa.Function) bool { return strings.HasSuffix(an.FnPkgPath(f), "/data") })
	// P8: the primitives' own length arithmetic cannot wrap (a 255-byte string, an 8-byte integer);
	// P9: encoders hand out fresh memory, not a pooled buffer the next call overwrites (same rules
	// as C03.S4 and C19.P1)
	defer narrowArith(p, r, "C12.P8", func(f *ssa.Function) bool { return strings.HasSuffix(an.FnPkgPath(f), "/data") })
	defer c19NoCallHistory(p, r, "C12.P9")
	r.Explanation = "Decides the domain clauses of the Integer/Date/String primitives statically: spec constants; for every constructor/decoder the set of (value, width) or input lengths it rejects, extracted by interval partitioning of its SSA paths and compared with the specified domain (widths 1..8, non-negative values up to 2^(8n)-1 for each width n evaluated separately, strings up to 255 bytes, fixed-size readers reject exactly len < size); only big-endian byte-order primitives are used anywhere in the library; narrowing integer conversions in package data are reached only with values that fit; UintSafe's value does not pass through a signed type. It does not decide decode∘encode = id as a value equality. P7: bounds proof (engine E11, as in C04) for every function of package data. P8: the primitives' length arithmetic in narrow integer types cannot wrap. P9: no package-level container is filled at run time (encoders hand out fresh memory)."
	r.Rule = "one obligation per (function, quantity) region, per constant, per narrowing conversion, per fixed-size reader; non-trivial = region extracted from at least one branch"
	r.Trusted = []string{"go/ssa", "encoding/binary.BigEndian semantics"}
	r.Assumptions = []string{"int is 64 bits (the target the suite runs on)"}

	// P1 constants
	for _, c := range []struct {
		name string
		want int64
	}{{"MAX_INTEGER_SIZE", 8}, {"BITS_PER_BYTE", 8}, {"STRING_MAX_SIZE", 255}, {"DATE_SIZE", 8}} {
		v, ok := p.ConstInt("data", c.name)
		r.Check(ok && v == c.want, "C12.P1", "data."+c.name, "-", fmt.Sprintf("constant equals %d", c.want), fmt.Sprintf("value %d found=%v", v, ok))
	}

	all := an.IvAll()
	nonneg := an.IvRange(0, an.PosInf)
	widthReject := all.Minus(an.IvRange(1, 8))
	// P2 integer constructors: (value, size)
	for _, name := range []string{"data.NewIntegerFromInt", "data.EncodeIntN"} {
		fn := p.Func(name)
		if fn == nil {
			r.Fail("C12.P2: anchor %s not found", name)
			continue
		}
		checkRegion(p, r, "C12.P2", name+"/size", fn, selParam(fn, 1), all, widthReject, "rejects exactly sizes outside 1..8", nil)
		for k := int64(1); k <= 8; k++ {
			args := rootArgs(fn)
			args[1] = an.AV{K: an.KInt, I: k}
			maxv := int64(math.MaxInt64)
			if k < 8 {
				maxv = int64(1)<<(8*uint(k)) - 1
			}
			wantReject := all.Minus(an.IvRange(0, maxv))
			checkRegion(p, r, "C12.P2", fmt.Sprintf("%s/value@size=%d", name, k), fn, selParam(fn, 0), all, wantReject,
				fmt.Sprintf("for width %d rejects exactly negative values and values above 2^%d-1", k, 8*k), args)
		}
	}
	// length-domain functions
	lenFns := []struct {
		name       string
		wantReject an.IvSet
		what       string
	}{
		{"data.NewIntegerFromBytes", nonneg.Minus(an.IvRange(1, 8)), "accepts exactly 1..8 bytes"},
		{"data.DecodeIntN", nonneg.Minus(an.IvRange(1, 8)), "accepts exactly 1..8 bytes"},
		{"data.(Integer).IntSafe", nonneg.Minus(an.IvRange(1, 8)), "accepts exactly 1..8 bytes"},
		{"data.(Integer).UintSafe", nonneg.Minus(an.IvRange(1, 8)), "accepts exactly 1..8 bytes"},
		{"data.NewI2PString", an.IvRange(256, an.PosInf), "rejects exactly contents longer than 255 bytes"},
		{"data.ToI2PString", an.IvRange(256, an.PosInf), "rejects exactly contents longer than 255 bytes"},
	}
	for _, lf := range lenFns {
		fn := p.Func(lf.name)
		if fn == nil {
			r.Fail("C12.P2: anchor %s not found", lf.name)
			continue
		}
		checkRegion(p, r, "C12.P2", lf.name+"/len", fn, selLenOf(fn.Params[0]), nonneg, lf.wantReject, lf.what, nil)
	}
	if fn := p.Func("data.NewDateFromMillis"); fn != nil {
		checkRegion(p, r, "C12.P2", "data.NewDateFromMillis/millis", fn, selParam(fn, 0), all, an.IvRange(an.NegInf, -1), "rejects exactly negative millisecond values", nil)
	} else {
		r.Fail("C12.P2: anchor data.NewDateFromMillis not found")
	}
	// fixed-size readers (discovered)
	readers := fixedSizeReaders(p)
	for fn, n := range readers {
		checkRegion(p, r, "C12.P2r", an.FnKey(fn)+"/len", fn, selLenOf(fn.Params[0]), nonneg, an.IvRange(0, n-1),
			fmt.Sprintf("fixed-size reader rejects exactly inputs shorter than %d bytes", n), nil)
	}
	r.Floor("fixed_size_readers", len(readers), 5)

	// P3 byte order
	var uses []string
	canary := 0
	for fn := range p.All {
		u := nonBigEndianUses(p, fn)
		if an.InLib(fn) {
			uses = append(uses, u...)
		} else {
			canary += len(u)
		}
	}
	r.Check(len(uses) == 0, "C12.P3", "no-little-endian", "-", "no use of binary.LittleEndian/NativeEndian anywhere in the library", uses...)
	if canary == 0 {
		r.Fail("C12.P3 canary: the byte-order detector found no LittleEndian use in the dependencies (expected many, e.g. in x/crypto); the detector is broken")
	}
	r.Analysed["little_endian_uses_in_dependencies_canary"] = canary

	// P4 UintSafe does not pass through a signed type
	if fn := p.Func("data.(Integer).UintSafe"); fn != nil {
		var bad []string
		n := 0
		for _, ret := range an.NewFlow(p).OkReturns(fn) {
			n++
			v := ret.Results[0]
			// every value on the way back from the result to the receiver's bytes is unsigned: a
			// signed integer anywhere on that trail (a conversion, Int()/IntSafe()) loses values >= 2^63
			seen := map[ssa.Value]bool{}
			var walk func(x ssa.Value, d int)
			walk = func(x ssa.Value, d int) {
				if x == nil || seen[x] || d > 40 {
					return
				}
				seen[x] = true
				if bt, ok := x.Type().Underlying().(*types.Basic); ok && bt.Info()&types.IsInteger != 0 && bt.Info()&types.IsUnsigned == 0 {
					if _, isConst := x.(*ssa.Const); !isConst {
						bad = append(bad, fmt.Sprintf("success return at %s: the value passes through the signed %s %s", p.Pos(ret.Pos()), bt.Name(), x.Name()))
						return
					}
				}
				switch y := x.(type) {
				case *ssa.Convert:
					walk(y.X, d+1)
				case *ssa.ChangeType:
					walk(y.X, d+1)
				case *ssa.BinOp:
					walk(y.X, d+1)
					if y.Op != token.SHL && y.Op != token.SHR {
						walk(y.Y, d+1)
					}
				case *ssa.Phi:
					for _, e := range y.Edges {
						walk(e, d+1)
					}
				case *ssa.Extract:
					walk(y.Tuple, d+1)
				case *ssa.Call:
					callee := y.Call.StaticCallee()
					if callee != nil && an.InLib(callee) && len(callee.Blocks) > 0 {
						for _, r2 := range an.Returns(callee) {
							for _, rv := range r2.Results {
								if bt, ok := rv.Type().Underlying().(*types.Basic); ok && bt.Info()&types.IsInteger != 0 {
									walk(rv, d+1)
								}
							}
						}
					}
					// binary.BigEndian.UintN and other external decoders: unsigned by their result type
				}
			}
			walk(v, 0)
			if bt, ok := v.Type().Underlying().(*types.Basic); !ok || bt.Kind() != types.Uint64 {
				bad = append(bad, fmt.Sprintf("success return at %s is not a uint64", p.Pos(ret.Pos())))
			}
		}
		r.Check(len(bad) == 0 && n > 0, "C12.P4", "data.(Integer).UintSafe/value", p.FnPos(fn), "unsigned accessor computes its uint64 without a signed detour (no signed integer on the way from the bytes to the result)", bad...)
	} else {
		r.Fail("C12.P4: anchor data.(Integer).UintSafe not found")
	}

	// P6 narrowing conversions in package data
	nn := 0
	for _, fn := range p.RepoFns {
		if an.FnPkgPath(fn) != an.ModPath+"/data" || len(fn.Blocks) == 0 {
			continue
		}
		if f := p.Fset.Position(fn.Pos()).Filename; strings.Contains(f, "mapping") {
			continue // the mapping codec's conversions are C11's (M3)
		}
		for _, c := range narrowings(fn) {
			nn++
			key := fmt.Sprintf("%s/%s(%s)", an.FnKey(fn), intTypeName(c.Type()), intTypeName(c.X.Type()))
			// the documented wrap: signed reinterpretation of a full 64-bit value
			if isReinterpret64(c) {
				r.Ob("C12.P6", key, p.Pos(c.Pos()), an.Discharged, "same-width signed/unsigned reinterpretation (documented wrap for 8-byte values >= 2^63; outside the property's domain)")
				continue
			}
			fits, reach, err := narrowingFits(p, fn, c)
			if err != nil {
				r.Ob("C12.P6", key, p.Pos(c.Pos()), an.Undecided, "range at the conversion could not be extracted: "+err.Error())
				continue
			}
			r.Check(fits, "C12.P6", key, p.Pos(c.Pos()), "narrowing conversion is only reached with values that fit the target type", "values reaching it: "+reach.String())
		}
	}
	r.Analysed["narrowing_conversions_in_data"] = nn
}

// isReinterpret64: conversion between int/int64 and uint/uint64 (no bits lost).
func isReinterpret64(c *ssa.Convert) bool {
	w := func(t types.Type) int {
		b, ok := t.Underlying().(*types.Basic)
		if !ok {
			return 0
		}
		switch b.Kind() {
		case types.Int, types.Int64, types.Uint, types.Uint64, types.Uintptr:
			return 64
		case types.Int32, types.Uint32:
			return 32
		case types.Int16, types.Uint16:
			return 16
		case types.Int8, types.Uint8:
			return 8
		}
		return 0
	}
	return w(c.Type()) == w(c.X.Type()) && w(c.Type()) != 0
}
