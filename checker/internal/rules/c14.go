package rules

import (
	"fmt"
	"go/token"
	"go/types"
	"os"
	"sort"
	"strings"

	"golang.org/x/tools/go/ssa"

	"verif/checker/internal/an"
)

func init() { Registry["C14"] = C14 }

// carriesState: abstract argument worth exploring a callee for.
func carriesState(a an.AV, d int, objPath string) bool {
	if d > 3 {
		return false
	}
	switch a.K {
	case an.KQ, an.KQCmp, an.KQMask, an.KPtr, an.KNil:
		return true
	case an.KObj:
		// a symbolic argument matters only when the tracked quantity is its length
		return objPath != "" && a.Path == objPath
	case an.KStruct, an.KTuple:
		for _, e := range a.Elems {
			if carriesState(e, d+1, objPath) {
				return true
			}
		}
	}
	return false
}

func c14Eval(p *an.Prog, fn *ssa.Function, sel an.QSelector, dom an.IvSet, args []an.AV, store []an.AV, objPath string) ([]an.Outcome, error) {
	ev := &an.PEval{P: p, Domain: dom, Select: sel, MaxPaths: 20000, MaxSteps: 800000, LoopOK: true, MaxDepth: 10, InitStore: store, NoInlineInHavoc: true,
		Trap: func(ssa.Instruction, string, []string) {}, // a path that must panic is not an accepting path
		InlineIf: func(callee *ssa.Function, as []an.AV) bool {
			for _, a := range as {
				if carriesState(a, 0, objPath) {
					return true
				}
			}
			return false
		}}
	return ev.Run(fn, args)
}

// selLenOfParamPath selects len(x) where x is the symbolic object bound to root parameter i.
func selLenOfParamPath(i int) an.QSelector {
	path := fmt.Sprintf("p%d", i)
	return func(ev *an.PEval, v ssa.Value, args []an.AV) bool {
		c, ok := v.(*ssa.Call)
		if !ok || !isBuiltin(c, "len") {
			return false
		}
		return len(args) == 1 && args[0].K == an.KObj && args[0].Path == path
	}
}

func C14(p *an.Prog, r *an.Report) {
	r.Explanation = "For every exported type with a Validate() method and every exported constructor of that type, the inclusion reject(Validate) ⊆ reject(constructor) is decided for the quantities both can see: each integer argument, the length of each slice argument, and the nil-ness of each pointer/interface/slice argument. The constructor is evaluated path-sensitively with the quantity tracked as a set of intervals (bit-mask tests included); every abstract value it can return without error is then handed, with the remaining feasible range, to Validate, whose must-reject region inside that range has to be empty. A non-empty region names argument values the constructor accepts and its own validator rejects. Also: the EncryptedLeaseSet reader reaches its success return only through a checked Validate. Validate ⇒ clean round trip rests on C01; per-element rules (e.g. key length per key type) are outside the quantities tracked here. Integer arguments are additionally evaluated with each pointer/interface argument fixed to nil and non-nil. N4: every conversion of a length-derived integer to a narrower unsigned type reachable from the exported API fits its target (relational proof with caller pre-conditions and field-length invariants). N5: trailing signature type source. N6: the size invariant behind the reviewed Mapping.Data narrowing (C11.M3). N7 = C10.T4. N8: no successful return of a validator is reachable when a declared length differs from len(data). N9 = C01.R9."
	r.Rule = "one obligation per (constructor, argument quantity); non-trivial = the constructor has a success path for some value of the quantity"
	r.Trusted = []string{"go/ssa; opaque treatment of callees that receive only unknown arguments"}

	type pair struct {
		T        *types.Named
		validate *ssa.Function
		ctors    []*ssa.Function
	}
	var pairs []pair
	for _, pk := range p.LibPkgs {
		scope := pk.Types.Scope()
		for _, name := range scope.Names() {
			tn, ok := scope.Lookup(name).(*types.TypeName)
			if !ok || !tn.Exported() {
				continue
			}
			named, ok := tn.Type().(*types.Named)
			if !ok {
				continue
			}
			var v *ssa.Function
			for _, T := range []types.Type{named, types.NewPointer(named)} {
				ms := p.SSA.MethodSets.MethodSet(T)
				for i := 0; i < ms.Len(); i++ {
					sel := ms.At(i)
					if sel.Obj().Name() != "Validate" || len(sel.Index()) > 1 {
						continue
					}
					sig := sel.Obj().Type().(*types.Signature)
					if sig.Params().Len() == 0 && sig.Results().Len() == 1 && isErrorType(sig.Results().At(0).Type()) {
						v = p.SSA.MethodValue(sel)
					}
				}
			}
			if v == nil || len(v.Blocks) == 0 {
				continue
			}
			pr := pair{T: named, validate: v}
			sp := p.SSA.Package(pk.Types)
			var fnames []string
			for n, m := range sp.Members {
				if _, ok := m.(*ssa.Function); ok {
					fnames = append(fnames, n)
				}
			}
			sort.Strings(fnames)
			for _, n := range fnames {
				f := sp.Members[n].(*ssa.Function)
				if !tn.Exported() || len(f.Blocks) == 0 || f.Signature.Recv() != nil || !strings.HasPrefix(n, "New") {
					continue
				}
				res := f.Signature.Results()
				if res.Len() != 2 || !isErrorType(res.At(1).Type()) {
					continue
				}
				if rp, rn := an.NamedOf(res.At(0).Type()); rp != pk.PkgPath || rn != name {
					continue
				}
				if len(f.Params) > 0 && f.Params[0].Type().String() == "[]byte" && len(f.Params) == 1 {
					continue // parser-style constructor
				}
				pr.ctors = append(pr.ctors, f)
			}
			if len(pr.ctors) > 0 {
				pairs = append(pairs, pr)
			}
		}
	}
	nct := 0
	for _, pr := range pairs {
		nct += len(pr.ctors)
	}
	r.Floor("types_with_constructor_and_Validate", len(pairs), 8)
	r.Analysed["constructors"] = nct

	for _, pr := range pairs {
		for _, c := range pr.ctors {
			c14Ctor(p, r, pr.T, c, pr.validate)
		}
	}
	c14ReaderValidates(p, r)
	c14LengthNarrowing(p, r, "C14.N4")
	// N9: a parsed list keeps distinct elements (same rule as C01.R9): otherwise a value that
	// validates is not the value that was serialised
	c01DistinctElements(p, r, "C14.N9")
	// N8: declared length fields agree with their data in everything the validators accept
	c14LenFieldPairs(p, r, "C14.N8")
	// N7: the key-length-vs-type validators size public keys by public-key columns (same rule as C10.T4)
	c10PrivateColumns(p, r, "C14.N7")
	// N6: the invariant the reviewed narrowing in Mapping.Data rests on (same rule as C11.M3)
	if vtm := p.Func("data.ValuesToMapping"); vtm != nil {
		c11SizeLimit(p, r, vtm, "C14.N6")
	} else {
		r.Fail("C14.N6: data.ValuesToMapping not found (the size invariant behind the reviewed narrowing cannot be checked)")
	}
	c02SigTypeSource(p, r, "C14.N5") // round trip with an empty remainder needs the trailing signature typed as the parser expects
}

type c14Quantity struct {
	obj   string // symbolic object whose length is tracked ("" otherwise)
	label string
	sel   an.QSelector
	dom   an.IvSet
	args  func() []an.AV
	nilOf int // >=0: nil-ness run for this parameter
}

func c14Ctor(p *an.Prog, r *an.Report, T *types.Named, c, v *ssa.Function) {
	var qs []c14Quantity
	for i, prm := range c.Params {
		i, prm := i, prm
		switch u := prm.Type().Underlying().(type) {
		case *types.Basic:
			if u.Info()&types.IsInteger != 0 {
				dom, _ := typeRangeOf(prm.Type())
				qs = append(qs, c14Quantity{label: prm.Name(), sel: selParam(c, i), dom: dom, args: func() []an.AV { return rootArgs(c) }, nilOf: -1})
			}
		case *types.Slice:
			qs = append(qs, c14Quantity{obj: fmt.Sprintf("p%d", i), label: "len(" + prm.Name() + ")", sel: selLenOfParamPath(i), dom: an.IvRange(0, an.PosInf), args: func() []an.AV { return rootArgs(c) }, nilOf: -1})
			qs = append(qs, c14Quantity{label: prm.Name() + "==nil", nilOf: i})
		case *types.Pointer, *types.Interface, *types.Map:
			_ = u
			qs = append(qs, c14Quantity{label: prm.Name() + "==nil", nilOf: i})
		}
	}
	// an integer argument (flags, counts) is additionally evaluated with each pointer/interface
	// argument fixed to nil and to non-nil: rules of the form "flag bit set <=> optional part present"
	// involve both
	var combos []c14Quantity
	for _, q := range qs {
		if q.nilOf >= 0 || q.obj != "" {
			continue
		}
		for j, prm := range c.Params {
			j := j
			switch prm.Type().Underlying().(type) {
			case *types.Pointer, *types.Interface:
			default:
				continue
			}
			base := q
			for _, st := range []struct {
				av  an.AV
				tag string
			}{{an.AV{K: an.KNil}, "==nil"}, {an.AV{K: an.KNonNil, Tag: "arg"}, "!=nil"}} {
				st := st
				nq := base
				nq.label = base.label + " with " + prm.Name() + st.tag
				nq.args = func() []an.AV {
					a := rootArgs(c)
					a[j] = st.av
					return a
				}
				combos = append(combos, nq)
			}
		}
	}
	qs = append(qs, combos...)
	vRecvPtr := false
	if len(v.Params) > 0 {
		_, vRecvPtr = v.Params[0].Type().Underlying().(*types.Pointer)
	}
	baseRejected := map[string]an.IvSet{}
	for _, q := range qs {
		key := an.FnKey(c) + "/" + q.label
		pos := p.FnPos(c)
		var outs []an.Outcome
		var err error
		dom := an.IvAll()
		if q.nilOf >= 0 {
			args := rootArgs(c)
			args[q.nilOf] = an.AV{K: an.KNil}
			outs, err = c14Eval(p, c, nil, dom, args, nil, "")
		} else {
			dom = q.dom
			outs, err = c14Eval(p, c, q.sel, dom, q.args(), nil, q.obj)
		}
		if err != nil {
			r.Ob("C14.N1", key, pos, an.Undecided, "constructor could not be evaluated: "+err.Error())
			continue
		}
		var rejected an.IvSet
		nsucc := 0
		mustFailNil := true
		var undec string
		seenOut := map[string]bool{}
		for _, o := range outs {
			if o.Panic || o.ErrIs(1) == 2 || len(o.Results) == 0 {
				continue
			}
			res := o.Results[0]
			// distinct (range, value shape) combinations only
			sig := o.Q.String() + "|" + shapeSig(res, c.Signature.Results().At(0).Type(), o.Store, 0)
			if seenOut[sig] {
				continue
			}
			seenOut[sig] = true
			if len(seenOut) > capFor(48, 400) {
				undec = fmt.Sprintf("more than %d distinct constructor results", capFor(48, 400))
				break
			}
			var recv an.AV
			store := append([]an.AV(nil), o.Store...)
			switch {
			case res.K == an.KPtr:
				if vRecvPtr {
					recv = res
				} else if lv, ok := an.LoadCell(store, res); ok {
					recv = lv
				}
			case res.K == an.KStruct:
				if vRecvPtr {
					store = append(store, res)
					recv = an.PtrToCell(len(store) - 1)
				} else {
					recv = res
				}
			default:
				continue // result not tracked (e.g. produced by an opaque callee)
			}
			nsucc++
			vouts, verr := c14Eval(p, v, q.sel, o.Q, []an.AV{recv}, store, q.obj)
			if verr != nil {
				undec = verr.Error()
				continue
			}
			if os.Getenv("C14DEBUG") != "" && strings.Contains(key, os.Getenv("C14DEBUG")) {
				fmt.Println("DEBUG ctor outcome", p.Pos(o.RetPos), o.Results[1].String(), o.Q, shapeSig(res, c.Signature.Results().At(0).Type(), o.Store, 0), strings.Join(o.Trail, " "))
				for _, vo := range vouts {
					fmt.Println("   V:", vo.Q, vo.Panic, vo.Results, strings.Join(vo.Trail, " "))
				}
			}
			must, _, none := an.RegionWhere(o.Q, vouts, func(vo an.Outcome) bool { return !vo.Panic && vo.ErrIs(0) == 2 })
			_ = none
			rejected = rejected.Union(must)
			if q.nilOf >= 0 {
				all := len(vouts) > 0
				for _, vo := range vouts {
					if vo.Panic || vo.ErrIs(0) != 2 {
						all = false
					}
				}
				if !all {
					mustFailNil = false
				}
			}
		}
		if undec != "" {
			r.Ob("C14.N1", key, pos, an.Undecided, "Validate could not be evaluated on a constructor result: "+undec)
			continue
		}
		if q.nilOf >= 0 {
			if nsucc == 0 {
				r.Ob("C14.N2", key, pos, an.Discharged, "constructor rejects a nil "+c.Params[q.nilOf].Name()+" (or its result is not tracked)").Nontrivial = false
				continue
			}
			what := "a value built with nil " + c.Params[q.nilOf].Name() + " is not always rejected by Validate"
			if mustFailNil {
				what = "constructor accepts nil " + c.Params[q.nilOf].Name() + " but Validate() rejects every value it builds from it"
			}
			r.Check(!mustFailNil, "C14.N2", key, pos, what, fmt.Sprintf("%d success paths of the constructor with this argument nil", nsucc))
			continue
		}
		// a combination only adds what the argument alone does not already show
		if i := strings.Index(q.label, " with "); i >= 0 {
			rejected = rejected.Minus(baseRejected[q.label[:i]])
		} else {
			baseRejected[q.label] = rejected
		}
		what := "every value of " + q.label + " the constructor accepts is accepted by Validate()"
		if !rejected.Empty() {
			what = fmt.Sprintf("constructor accepts %s ∈ %s but Validate() rejects it", q.label, rejected)
		}
		o := r.Check(rejected.Empty(), "C14.N1", key, pos, what, fmt.Sprintf("%d success paths of the constructor explored", nsucc))
		o.Nontrivial = nsucc > 0
	}
}

// c14ReaderValidates: ReadEncryptedLeaseSet succeeds only through a checked Validate().
func c14ReaderValidates(p *an.Prog, r *an.Report) {
	fn := p.Func("encrypted_leaseset.ReadEncryptedLeaseSet")
	if fn == nil {
		r.Fail("C14.N3: anchor encrypted_leaseset.ReadEncryptedLeaseSet not found")
		return
	}
	isValidate := func(c ssa.CallInstruction) bool {
		f := c.Common().StaticCallee()
		return f != nil && f.Name() == "Validate" && f.Signature.Recv() != nil && an.IsLibNamed(f.Signature.Recv().Type(), "encrypted_leaseset", "EncryptedLeaseSet")
	}
	relevant := reachesAnyCall(p, isValidate)
	for _, mode := range []string{"fail", "ok"} {
		mode := mode
		ev := &an.PEval{P: p, MaxPaths: 50000, MaxSteps: 1500000, LoopOK: true, MaxDepth: 6,
			Inline: func(f *ssa.Function) bool { return an.InLib(f) && relevant[f] && len(f.Blocks) > 0 && !isValidateFn(f) },
			OnCall: func(ev *an.PEval, call *ssa.Call, callee *ssa.Function, args []an.AV) (an.AV, bool) {
				if isValidate(call) {
					ev.Note("validate")
					if mode == "fail" {
						return an.AV{K: an.KNonNil}, true
					}
					return an.AV{K: an.KNil}, true
				}
				return an.AV{}, false
			}}
		outs, err := ev.Run(fn, rootArgs(fn))
		if err != nil {
			r.Ob("C14.N3", "ReadEncryptedLeaseSet/validate-"+mode, p.FnPos(fn), an.Undecided, err.Error())
			continue
		}
		ei := an.ErrIndex(fn)
		succ, without := 0, 0
		for _, o := range outs {
			if !o.Panic && o.ErrIs(ei) != 2 {
				succ++
				if !o.HasNote("validate") {
					without++
				}
			}
		}
		if mode == "fail" {
			r.Check(succ == 0, "C14.N3", "ReadEncryptedLeaseSet/validate-fail", p.FnPos(fn), "the reader fails whenever Validate() fails", fmt.Sprintf("%d paths, %d succeed", len(outs), succ))
		} else {
			r.Check(succ > 0 && without == 0, "C14.N3", "ReadEncryptedLeaseSet/validate-ok", p.FnPos(fn), "every success path of the reader called Validate()", fmt.Sprintf("%d success paths, %d without Validate", succ, without))
		}
	}
}

func isValidateFn(f *ssa.Function) bool {
	return f.Name() == "Validate" && f.Signature.Recv() != nil
}

// c14LengthNarrowing (N4): a length that is written into a fixed-width wire field must fit that
// field: every conversion of a length-derived integer to a narrower unsigned type in the
// constructors/serializers (functions reachable from the exported API without key-object
// parameters) is proved to be within the target range (relational bounds engine, with caller
// pre-conditions). A constructor that stores uint16(len(data)) without bounding len(data) builds a
// value that passes Validate() (which truncates the same way) but cannot round-trip.
func c14LengthNarrowing(p *an.Prog, r *an.Report, rule string) {
	b := an.NewBounds(p)
	b.Axioms = c04IntAxiom
	if os.Getenv("C14DEBUG") != "" {
		b.Debug = func(m string) { fmt.Fprintln(os.Stderr, "DEBUG", m) }
	}
	roots, _ := c04Roots(p)
	// constructors with key-object parameters matter here too: the length they narrow is the caller's data
	for _, fn := range p.ExportedAPI() {
		if len(fn.Blocks) > 0 && fn.Synthetic == "" {
			roots = append(roots, fn)
		}
	}
	scope := p.Reachable(p.CG(), roots, func(f *ssa.Function) bool { return an.InLib(f) })
	isRoot := map[*ssa.Function]bool{}
	for _, f := range roots {
		isRoot[f] = true
	}
	b.IsEntry = func(f *ssa.Function) bool { return isRoot[f] }
	b.InScope = func(f *ssa.Function) bool { _, ok := scope[f]; return ok }
	var fns []*ssa.Function
	for f := range scope {
		if an.InLib(f) {
			fns = append(fns, f)
		}
	}
	sort.Slice(fns, func(i, j int) bool { return an.FnKey(fns[i]) < an.FnKey(fns[j]) })
	n := 0
	usedRev := map[string]int{}
	for _, fn := range fns {
		k := 0
		for _, blk := range fn.Blocks {
			for _, in := range blk.Instrs {
				cv, ok := in.(*ssa.Convert)
				if !ok || an.IsLogPlumbing(in) {
					continue
				}
				dlo, dhi, ok1 := typeRangeInt64(cv.Type())
				_, shi, ok2 := typeRangeInt64(cv.X.Type())
				if !ok1 || !ok2 || dlo != 0 || shi <= dhi {
					continue // not a narrowing to an unsigned type
				}
				l := b.LinOf(cv.X)
				lengthDerived := false
				for t := range l.T {
					if t.Len {
						lengthDerived = true
					}
				}
				if !lengthDerived || onlyFeedsLogging(cv) {
					continue
				}
				n++
				k++
				pr := b.ProveAt(cv, an.LinConst(dhi).Add(l, -1))
				if rev, ok := c14NarrowReviewed[an.ShortPkg(an.FnPkgPath(fn))+"|"+cv.Type().String()+"|"+an.ShapeOf(l)]; ok && !pr.OK && usedRev[rev.reason] < rev.n {
					usedRev[rev.reason]++
					o := r.Ob(rule+"r", fmt.Sprintf("%s/narrow%d", an.FnKey(fn), k), p.Pos(cv.Pos()), an.Discharged, "not decided by the prover — reviewed: "+rev.reason, append([]string{"value " + l.String()}, pr.Trail...)...)
					o.Nontrivial = false
					continue
				}
				r.Check(pr.OK, rule, fmt.Sprintf("%s/narrow%d", an.FnKey(fn), k), p.Pos(cv.Pos()),
					fmt.Sprintf("the length narrowed to %s fits (<= %d) on every path", cv.Type().String(), dhi), append([]string{"value " + l.String()}, pr.Trail...)...)
			}
		}
	}
	r.Analysed["length narrowings"] = n
}

// c14NarrowReviewed: narrowings whose fit rests on a data invariant the per-function prover cannot
// see; the allowance is per function and frozen.
var c14NarrowReviewed = map[string]struct {
	n      int
	reason string
}{
	"data|uint16|+1*len([]byte from a library call()) +0 >= 0": {1, "Mapping.Data: uint16(len(payload)): a Mapping's pairs total at most 65,535 bytes because ValuesToMapping rejects larger sets (C11.M3) and ReadMapping takes them from a 2-byte size field; an invariant across constructors, not visible inside Data()"},
}

func typeRangeInt64(t types.Type) (lo, hi int64, ok bool) {
	bt, isB := t.Underlying().(*types.Basic)
	if !isB {
		return 0, 0, false
	}
	switch bt.Kind() {
	case types.Int8:
		return -128, 127, true
	case types.Int16:
		return -32768, 32767, true
	case types.Int32:
		return -1 << 31, 1<<31 - 1, true
	case types.Int, types.Int64:
		return an.NegInf, an.PosInf, true
	case types.Uint8:
		return 0, 255, true
	case types.Uint16:
		return 0, 65535, true
	case types.Uint32:
		return 0, 1<<32 - 1, true
	case types.Uint, types.Uint64, types.Uintptr:
		return 0, an.PosInf, true
	}
	return 0, 0, false
}

// onlyFeedsLogging: every use of the converted value is log plumbing (field maps, formatting).
func onlyFeedsLogging(v ssa.Value) bool {
	refs := v.Referrers()
	if refs == nil || len(*refs) == 0 {
		return true
	}
	for _, ref := range *refs {
		if _, ok := ref.(*ssa.DebugRef); ok {
			continue
		}
		if an.IsLogPlumbing(ref) {
			continue
		}
		if mi, ok := ref.(*ssa.MakeInterface); ok {
			all := true
			for _, r2 := range *mi.Referrers() {
				if !an.IsLogPlumbing(r2) {
					all = false
				}
			}
			if all {
				continue
			}
		}
		return false
	}
	return true
}

// narrowArith: every +, -, *, << whose result type is an integer narrower than 64 bits, in the
// library functions reachable from the exported API, cannot wrap: with a and b the exact values of
// the operands, the exact result lies in the type's range on every path (E11). Arithmetic on wire
// lengths and counts in uint8/uint16 wraps silently otherwise (2+2+keyLen for keyLen >= 65532,
// count*44 in a byte), and the wrapped value then passes the very bounds check it was computed for.
// Operations whose operands are both constants, bit masks and bytes being assembled into wider
// words (x<<8 | y on the same width after a conversion) are not arithmetic on quantities and are
// skipped when every operand is a conversion from a narrower type or a constant.
func narrowArith(p *an.Prog, r *an.Report, rule string, filter func(*ssa.Function) bool) int {
	b := an.NewBounds(p)
	b.Axioms = c04IntAxiom
	roots, _ := c04Roots(p)
	for _, fn := range p.ExportedAPI() {
		if len(fn.Blocks) > 0 && fn.Synthetic == "" {
			roots = append(roots, fn)
		}
	}
	scope := p.Reachable(p.CG(), roots, func(f *ssa.Function) bool { return an.InLib(f) })
	isRoot := map[*ssa.Function]bool{}
	for _, f := range roots {
		isRoot[f] = true
	}
	b.IsEntry = func(f *ssa.Function) bool { return isRoot[f] }
	b.InScope = func(f *ssa.Function) bool { _, ok := scope[f]; return ok }
	var fns []*ssa.Function
	for f := range scope {
		if an.InLib(f) && (filter == nil || filter(f)) {
			fns = append(fns, f)
		}
	}
	sort.Slice(fns, func(i, j int) bool { return an.FnKey(fns[i]) < an.FnKey(fns[j]) })
	widening := func(v ssa.Value, to types.Type) bool {
		switch x := v.(type) {
		case *ssa.Const:
			return true
		case *ssa.Convert:
			_, shi, ok1 := typeRangeInt64(x.X.Type())
			_, dhi, ok2 := typeRangeInt64(to)
			return ok1 && ok2 && shi < dhi
		}
		return false
	}
	n := 0
	for _, fn := range fns {
		k := 0
		for _, blk := range fn.Blocks {
			for _, in := range blk.Instrs {
				bo, ok := in.(*ssa.BinOp)
				if !ok || an.IsLogPlumbing(in) {
					continue
				}
				if bo.Op != token.ADD && bo.Op != token.SUB && bo.Op != token.MUL && bo.Op != token.SHL {
					continue
				}
				lo, hi, ok := typeRangeInt64(bo.Type())
				if !ok || hi == an.PosInf || hi >= 1<<62 {
					continue // 64-bit: lengths cannot reach the limit
				}
				if _, cx := bo.X.(*ssa.Const); cx {
					if _, cy := bo.Y.(*ssa.Const); cy {
						continue
					}
				}
				if bo.Op == token.SHL && widening(bo.X, bo.Type()) {
					continue // assembling a wider word from narrower pieces
				}
				if bo.Op == token.MUL && widening(bo.X, bo.Type()) && widening(bo.Y, bo.Type()) {
					// product of two narrower values: check it anyway (byte*byte fits uint16, but
					// uint16*uint16 does not fit uint32) — fall through
				}
				lx, ly := b.LinOf(bo.X), b.LinOf(bo.Y)
				var exact an.Lin
				switch bo.Op {
				case token.ADD:
					exact = lx.Add(ly, 1)
				case token.SUB:
					exact = lx.Add(ly, -1)
				case token.MUL:
					switch {
					case ly.IsConst():
						exact = lx.Scale(ly.C)
					case lx.IsConst():
						exact = ly.Scale(lx.C)
					default:
						continue // product of two unknowns: outside linear arithmetic, not decided
					}
				case token.SHL:
					if !ly.IsConst() || ly.C < 0 || ly.C > 30 {
						continue
					}
					exact = lx.Scale(int64(1) << uint(ly.C))
				}
				n++
				k++
				up := b.ProveAt(bo, an.LinConst(hi).Add(exact, -1))
				dn := b.ProveAt(bo, exact.Add(an.LinConst(lo), -1))
				var trail []string
				if !up.OK {
					trail = append(trail, "upper: "+strings.Join(up.Trail, " <- "))
				}
				if !dn.OK {
					trail = append(trail, "lower: "+strings.Join(dn.Trail, " <- "))
				}
				r.Check(up.OK && dn.OK, rule, fmt.Sprintf("%s/arith%d", an.FnKey(fn), k), p.Pos(bo.Pos()),
					fmt.Sprintf("%s arithmetic %s cannot wrap: the exact result stays in [%d, %d] on every path", bo.Type().String(), bo.Op, lo, hi),
					append([]string{"exact result " + exact.String()}, trail...)...)
			}
		}
	}
	r.Analysed["narrow-width arithmetic operations ("+rule+")"] = n
	// the library today has (almost) no such operation: make sure the detector still sees them
	// where they certainly exist (dependencies)
	canary := 0
	for fn := range p.All {
		if an.InLib(fn) || canary > 50 {
			continue
		}
		for _, blk := range fn.Blocks {
			for _, in := range blk.Instrs {
				if bo, ok := in.(*ssa.BinOp); ok && (bo.Op == token.ADD || bo.Op == token.MUL) {
					if _, hi, ok := typeRangeInt64(bo.Type()); ok && hi != an.PosInf && hi < 1<<62 {
						canary++
					}
				}
			}
		}
	}
	if canary == 0 {
		r.Fail("%s canary: no narrow-width arithmetic found in the dependencies either: the detector is broken", rule)
	}
	if n == 0 {
		r.Ob(rule, "narrow-arithmetic/none", "-", an.Discharged, fmt.Sprintf("no +,-,*,<< in an integer type narrower than 64 bits on any API path (%d functions scanned; the detector sees such operations in the dependencies)", len(fns))).Nontrivial = false
	}
	return n
}

// c14LenFieldPairs (N8): where a structure stores a declared length next to the bytes it describes
// and the serializer writes both, the validator accepts the value only if they agree: assuming
// declared != len(data) (either direction), no return of the validator that may succeed is
// reachable (E11 path refutation). Otherwise a validated value serialises to bytes whose length
// field lies about what follows, and does not parse back. The pairs are a frozen table confirmed by
// reading the serializers.
var c14LenPairs = []struct{ root, typ, lenField, dataField string }{
	{"lease_set2.(*LeaseSet2).Validate", "EncryptionKey", "KeyLen", "KeyData"},
	{"encrypted_leaseset.(*EncryptedLeaseSet).Validate", "EncryptedLeaseSet", "innerLength", "encryptedInnerData"},
}

func c14LenFieldPairs(p *an.Prog, r *an.Report, rule string) {
	b := an.NewBounds(p)
	for _, lp := range c14LenPairs {
		root := p.Func(lp.root)
		key := lp.typ + "." + lp.lenField + "~" + lp.dataField
		if root == nil {
			r.Ob(rule, key, "-", an.Undecided, "validator "+lp.root+" not found: the declared-length rule must be re-anchored")
			continue
		}
		// the function in Validate's closure (same package) that reads both fields of its subject
		var cands []*ssa.Function
		for f := range libClosure(p, root) {
			if an.FnPkgPath(f) == an.FnPkgPath(root) && len(f.Blocks) > 0 {
				cands = append(cands, f)
			}
		}
		sort.Slice(cands, func(i, j int) bool { return an.FnKey(cands[i]) < an.FnKey(cands[j]) })
		checked := 0
		for _, fn := range cands {
			if c14LenPairIn(p, r, b, rule, key, fn, lp.typ, lp.lenField, lp.dataField) {
				checked++
			}
		}
		if checked == 0 {
			r.Ob(rule, key, p.FnPos(root), an.Violated, fmt.Sprintf("nothing reachable from %s compares %s with len(%s): a value whose declared length disagrees with its data is not rejected", lp.root, lp.lenField, lp.dataField))
		}
	}
}

// c14LenPairIn checks one function; false when the function does not read both fields.
func c14LenPairIn(p *an.Prog, r *an.Report, b *an.Bounds, rule, key string, fn *ssa.Function, typ, lenField, dataField string) bool {
	lp := struct{ typ, lenField, dataField, validator string }{typ, lenField, dataField, an.FnKey(fn)}
	{
		// the values that read the two fields of the validator's own subject
		var lv, dv ssa.Value
		isSubject := func(base ssa.Value) bool {
			for {
				switch x := base.(type) {
				case *ssa.Parameter:
					_, name := an.NamedOf(an.Deref(x.Type()))
					return name == lp.typ
				case *ssa.UnOp:
					base = x.X
				case *ssa.Alloc:
					// a by-value parameter spilled to a local
					for _, ref := range *x.Referrers() {
						if st, ok := ref.(*ssa.Store); ok && st.Addr == ssa.Value(x) {
							if prm, ok := st.Val.(*ssa.Parameter); ok {
								_, name := an.NamedOf(an.Deref(prm.Type()))
								return name == lp.typ
							}
						}
					}
					return false
				default:
					return false
				}
			}
		}
		for _, blk := range fn.Blocks {
			for _, in := range blk.Instrs {
				var base ssa.Value
				var t types.Type
				idx := -1
				var val ssa.Value
				switch x := in.(type) {
				case *ssa.Field:
					base, t, idx, val = x.X, x.X.Type(), x.Field, x
				case *ssa.UnOp:
					if fa, ok := x.X.(*ssa.FieldAddr); ok && x.Op == token.MUL {
						base, t, idx, val = fa.X, an.Deref(fa.X.Type()), fa.Field, x
					}
				}
				if idx < 0 || !isSubject(base) {
					continue
				}
				st, ok := t.Underlying().(*types.Struct)
				if !ok || idx >= st.NumFields() {
					continue
				}
				switch st.Field(idx).Name() {
				case lp.lenField:
					if lv == nil {
						lv = val
					}
				case lp.dataField:
					if dv == nil {
						dv = val
					}
				}
			}
		}
		if lv == nil || dv == nil {
			return false
		}
		declared, actual := b.LinOf(lv), b.LenOf(dv)
		over := b.OkFeasible(fn, []an.Fact{{L: declared.Add(actual, -1).Add(an.LinConst(1), -1), Why: "declared > len(data)"}})
		under := b.OkFeasible(fn, []an.Fact{{L: actual.Add(declared, -1).Add(an.LinConst(1), -1), Why: "declared < len(data)"}})
		var facts []string
		if over {
			facts = append(facts, "a success return is reachable with "+lp.lenField+" > len("+lp.dataField+")")
		}
		if under {
			facts = append(facts, "a success return is reachable with "+lp.lenField+" < len("+lp.dataField+")")
		}
		r.Check(!over && !under, rule, key+"/"+an.FnKey(fn), p.FnPos(fn), fmt.Sprintf("%s accepts only values whose %s equals len(%s)", lp.validator, lp.lenField, lp.dataField), facts...)
	}
	return true
}
