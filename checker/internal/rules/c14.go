package rules

import (
	"fmt"
	"os"
	"go/types"
	"sort"
	"strings"

	"golang.org/x/tools/go/ssa"

	"verif/checker/internal/an"
)

func init() { Registry["C14"] = C14 }

// carriesState: abstract argument worth exploring a callee for.
func carriesState(a an.AV, d int, objPath string) bool {
	if d > 3 {
		return false
	}
	switch a.K {
	case an.KQ, an.KQCmp, an.KQMask, an.KPtr, an.KNil:
		return true
	case an.KObj:
		// a symbolic argument matters only when the tracked quantity is its length
		return objPath != "" && a.Path == objPath
	case an.KStruct, an.KTuple:
		for _, e := range a.Elems {
			if carriesState(e, d+1, objPath) {
				return true
			}
		}
	}
	return false
}

func c14Eval(p *an.Prog, fn *ssa.Function, sel an.QSelector, dom an.IvSet, args []an.AV, store []an.AV, objPath string) ([]an.Outcome, error) {
	ev := &an.PEval{P: p, Domain: dom, Select: sel, MaxPaths: 20000, MaxSteps: 800000, LoopOK: true, MaxDepth: 10, InitStore: store, NoInlineInHavoc: true,
		Trap: func(ssa.Instruction, string, []string) {}, // a path that must panic is not an accepting path
		InlineIf: func(callee *ssa.Function, as []an.AV) bool {
			for _, a := range as {
				if carriesState(a, 0, objPath) {
					return true
				}
			}
			return false
		}}
	return ev.Run(fn, args)
}

// selLenOfParamPath selects len(x) where x is the symbolic object bound to root parameter i.
func selLenOfParamPath(i int) an.QSelector {
	path := fmt.Sprintf("p%d", i)
	return func(ev *an.PEval, v ssa.Value, args []an.AV) bool {
		c, ok := v.(*ssa.Call)
		if !ok || !isBuiltin(c, "len") {
			return false
		}
		return len(args) == 1 && args[0].K == an.KObj && args[0].Path == path
	}
}

func C14(p *an.Prog, r *an.Report) {
	r.Explanation = "For every exported type with a Validate() method and every exported constructor of that type, the inclusion reject(Validate) ⊆ reject(constructor) is decided for the quantities both can see: each integer argument, the length of each slice argument, and the nil-ness of each pointer/interface/slice argument. The constructor is evaluated path-sensitively with the quantity tracked as a set of intervals (bit-mask tests included); every abstract value it can return without error is then handed, with the remaining feasible range, to Validate, whose must-reject region inside that range has to be empty. A non-empty region names argument values the constructor accepts and its own validator rejects. Also: the EncryptedLeaseSet reader reaches its success return only through a checked Validate. Validate ⇒ clean round trip rests on C01; per-element rules (e.g. key length per key type) are outside the quantities tracked here. Integer arguments are additionally evaluated with each pointer/interface argument fixed to nil and non-nil. N4: every conversion of a length-derived integer to a narrower unsigned type reachable from the exported API fits its target (relational proof with caller pre-conditions and field-length invariants). N5: trailing signature type source."
	r.Rule = "one obligation per (constructor, argument quantity); non-trivial = the constructor has a success path for some value of the quantity"
	r.Trusted = []string{"go/ssa; opaque treatment of callees that receive only unknown arguments"}

	type pair struct {
		T        *types.Named
		validate *ssa.Function
		ctors    []*ssa.Function
	}
	var pairs []pair
	for _, pk := range p.LibPkgs {
		scope := pk.Types.Scope()
		for _, name := range scope.Names() {
			tn, ok := scope.Lookup(name).(*types.TypeName)
			if !ok || !tn.Exported() {
				continue
			}
			named, ok := tn.Type().(*types.Named)
			if !ok {
				continue
			}
			var v *ssa.Function
			for _, T := range []types.Type{named, types.NewPointer(named)} {
				ms := p.SSA.MethodSets.MethodSet(T)
				for i := 0; i < ms.Len(); i++ {
					sel := ms.At(i)
					if sel.Obj().Name() != "Validate" || len(sel.Index()) > 1 {
						continue
					}
					sig := sel.Obj().Type().(*types.Signature)
					if sig.Params().Len() == 0 && sig.Results().Len() == 1 && isErrorType(sig.Results().At(0).Type()) {
						v = p.SSA.MethodValue(sel)
					}
				}
			}
			if v == nil || len(v.Blocks) == 0 {
				continue
			}
			pr := pair{T: named, validate: v}
			sp := p.SSA.Package(pk.Types)
			var fnames []string
			for n, m := range sp.Members {
				if _, ok := m.(*ssa.Function); ok {
					fnames = append(fnames, n)
				}
			}
			sort.Strings(fnames)
			for _, n := range fnames {
				f := sp.Members[n].(*ssa.Function)
				if !tn.Exported() || len(f.Blocks) == 0 || f.Signature.Recv() != nil || !strings.HasPrefix(n, "New") {
					continue
				}
				res := f.Signature.Results()
				if res.Len() != 2 || !isErrorType(res.At(1).Type()) {
					continue
				}
				if rp, rn := an.NamedOf(res.At(0).Type()); rp != pk.PkgPath || rn != name {
					continue
				}
				if len(f.Params) > 0 && f.Params[0].Type().String() == "[]byte" && len(f.Params) == 1 {
					continue // parser-style constructor
				}
				pr.ctors = append(pr.ctors, f)
			}
			if len(pr.ctors) > 0 {
				pairs = append(pairs, pr)
			}
		}
	}
	nct := 0
	for _, pr := range pairs {
		nct += len(pr.ctors)
	}
	r.Floor("types_with_constructor_and_Validate", len(pairs), 8)
	r.Analysed["constructors"] = nct

	for _, pr := range pairs {
		for _, c := range pr.ctors {
			c14Ctor(p, r, pr.T, c, pr.validate)
		}
	}
	c14ReaderValidates(p, r)
	c14LengthNarrowing(p, r, "C14.N4")
	// N7: the key-length-vs-type validators size public keys by public-key columns (same rule as C10.T4)
	c10PrivateColumns(p, r, "C14.N7")
	// N6: the invariant the reviewed narrowing in Mapping.Data rests on (same rule as C11.M3)
	if vtm := p.Func("data.ValuesToMapping"); vtm != nil {
		c11SizeLimit(p, r, vtm, "C14.N6")
	} else {
		r.Fail("C14.N6: data.ValuesToMapping not found (the size invariant behind the reviewed narrowing cannot be checked)")
	}
	c02SigTypeSource(p, r, "C14.N5") // round trip with an empty remainder needs the trailing signature typed as the parser expects
}

type c14Quantity struct {
	obj   string // symbolic object whose length is tracked ("" otherwise)
	label string
	sel   an.QSelector
	dom   an.IvSet
	args  func() []an.AV
	nilOf int // >=0: nil-ness run for this parameter
}

func c14Ctor(p *an.Prog, r *an.Report, T *types.Named, c, v *ssa.Function) {
	var qs []c14Quantity
	for i, prm := range c.Params {
		i, prm := i, prm
		switch u := prm.Type().Underlying().(type) {
		case *types.Basic:
			if u.Info()&types.IsInteger != 0 {
				dom, _ := typeRangeOf(prm.Type())
				qs = append(qs, c14Quantity{label: prm.Name(), sel: selParam(c, i), dom: dom, args: func() []an.AV { return rootArgs(c) }, nilOf: -1})
			}
		case *types.Slice:
			qs = append(qs, c14Quantity{obj: fmt.Sprintf("p%d", i), label: "len(" + prm.Name() + ")", sel: selLenOfParamPath(i), dom: an.IvRange(0, an.PosInf), args: func() []an.AV { return rootArgs(c) }, nilOf: -1})
			qs = append(qs, c14Quantity{label: prm.Name() + "==nil", nilOf: i})
		case *types.Pointer, *types.Interface, *types.Map:
			_ = u
			qs = append(qs, c14Quantity{label: prm.Name() + "==nil", nilOf: i})
		}
	}
	// an integer argument (flags, counts) is additionally evaluated with each pointer/interface
	// argument fixed to nil and to non-nil: rules of the form "flag bit set <=> optional part present"
	// involve both
	var combos []c14Quantity
	for _, q := range qs {
		if q.nilOf >= 0 || q.obj != "" {
			continue
		}
		for j, prm := range c.Params {
			j := j
			switch prm.Type().Underlying().(type) {
			case *types.Pointer, *types.Interface:
			default:
				continue
			}
			base := q
			for _, st := range []struct {
				av  an.AV
				tag string
			}{{an.AV{K: an.KNil}, "==nil"}, {an.AV{K: an.KNonNil, Tag: "arg"}, "!=nil"}} {
				st := st
				nq := base
				nq.label = base.label + " with " + prm.Name() + st.tag
				nq.args = func() []an.AV {
					a := rootArgs(c)
					a[j] = st.av
					return a
				}
				combos = append(combos, nq)
			}
		}
	}
	qs = append(qs, combos...)
	vRecvPtr := false
	if len(v.Params) > 0 {
		_, vRecvPtr = v.Params[0].Type().Underlying().(*types.Pointer)
	}
	baseRejected := map[string]an.IvSet{}
	for _, q := range qs {
		key := an.FnKey(c) + "/" + q.label
		pos := p.FnPos(c)
		var outs []an.Outcome
		var err error
		dom := an.IvAll()
		if q.nilOf >= 0 {
			args := rootArgs(c)
			args[q.nilOf] = an.AV{K: an.KNil}
			outs, err = c14Eval(p, c, nil, dom, args, nil, "")
		} else {
			dom = q.dom
			outs, err = c14Eval(p, c, q.sel, dom, q.args(), nil, q.obj)
		}
		if err != nil {
			r.Ob("C14.N1", key, pos, an.Undecided, "constructor could not be evaluated: "+err.Error())
			continue
		}
		var rejected an.IvSet
		nsucc := 0
		mustFailNil := true
		var undec string
		seenOut := map[string]bool{}
		for _, o := range outs {
			if o.Panic || o.ErrIs(1) == 2 || len(o.Results) == 0 {
				continue
			}
			res := o.Results[0]
			// distinct (range, value shape) combinations only
			sig := o.Q.String() + "|" + shapeSig(res, c.Signature.Results().At(0).Type(), o.Store, 0)
			if seenOut[sig] {
				continue
			}
			seenOut[sig] = true
			if len(seenOut) > capFor(48, 400) {
				undec = fmt.Sprintf("more than %d distinct constructor results", capFor(48, 400))
				break
			}
			var recv an.AV
			store := append([]an.AV(nil), o.Store...)
			switch {
			case res.K == an.KPtr:
				if vRecvPtr {
					recv = res
				} else if lv, ok := an.LoadCell(store, res); ok {
					recv = lv
				}
			case res.K == an.KStruct:
				if vRecvPtr {
					store = append(store, res)
					recv = an.PtrToCell(len(store) - 1)
				} else {
					recv = res
				}
			default:
				continue // result not tracked (e.g. produced by an opaque callee)
			}
			nsucc++
			vouts, verr := c14Eval(p, v, q.sel, o.Q, []an.AV{recv}, store, q.obj)
			if verr != nil {
				undec = verr.Error()
				continue
			}
			if os.Getenv("C14DEBUG") != "" && strings.Contains(key, os.Getenv("C14DEBUG")) {
				fmt.Println("DEBUG ctor outcome", p.Pos(o.RetPos), o.Results[1].String(), o.Q, shapeSig(res, c.Signature.Results().At(0).Type(), o.Store, 0), strings.Join(o.Trail, " "))
				for _, vo := range vouts {
					fmt.Println("   V:", vo.Q, vo.Panic, vo.Results, strings.Join(vo.Trail, " "))
				}
			}
			must, _, none := an.RegionWhere(o.Q, vouts, func(vo an.Outcome) bool { return !vo.Panic && vo.ErrIs(0) == 2 })
			_ = none
			rejected = rejected.Union(must)
			if q.nilOf >= 0 {
				all := len(vouts) > 0
				for _, vo := range vouts {
					if vo.Panic || vo.ErrIs(0) != 2 {
						all = false
					}
				}
				if !all {
					mustFailNil = false
				}
			}
		}
		if undec != "" {
			r.Ob("C14.N1", key, pos, an.Undecided, "Validate could not be evaluated on a constructor result: "+undec)
			continue
		}
		if q.nilOf >= 0 {
			if nsucc == 0 {
				r.Ob("C14.N2", key, pos, an.Discharged, "constructor rejects a nil "+c.Params[q.nilOf].Name()+" (or its result is not tracked)").Nontrivial = false
				continue
			}
			what := "a value built with nil " + c.Params[q.nilOf].Name() + " is not always rejected by Validate"
			if mustFailNil {
				what = "constructor accepts nil " + c.Params[q.nilOf].Name() + " but Validate() rejects every value it builds from it"
			}
			r.Check(!mustFailNil, "C14.N2", key, pos, what, fmt.Sprintf("%d success paths of the constructor with this argument nil", nsucc))
			continue
		}
		// a combination only adds what the argument alone does not already show
		if i := strings.Index(q.label, " with "); i >= 0 {
			rejected = rejected.Minus(baseRejected[q.label[:i]])
		} else {
			baseRejected[q.label] = rejected
		}
		what := "every value of " + q.label + " the constructor accepts is accepted by Validate()"
		if !rejected.Empty() {
			what = fmt.Sprintf("constructor accepts %s ∈ %s but Validate() rejects it", q.label, rejected)
		}
		o := r.Check(rejected.Empty(), "C14.N1", key, pos, what, fmt.Sprintf("%d success paths of the constructor explored", nsucc))
		o.Nontrivial = nsucc > 0
	}
}

// c14ReaderValidates: ReadEncryptedLeaseSet succeeds only through a checked Validate().
func c14ReaderValidates(p *an.Prog, r *an.Report) {
	fn := p.Func("encrypted_leaseset.ReadEncryptedLeaseSet")
	if fn == nil {
		r.Fail("C14.N3: anchor encrypted_leaseset.ReadEncryptedLeaseSet not found")
		return
	}
	isValidate := func(c ssa.CallInstruction) bool {
		f := c.Common().StaticCallee()
		return f != nil && f.Name() == "Validate" && f.Signature.Recv() != nil && an.IsLibNamed(f.Signature.Recv().Type(), "encrypted_leaseset", "EncryptedLeaseSet")
	}
	relevant := reachesAnyCall(p, isValidate)
	for _, mode := range []string{"fail", "ok"} {
		mode := mode
		ev := &an.PEval{P: p, MaxPaths: 50000, MaxSteps: 1500000, LoopOK: true, MaxDepth: 6,
			Inline: func(f *ssa.Function) bool { return an.InLib(f) && relevant[f] && len(f.Blocks) > 0 && !isValidateFn(f) },
			OnCall: func(ev *an.PEval, call *ssa.Call, callee *ssa.Function, args []an.AV) (an.AV, bool) {
				if isValidate(call) {
					ev.Note("validate")
					if mode == "fail" {
						return an.AV{K: an.KNonNil}, true
					}
					return an.AV{K: an.KNil}, true
				}
				return an.AV{}, false
			}}
		outs, err := ev.Run(fn, rootArgs(fn))
		if err != nil {
			r.Ob("C14.N3", "ReadEncryptedLeaseSet/validate-"+mode, p.FnPos(fn), an.Undecided, err.Error())
			continue
		}
		ei := an.ErrIndex(fn)
		succ, without := 0, 0
		for _, o := range outs {
			if !o.Panic && o.ErrIs(ei) != 2 {
				succ++
				if !o.HasNote("validate") {
					without++
				}
			}
		}
		if mode == "fail" {
			r.Check(succ == 0, "C14.N3", "ReadEncryptedLeaseSet/validate-fail", p.FnPos(fn), "the reader fails whenever Validate() fails", fmt.Sprintf("%d paths, %d succeed", len(outs), succ))
		} else {
			r.Check(succ > 0 && without == 0, "C14.N3", "ReadEncryptedLeaseSet/validate-ok", p.FnPos(fn), "every success path of the reader called Validate()", fmt.Sprintf("%d success paths, %d without Validate", succ, without))
		}
	}
}

func isValidateFn(f *ssa.Function) bool {
	return f.Name() == "Validate" && f.Signature.Recv() != nil
}

// c14LengthNarrowing (N4): a length that is written into a fixed-width wire field must fit that
// field: every conversion of a length-derived integer to a narrower unsigned type in the
// constructors/serializers (functions reachable from the exported API without key-object
// parameters) is proved to be within the target range (relational bounds engine, with caller
// pre-conditions). A constructor that stores uint16(len(data)) without bounding len(data) builds a
// value that passes Validate() (which truncates the same way) but cannot round-trip.
func c14LengthNarrowing(p *an.Prog, r *an.Report, rule string) {
	b := an.NewBounds(p)
	b.Axioms = c04IntAxiom
	if os.Getenv("C14DEBUG") != "" {
		b.Debug = func(m string) { fmt.Fprintln(os.Stderr, "DEBUG", m) }
	}
	roots, _ := c04Roots(p)
	// constructors with key-object parameters matter here too: the length they narrow is the caller's data
	for _, fn := range p.ExportedAPI() {
		if len(fn.Blocks) > 0 && fn.Synthetic == "" {
			roots = append(roots, fn)
		}
	}
	scope := p.Reachable(p.CG(), roots, func(f *ssa.Function) bool { return an.InLib(f) })
	isRoot := map[*ssa.Function]bool{}
	for _, f := range roots {
		isRoot[f] = true
	}
	b.IsEntry = func(f *ssa.Function) bool { return isRoot[f] }
	b.InScope = func(f *ssa.Function) bool { _, ok := scope[f]; return ok }
	var fns []*ssa.Function
	for f := range scope {
		if an.InLib(f) {
			fns = append(fns, f)
		}
	}
	sort.Slice(fns, func(i, j int) bool { return an.FnKey(fns[i]) < an.FnKey(fns[j]) })
	n := 0
	usedRev := map[string]int{}
	for _, fn := range fns {
		k := 0
		for _, blk := range fn.Blocks {
			for _, in := range blk.Instrs {
				cv, ok := in.(*ssa.Convert)
				if !ok || an.IsLogPlumbing(in) {
					continue
				}
				dlo, dhi, ok1 := typeRangeInt64(cv.Type())
				_, shi, ok2 := typeRangeInt64(cv.X.Type())
				if !ok1 || !ok2 || dlo != 0 || shi <= dhi {
					continue // not a narrowing to an unsigned type
				}
				l := b.LinOf(cv.X)
				lengthDerived := false
				for t := range l.T {
					if t.Len {
						lengthDerived = true
					}
				}
				if !lengthDerived || onlyFeedsLogging(cv) {
					continue
				}
				n++
				k++
				pr := b.ProveAt(cv, an.LinConst(dhi).Add(l, -1))
				if rev, ok := c14NarrowReviewed[an.ShortPkg(an.FnPkgPath(fn))+"|"+cv.Type().String()+"|"+an.ShapeOf(l)]; ok && !pr.OK && usedRev[rev.reason] < rev.n {
					usedRev[rev.reason]++
					o := r.Ob(rule+"r", fmt.Sprintf("%s/narrow%d", an.FnKey(fn), k), p.Pos(cv.Pos()), an.Discharged, "not decided by the prover — reviewed: "+rev.reason, append([]string{"value " + l.String()}, pr.Trail...)...)
					o.Nontrivial = false
					continue
				}
				r.Check(pr.OK, rule, fmt.Sprintf("%s/narrow%d", an.FnKey(fn), k), p.Pos(cv.Pos()),
					fmt.Sprintf("the length narrowed to %s fits (<= %d) on every path", cv.Type().String(), dhi), append([]string{"value " + l.String()}, pr.Trail...)...)
			}
		}
	}
	r.Analysed["length narrowings"] = n
}

// c14NarrowReviewed: narrowings whose fit rests on a data invariant the per-function prover cannot
// see; the allowance is per function and frozen.
var c14NarrowReviewed = map[string]struct {
	n      int
	reason string
}{
	"data|uint16|+1*len([]byte from a library call()) +0 >= 0": {1, "Mapping.Data: uint16(len(payload)): a Mapping's pairs total at most 65,535 bytes because ValuesToMapping rejects larger sets (C11.M3) and ReadMapping takes them from a 2-byte size field; an invariant across constructors, not visible inside Data()"},
}

func typeRangeInt64(t types.Type) (lo, hi int64, ok bool) {
	bt, isB := t.Underlying().(*types.Basic)
	if !isB {
		return 0, 0, false
	}
	switch bt.Kind() {
	case types.Int8:
		return -128, 127, true
	case types.Int16:
		return -32768, 32767, true
	case types.Int32:
		return -1 << 31, 1<<31 - 1, true
	case types.Int, types.Int64:
		return an.NegInf, an.PosInf, true
	case types.Uint8:
		return 0, 255, true
	case types.Uint16:
		return 0, 65535, true
	case types.Uint32:
		return 0, 1<<32 - 1, true
	case types.Uint, types.Uint64, types.Uintptr:
		return 0, an.PosInf, true
	}
	return 0, 0, false
}

// onlyFeedsLogging: every use of the converted value is log plumbing (field maps, formatting).
func onlyFeedsLogging(v ssa.Value) bool {
	refs := v.Referrers()
	if refs == nil || len(*refs) == 0 {
		return true
	}
	for _, ref := range *refs {
		if _, ok := ref.(*ssa.DebugRef); ok {
			continue
		}
		if an.IsLogPlumbing(ref) {
			continue
		}
		if mi, ok := ref.(*ssa.MakeInterface); ok {
			all := true
			for _, r2 := range *mi.Referrers() {
				if !an.IsLogPlumbing(r2) {
					all = false
				}
			}
			if all {
				continue
			}
		}
		return false
	}
	return true
}
