package rules

import (
	"fmt"
	"go/types"
	"sort"
	"strings"

	"golang.org/x/tools/go/ssa"

	"verif/checker/internal/an"
)

func init() { Registry["C05"] = C05 }

const cryptoTypesPkg = "github.com/go-i2p/crypto/types"

// cryptoVerifyKind classifies a call as a cryptographic verification primitive.
// "iface" = Verifier.Verify/VerifyHash (error), "ed25519" = crypto/ed25519.Verify (bool),
// "ed25519opts" = crypto/ed25519.VerifyWithOptions (error).
func cryptoVerifyKind(call ssa.CallInstruction) string {
	c := call.Common()
	if c.IsInvoke() {
		if (c.Method.Name() == "Verify" || c.Method.Name() == "VerifyHash") && c.Method.Pkg() != nil && c.Method.Pkg().Path() == cryptoTypesPkg {
			return "iface"
		}
		return ""
	}
	f := c.StaticCallee()
	if f == nil {
		return ""
	}
	if an.FnPkgPath(f) == "crypto/ed25519" {
		switch f.Name() {
		case "Verify":
			return "ed25519"
		case "VerifyWithOptions":
			return "ed25519opts"
		}
	}
	// concrete Verifier implementations of go-i2p/crypto called statically
	if strings.HasPrefix(an.FnPkgPath(f), "github.com/go-i2p/crypto/") && f.Signature.Recv() != nil && (f.Name() == "Verify" || f.Name() == "VerifyHash") {
		return "iface"
	}
	return ""
}

func isOfflineVerify(f *ssa.Function) bool {
	return f != nil && f.Name() == "VerifySignature" && f.Signature.Recv() != nil && an.IsLibNamed(f.Signature.Recv().Type(), "offline_signature", "OfflineSignature")
}

func isTransientAccessor(f *ssa.Function) bool {
	return f != nil && f.Name() == "TransientPublicKey" && f.Signature.Recv() != nil && an.IsLibNamed(f.Signature.Recv().Type(), "offline_signature", "OfflineSignature")
}

type vAssume struct{ crypto, offline string }

func isTransientAV(a an.AV) bool {
	if a.Tag == "transient" {
		return true
	}
	return a.K == an.KObj && strings.Contains(a.Path, "transientPublicKey")
}

// verifierEval evaluates a verifier under assumptions about the primitives.
func verifierEval(p *an.Prog, fn *ssa.Function, as vAssume, relevant map[*ssa.Function]bool) ([]an.Outcome, error) {
	ev := &an.PEval{P: p, Domain: an.IvAll(), MaxPaths: 80000, LoopOK: true, MaxDepth: 10,
		Inline: func(f *ssa.Function) bool { return an.InLib(f) && relevant[f] && len(f.Blocks) > 0 },
		OnCall: func(ev *an.PEval, call *ssa.Call, callee *ssa.Function, args []an.AV) (an.AV, bool) {
			if k := cryptoVerifyKind(call); k != "" {
				ev.Note("crypto-verify")
				for _, a := range args {
					if isTransientAV(a) {
						ev.Note("crypto-verify-transient")
					}
				}
				okv := as.crypto == "ok"
				switch k {
				case "ed25519":
					return an.AV{K: an.KBool, B: okv}, true
				default:
					if okv {
						return an.AV{K: an.KNil}, true
					}
					return an.AV{K: an.KNonNil, Tag: "crypto-verify-error"}, true
				}
			}
			if isOfflineVerify(callee) && callee != fn {
				ev.Note("offline-verify")
				switch as.offline {
				case "ok":
					return an.AV{K: an.KTuple, Elems: []an.AV{{K: an.KBool, B: true}, {K: an.KNil}}}, true
				case "false":
					return an.AV{K: an.KTuple, Elems: []an.AV{{K: an.KBool, B: false}, {K: an.KNil}}}, true
				default:
					return an.AV{K: an.KTuple, Elems: []an.AV{{}, {K: an.KNonNil}}}, true
				}
			}
			if isTransientAccessor(callee) {
				return an.AV{K: an.KNonNil, Tag: "transient"}, true
			}
			// taint propagation through calls that are not explored
			if callee == nil || !(an.InLib(callee) && relevant[callee]) {
				for _, a := range args {
					if isTransientAV(a) {
						if tup, ok := call.Type().(*types.Tuple); ok {
							el := make([]an.AV, tup.Len())
							el[0] = an.AV{Tag: "transient"}
							return an.AV{K: an.KTuple, Elems: el}, true
						}
						return an.AV{Tag: "transient"}, true
					}
				}
			}
			return an.AV{}, false
		}}
	return ev.Run(fn, rootArgs(fn))
}

// verifySuccess: the outcome may report successful verification.
func verifySuccess(fn *ssa.Function, o an.Outcome) bool {
	if o.Panic {
		return false
	}
	res := fn.Signature.Results()
	for i := 0; i < res.Len(); i++ {
		t := res.At(i).Type()
		if isErrorType(t) && o.ErrIs(i) == 2 {
			return false
		}
		if b, ok := t.Underlying().(*types.Basic); ok && b.Kind() == types.Bool {
			if o.Results[i].K == an.KBool && !o.Results[i].B {
				return false
			}
		}
	}
	return true
}

// callChains enumerates static call chains (through library functions) from fn to call
// instructions satisfying pred.
func callChains(p *an.Prog, fn *ssa.Function, pred func(ssa.CallInstruction) bool, stop func(*ssa.Function) bool, maxDepth int) [][]ssa.CallInstruction {
	var out [][]ssa.CallInstruction
	var rec func(f *ssa.Function, chain []ssa.CallInstruction, seen map[*ssa.Function]bool)
	rec = func(f *ssa.Function, chain []ssa.CallInstruction, seen map[*ssa.Function]bool) {
		if len(chain) > maxDepth || seen[f] {
			return
		}
		seen[f] = true
		defer delete(seen, f)
		for _, b := range f.Blocks {
			for _, in := range b.Instrs {
				c, ok := in.(ssa.CallInstruction)
				if !ok {
					continue
				}
				if pred(c) {
					out = append(out, append(append([]ssa.CallInstruction(nil), chain...), c))
					continue
				}
				if callee := c.Common().StaticCallee(); callee != nil && an.InLib(callee) && len(callee.Blocks) > 0 {
					if stop != nil && stop(callee) {
						continue
					}
					rec(callee, append(chain, c), seen)
				}
			}
		}
	}
	rec(fn, nil, map[*ssa.Function]bool{})
	return out
}

var storePrefix = map[string]string{"LeaseSet2": "3", "MetaLeaseSet": "7", "EncryptedLeaseSet": "5"}

func C05(p *an.Prog, r *an.Report) {
	r.Explanation = "For every exported Verify* method of the library from which a cryptographic verification primitive (crypto types.Verifier.Verify, ed25519.Verify/VerifyWithOptions) is reachable: (V1) the method is evaluated path-sensitively under the assumption that the primitive fails — no path may then report success — and under the assumption that it succeeds — success must be possible and every success path must have executed the primitive; (V3) assuming the primitive succeeds but (*OfflineSignature).VerifySignature reports false or an error, no success path may have verified with a key derived from the offline signature's transient key; (V2) the key operand of the primitive, sliced backwards across library calls, has only the receiver's own fields as origins (the explicit key parameter for OfflineSignature) — no other parameter, no mutable package-level variable; (V4) the message operand's origins are the receiver's own fields, cover every field of the receiver's struct, and contain as byte constants exactly the DatabaseStore type prefix the specification prescribes (3/7/5, none for LeaseSet and RouterInfo); the signature operand originates from the receiver's signature field. Cryptographic validity itself is trusted to the primitives; that the verified bytes equal the received bytes rests on C01. V2 additionally requires a key object held by the receiver to be reached through its KeysAndCert."
	r.Rule = "obligations per verifier: V1 fail⇒no success, V1 ok⇒success via primitive, V3 per offline failure mode, V2 key origins, V4 message origins/coverage/prefix, signature origin"
	r.Trusted = []string{"go-i2p/crypto verifiers and crypto/ed25519 are sound signature verifiers", "go/ssa, static callees (verifier interface calls are recognised by method identity)"}

	// verifier discovery
	reaches := reachesAnyCall(p, func(c ssa.CallInstruction) bool { return cryptoVerifyKind(c) != "" })
	relevant := reachesAnyCall(p, func(c ssa.CallInstruction) bool {
		if cryptoVerifyKind(c) != "" {
			return true
		}
		f := c.Common().StaticCallee()
		return isOfflineVerify(f) || isTransientAccessor(f)
	})
	var verifiers []*ssa.Function
	for _, fn := range p.ExportedAPI() {
		if fn.Signature.Recv() == nil || !strings.HasPrefix(fn.Name(), "Verify") || !reaches[fn] || fn.Synthetic != "" {
			continue
		}
		verifiers = append(verifiers, fn)
	}
	r.Floor("verifiers", len(verifiers), 6)
	for _, fn := range verifiers {
		key := an.FnKey(fn)
		pos := p.FnPos(fn)
		_, recvName := an.NamedOf(fn.Signature.Recv().Type())

		// V1
		outs, err := verifierEval(p, fn, vAssume{"fail", "ok"}, relevant)
		if err != nil {
			r.Ob("C05.V1", key+"/primitive-fails", pos, an.Undecided, err.Error())
		} else {
			n := 0
			var tr []string
			for _, o := range outs {
				if verifySuccess(fn, o) {
					n++
					if len(tr) < 3 {
						tr = append(tr, "success path: "+strings.Join(o.Trail, " ")+" notes="+strings.Join(o.Notes, ","))
					}
				}
			}
			r.Check(n == 0 && len(outs) > 0, "C05.V1", key+"/primitive-fails", pos, "no path reports success when the cryptographic verification fails",
				append([]string{fmt.Sprintf("%d paths explored, %d report success", len(outs), n)}, tr...)...)
		}
		outs, err = verifierEval(p, fn, vAssume{"ok", "ok"}, relevant)
		transientPossible := false
		if err != nil {
			r.Ob("C05.V1", key+"/primitive-succeeds", pos, an.Undecided, err.Error())
		} else {
			succ, bad := 0, 0
			for _, o := range outs {
				if verifySuccess(fn, o) {
					succ++
					if !o.HasNote("crypto-verify") {
						bad++
					}
					if o.HasNote("crypto-verify-transient") {
						transientPossible = true
					}
				}
			}
			r.Check(succ > 0 && bad == 0, "C05.V1", key+"/primitive-succeeds", pos, "success is reachable and every success path executed the cryptographic verification",
				fmt.Sprintf("%d success paths, %d without the primitive", succ, bad))
		}
		// V3
		if transientPossible {
			for _, mode := range []string{"false", "err"} {
				outs, err := verifierEval(p, fn, vAssume{"ok", mode}, relevant)
				if err != nil {
					r.Ob("C05.V3", key+"/offline-"+mode, pos, an.Undecided, err.Error())
					continue
				}
				n := 0
				for _, o := range outs {
					if verifySuccess(fn, o) && o.HasNote("crypto-verify-transient") {
						n++
					}
				}
				what := "a transient (offline) key is only trusted after the offline signature itself verified under the identity's key"
				if n > 0 {
					what = "verification succeeds with the transient key although the offline signature was not verified (forged offline block verifies)"
				}
				r.Check(n == 0, "C05.V3", key+"/offline-"+mode, pos, what, fmt.Sprintf("%d success paths use the transient key when (*OfflineSignature).VerifySignature reports %s", n, mode))
			}
		}
		r.Analysed["transient_key_path/"+key] = transientPossible

		// V2 / V4 at each primitive call
		// V3: the offline signature is checked against the identity's own key
		isVerifier := map[*ssa.Function]bool{}
		for _, v := range verifiers {
			isVerifier[v] = true
		}
		stopAtVerifier := func(f *ssa.Function) bool { return isVerifier[f] && f != fn }
		for _, ch := range callChains(p, fn, func(c ssa.CallInstruction) bool { return isOfflineVerify(c.Common().StaticCallee()) && c.Common().StaticCallee() != fn }, stopAtVerifier, 5) {
			site := ch[len(ch)-1]
			leaves := leavesAt(p, fn, ch, site.Common().Args[1])
			var bad []string
			okRoot := false
			for _, l := range leaves {
				switch l.Kind {
				case an.LParam:
					if l.Param != 0 {
						bad = append(bad, "identity key derives from parameter "+l.String())
					} else if strings.Contains(l.Path, "offlineSignature") {
						bad = append(bad, "identity key derives from the offline signature itself: "+l.String())
					} else {
						okRoot = true
					}
				case an.LGlobal:
					bad = append(bad, "identity key derives from package variable "+l.Name)
				}
			}
			if !okRoot {
				bad = append(bad, "identity key has no origin in the receiver's identity")
			}
			r.Check(len(bad) == 0, "C05.V3", key+"/offline-identity-key", p.Pos(site.Pos()), "the offline signature is verified against the structure's own identity key",
				append(bad, "origins: "+strings.Join(an.LeafStrings(leaves), ", "))...)
		}
		chains := callChains(p, fn, func(c ssa.CallInstruction) bool { return cryptoVerifyKind(c) != "" }, stopAtVerifier, 5)
		if len(chains) == 0 {
			r.Ob("C05.V2", key+"/primitive-site", pos, an.Undecided, "no static call chain to the primitive")
			continue
		}
		for ci, ch := range chains {
			prim := ch[len(ch)-1]
			kind := cryptoVerifyKind(prim)
			args := prim.Common().Args
			var keyV, msgV, sigV ssa.Value
			switch kind {
			case "iface":
				if prim.Common().IsInvoke() {
					keyV, msgV, sigV = prim.Common().Value, args[0], args[1]
				} else {
					keyV, msgV, sigV = args[0], args[1], args[2]
				}
			default:
				keyV, msgV, sigV = args[0], args[1], args[2]
			}
			sfx := ""
			if len(chains) > 1 {
				sfx = fmt.Sprintf("#%d", ci+1)
			}
			ppos := p.Pos(prim.Pos())
			keyLeaves := leavesAt(p, fn, ch, keyV)
			msgLeaves := leavesAt(p, fn, ch, msgV)
			sigLeaves := leavesAt(p, fn, ch, sigV)
			allowedParams := map[int]bool{0: true}
			if recvName == "OfflineSignature" {
				allowedParams[1] = true // the destination key is an explicit argument by design
			}
			var bad []string
			nParam := 0
			for _, l := range keyLeaves {
				switch l.Kind {
				case an.LParam:
					nParam++
					if !allowedParams[l.Param] {
						bad = append(bad, "key derives from parameter "+l.String())
					}
					// a key object (crypto interface value) held by the receiver must be the identity's:
					// reached through the KeysAndCert of the structure's Destination/RouterIdentity, not
					// some other key-typed field of the structure (e.g. a LeaseSet's revocation key)
					if l.Param == 0 && recvName != "OfflineSignature" && len(fn.Params) > 0 {
						if why := keyPathNotIdentity(fn.Params[0].Type(), l.Path); why != "" {
							bad = append(bad, "key "+l.String()+" "+why)
						}
					}
				case an.LGlobal:
					if g, ok := l.V.(*ssa.Global); ok && len(p.GlobalWrites(g)) > 0 {
						bad = append(bad, "key derives from mutable package variable "+l.Name)
					}
				}
			}
			if nParam == 0 {
				bad = append(bad, "no origin of the key in the receiver was found")
			}
			r.Check(len(bad) == 0, "C05.V2", key+"/key-origin"+sfx, ppos, "the verifying key originates only from the structure's own identity / blinded key / offline signature",
				append(bad, "origins: "+strings.Join(an.LeafStrings(keyLeaves), ", "))...)

			// V4
			bad = nil
			fieldsSeen := map[string]bool{}
			byteConsts := map[string]bool{}
			for _, l := range msgLeaves {
				switch l.Kind {
				case an.LParam:
					if l.Param != 0 {
						bad = append(bad, "message derives from parameter "+l.String())
					} else if parts := strings.Split(strings.TrimPrefix(l.Path, "."), "."); parts[0] != "" {
						fieldsSeen[parts[0]] = true
					}
				case an.LConst:
					// the store-type prefix is prepended by the verifier itself or by its
					// unexported data-for-signing helper, not inside a (sub)structure serializer
					shallow := len(l.Via) <= 3
					for _, via := range l.Via {
						if isExportedFnKey(via) || !strings.Contains(via, an.ShortPkg(an.FnPkgPath(fn))+".") {
							shallow = false
						}
					}
					if b, ok := l.V.Type().Underlying().(*types.Basic); ok && b.Kind() == types.Uint8 && shallow {
						byteConsts[l.Name] = true
					}
				}
			}
			var consts []string
			for c := range byteConsts {
				consts = append(consts, c)
			}
			sort.Strings(consts)
			want := storePrefix[recvName]
			if recvName != "OfflineSignature" {
				if want == "" && len(consts) > 0 {
					bad = append(bad, "unexpected byte constants in the verified message: "+strings.Join(consts, ","))
				}
				if want != "" && !(len(consts) == 1 && consts[0] == want) {
					bad = append(bad, fmt.Sprintf("DatabaseStore prefix: byte constants in the message are {%s}, specification prescribes {%s}", strings.Join(consts, ","), want))
				}
			}
			// coverage of the receiver's fields
			if st, ok := an.Deref(fn.Signature.Recv().Type()).Underlying().(*types.Struct); ok {
				var missing []string
				for i := 0; i < st.NumFields(); i++ {
					name := st.Field(i).Name()
					if !fieldsSeen[name] && !c05DerivedField(recvName, name) && name != "signature" {
						missing = append(missing, name)
					}
				}
				if len(missing) > 0 {
					bad = append(bad, "fields of the structure that do not reach the verified message: "+strings.Join(missing, ","))
				}
			}
			r.Check(len(bad) == 0, "C05.V4", key+"/message-origin"+sfx, ppos, "the verified message is the receiver's own serialisation (all fields) with exactly the specified store-type prefix",
				append(bad, "fields covered: "+strings.Join(sortedKeys(fieldsSeen), ","), "byte constants: "+strings.Join(consts, ","))...)

			// signature operand
			bad = nil
			okSig := false
			for _, l := range sigLeaves {
				if l.Kind == an.LParam {
					if l.Param != 0 {
						bad = append(bad, "signature derives from parameter "+l.String())
					} else if strings.Contains(strings.ToLower(l.Path), "signature") {
						okSig = true
					}
				}
			}
			if !okSig {
				bad = append(bad, "signature operand does not originate from the receiver's signature field")
			}
			r.Check(len(bad) == 0, "C05.V4", key+"/signature-origin"+sfx, ppos, "the signature checked is the structure's own signature", append(bad, "origins: "+strings.Join(an.LeafStrings(sigLeaves), ", "))...)
		}
	}
}

// c05DerivedField: struct fields that are not wire content of their own (caches, derived values).
func c05DerivedField(recv, field string) bool {
	switch recv + "." + field {
	case "LeaseSet.signingKey", "LeaseSet.encryptionKey", "LeaseSet.leaseCount":
		return false
	case "OfflineSignature.signature", "OfflineSignature.destinationSigType":
		return true // the offline signature signs (expires, sigtype, transient key); these two are not part of the signed data
	}
	return false
}

func sortedKeys(m map[string]bool) []string {
	var s []string
	for k := range m {
		s = append(s, k)
	}
	sort.Strings(s)
	return s
}

// leavesAt slices value v, which lives in the function containing the last call of chain, in
// the calling context given by chain (root fn first).
func leavesAt(p *an.Prog, root *ssa.Function, chain []ssa.CallInstruction, v ssa.Value) []an.Leaf {
	sl := &an.Slicer{P: p, Root: root, Through: an.AllArgs, MaxDepth: 10}
	return sl.LeavesInContext(chain[:len(chain)-1], v)
}

// reachesAnyCall: library functions from which a call instruction satisfying pred is reachable
// through library functions.
func reachesAnyCall(p *an.Prog, pred func(ssa.CallInstruction) bool) map[*ssa.Function]bool {
	direct := map[*ssa.Function]bool{}
	callers := map[*ssa.Function][]*ssa.Function{}
	for _, fn := range p.RepoFns {
		for _, b := range fn.Blocks {
			for _, in := range b.Instrs {
				c, ok := in.(ssa.CallInstruction)
				if !ok {
					continue
				}
				if pred(c) {
					direct[fn] = true
				}
				for _, callee := range p.Callees(c) {
					if an.InLib(callee) {
						callers[callee] = append(callers[callee], fn)
					}
				}
			}
		}
	}
	out := map[*ssa.Function]bool{}
	var work []*ssa.Function
	for f := range direct {
		out[f] = true
		work = append(work, f)
	}
	for len(work) > 0 {
		f := work[len(work)-1]
		work = work[:len(work)-1]
		for _, c := range callers[f] {
			if !out[c] {
				out[c] = true
				work = append(work, c)
			}
		}
	}
	return out
}

// isExportedFnKey: the last path element of a function key starts with an upper-case letter.
func isExportedFnKey(k string) bool {
	i := strings.LastIndex(k, ".")
	name := k[i+1:]
	return name != "" && name[0] >= 'A' && name[0] <= 'Z'
}


// keyPathNotIdentity walks the access path from the receiver type. If the path ends in (or passes
// through) a field whose type is a key interface of go-i2p/crypto, it must first pass through a
// field of type keys_and_cert.KeysAndCert. Returns "" when acceptable.
func keyPathNotIdentity(recv types.Type, path string) string {
	t := an.Deref(recv)
	sawKAC := false
	for _, name := range strings.Split(strings.TrimPrefix(path, "."), ".") {
		if name == "" || name == "*" {
			continue
		}
		name = strings.TrimSuffix(name, "[]")
		if _, nm := an.NamedOf(t); nm == "KeysAndCert" {
			sawKAC = true
		}
		st, ok := an.Deref(t).Underlying().(*types.Struct)
		if !ok {
			return ""
		}
		var ft types.Type
		for i := 0; i < st.NumFields(); i++ {
			if st.Field(i).Name() == name {
				ft = st.Field(i).Type()
			}
		}
		if ft == nil {
			return ""
		}
		if _, nm := an.NamedOf(an.Deref(ft)); nm == "KeysAndCert" {
			sawKAC = true
		}
		if isCryptoKeyInterface(ft) && !sawKAC {
			return "is a key-typed field of the structure outside its identity (KeysAndCert)"
		}
		t = ft
	}
	return ""
}

func isCryptoKeyInterface(t types.Type) bool {
	pk, nm := an.NamedOf(t)
	if !strings.HasPrefix(pk, "github.com/go-i2p/crypto") {
		return false
	}
	_, isIface := t.Underlying().(*types.Interface)
	return isIface && strings.Contains(nm, "Key")
}
