package rules

import (
	"fmt"
	"go/types"
	"sort"
	"strings"

	"golang.org/x/tools/go/ssa"

	"verif/checker/internal/an"
)

func init() { Registry["C02"] = C02 }

// specLayouts: wire order of the fields of each structure (I2P common structures 0.9.67), written
// with the library's field names. "?" marks an optional part. For MetaLeaseSet the table follows
// the layout the library documents for itself (entry = hash, type, expires, cost, properties).
var specLayouts = map[string][]string{
	"certificate.Certificate":              {"kind", "len", "payload"},
	"keys_and_cert.KeysAndCert":            {"ReceivingPublic", "Padding", "SigningPublic", "KeyCertificate"},
	"router_address.RouterAddress":         {"TransportCost", "ExpirationDate", "TransportType", "TransportOptions"},
	"router_info.RouterInfo":               {"router_identity", "published", "size", "addresses", "peer_size", "options", "signature"},
	"lease_set.LeaseSet":                   {"dest", "encryptionKey", "signingKey", "leases", "signature"},
	"lease_set2.LeaseSet2":                 {"destination", "published", "expires", "flags", "offlineSignature", "options", "encryptionKeys", "leases", "signature"},
	"meta_leaseset.MetaLeaseSet":           {"destination", "published", "expires", "flags", "offlineSignature", "options", "entries", "signature"},
	"encrypted_leaseset.EncryptedLeaseSet": {"sigType", "blindedPublicKey", "published", "expires", "flags", "offlineSignature", "encryptedInnerData", "signature"},
	"offline_signature.OfflineSignature":   {"expires", "sigtype", "transientPublicKey", "signature"},
}

// specWidths: width in bits of the fixed-width integer fields.
var specWidths = map[string]string{
	"lease_set2.LeaseSet2.published": "32", "lease_set2.LeaseSet2.expires": "16", "lease_set2.LeaseSet2.flags": "16",
	"meta_leaseset.MetaLeaseSet.published": "32", "meta_leaseset.MetaLeaseSet.expires": "16", "meta_leaseset.MetaLeaseSet.flags": "16",
	"encrypted_leaseset.EncryptedLeaseSet.sigType": "16", "encrypted_leaseset.EncryptedLeaseSet.published": "32",
	"encrypted_leaseset.EncryptedLeaseSet.expires": "16", "encrypted_leaseset.EncryptedLeaseSet.flags": "16",
	"encrypted_leaseset.EncryptedLeaseSet.innerLength": "16",
	"offline_signature.OfflineSignature.expires":       "32", "offline_signature.OfflineSignature.sigtype": "16",
}

// specConstants: (package, name) -> value.
var specConstants = []struct {
	pkg, name string
	val       int64
}{
	{"certificate", "CERT_NULL", 0}, {"certificate", "CERT_HASHCASH", 1}, {"certificate", "CERT_HIDDEN", 2},
	{"certificate", "CERT_SIGNED", 3}, {"certificate", "CERT_MULTIPLE", 4}, {"certificate", "CERT_KEY", 5},
	{"certificate", "CERT_MIN_SIZE", 3},
	{"lease", "LEASE_SIZE", 44}, {"lease", "LEASE_TUNNEL_GW_SIZE", 32}, {"lease", "LEASE_TUNNEL_ID_SIZE", 4},
	{"lease", "LEASE2_SIZE", 40}, {"lease", "LEASE2_END_DATE_SIZE", 4},
	{"keys_and_cert", "KEYS_AND_CERT_PUBKEY_SIZE", 256}, {"keys_and_cert", "KEYS_AND_CERT_SPK_SIZE", 128},
	{"keys_and_cert", "KEYS_AND_CERT_DATA_SIZE", 384}, {"keys_and_cert", "KEYS_AND_CERT_MIN_SIZE", 387},
	{"lease_set", "LEASE_SET_PUBKEY_SIZE", 256}, {"lease_set", "LEASE_SET_MAX_LEASES", 16},
	{"lease_set2", "LEASESET2_MAX_LEASES", 16}, {"lease_set2", "LEASESET2_MAX_ENCRYPTION_KEYS", 16},
	{"lease_set2", "LEASESET2_FLAG_OFFLINE_KEYS", 1}, {"lease_set2", "LEASESET2_FLAG_UNPUBLISHED", 2}, {"lease_set2", "LEASESET2_FLAG_BLINDED", 4},
	{"lease_set2", "LEASESET2_DBSTORE_TYPE", 3}, {"lease_set2", "LEASESET2_PUBLISHED_SIZE", 4}, {"lease_set2", "LEASESET2_EXPIRES_SIZE", 2},
	{"lease_set2", "LEASESET2_FLAGS_SIZE", 2}, {"lease_set2", "LEASESET2_ENCRYPTION_KEY_TYPE_SIZE", 2}, {"lease_set2", "LEASESET2_ENCRYPTION_KEY_LENGTH_SIZE", 2},
	{"meta_leaseset", "META_LEASESET_DBSTORE_TYPE", 7}, {"meta_leaseset", "META_LEASESET_TYPE", 7},
	{"meta_leaseset", "META_LEASESET_MIN_ENTRIES", 1}, {"meta_leaseset", "META_LEASESET_MAX_ENTRIES", 16},
	{"meta_leaseset", "META_LEASESET_FLAG_OFFLINE_KEYS", 1}, {"meta_leaseset", "META_LEASESET_FLAG_UNPUBLISHED", 2},
	{"meta_leaseset", "META_LEASESET_ENTRY_HASH_SIZE", 32},
	{"encrypted_leaseset", "ENCRYPTED_LEASESET_DBSTORE_TYPE", 5}, {"encrypted_leaseset", "ENCRYPTED_LEASESET_TYPE", 5},
	{"encrypted_leaseset", "ENCRYPTED_LEASESET_FLAG_OFFLINE_KEYS", 1}, {"encrypted_leaseset", "ENCRYPTED_LEASESET_FLAG_UNPUBLISHED", 2},
	{"encrypted_leaseset", "ENCRYPTED_LEASESET_RESERVED_FLAGS_MASK", 0xFFFC},
	{"offline_signature", "EXPIRES_SIZE", 4}, {"offline_signature", "SIGTYPE_SIZE", 2},
	{"data", "DATE_SIZE", 8}, {"data", "STRING_MAX_SIZE", 255}, {"data", "MAX_MAPPING_DATA_SIZE", 65535},
	{"data", "MAPPING_EQUALS_DELIMITER", 0x3d}, {"data", "MAPPING_SEMICOLON_DELIMITER", 0x3b}, {"data", "KEY_VAL_INTEGER_LENGTH", 1},
	{"data", "MAPPING_SIZE_FIELD_LENGTH", 2},
}

func subsequence(order []string, keep map[string]bool) []string {
	var out []string
	for _, f := range order {
		if keep[f] {
			out = append(out, f)
		}
	}
	return out
}

func C02(p *an.Prog, r *an.Report) {
	r.Explanation = "Agreement with the I2P 0.9.67 common-structures layout, decided structurally against a frozen table in the checker: L1 — for each wire structure the order in which the serializer appends the fields, and the order in which a cursor-threading parser assigns them, both equal the specified field order (this catches a change applied consistently to both sides, which self-round-trip tests cannot); fixed-width fields are encoded and decoded with the specified width; L2 — ~55 layout constants (certificate types, lease sizes, 384/256/128 block sizes, limits of 16, flag bits, reserved masks, DatabaseStore prefixes, mapping delimiters) have their specified values; L3 — every place outside package data that reads an embedded mapping succeeds with no errors or only the benign trailing-data warning and fails for any other error, and its filter matches the reader's message; L4 — the key-block offsets and size tables are C01.R5 and C10. That every well-formed foreign encoding is accepted with exactly its field values needs an independent codec run and is not decided. L5: the trailing signature of the three offline-capable structures is typed by the transient key type (never destinationSigType) in parsers and constructors; L6: the mapping reader attempts every well-formed final pair down to 4 bytes. L8: key alignment inside the 384-byte block (the layout rule of C01.R5). L9: millisecond dates written by constructors are taken exactly (rule C15.A7). L10: length arithmetic cannot wrap (C03.S4)."
	r.Rule = "one obligation per structure and side (order), per fixed-width field (width), per constant, four per embedded-mapping site"
	r.Trusted = []string{"the frozen layout table in checker/internal/rules/c02.go (MetaLeaseSet follows the layout the library documents)", "go/ssa"}
	pairs := wirePairs(p)
	checked := 0
	for _, wp := range pairs {
		spec, ok := specLayouts[wp.key]
		if !ok {
			continue
		}
		st := wp.T.Underlying().(*types.Struct)
		alias, missing := specFieldAlias(st, spec)
		if !missing && len(alias) > 0 {
			// a field of the table was renamed in the library: continue under its new name
			eff := make([]string, len(spec))
			for i, f := range spec {
				eff[i] = f
				if a, ok := alias[f]; ok {
					eff[i] = a
				}
			}
			spec = eff
		}
		if missing {
			r.Ob("C02.L1", wp.key+"/table", p.FnPos(wp.ser), an.Undecided, "the layout table names fields this structure no longer has; the table must be brought in line before the order can be decided", "table: "+strings.Join(spec, ","))
			continue
		}
		checked++
		keep := map[string]bool{}
		for _, f := range spec {
			keep[f] = true
		}
		sOrder, raw := serFieldOrder(p, wp.ser)
		got := subsequence(sOrder, keep)
		r.Check(strings.Join(got, ",") == strings.Join(spec, ","), "C02.L1", wp.key+"/serialiser-order", p.FnPos(wp.ser),
			"the serializer emits the fields in the specified wire order", "specified: "+strings.Join(spec, ","), "serializer: "+strings.Join(got, ","), "appends: "+raw)
		parser := wp.parsers[0]
		for _, pf := range wp.parsers {
			if strings.HasPrefix(pf.Name(), "Read") {
				parser = pf
				break
			}
		}
		for vi, po := range parAssignOrders(p, parser, spec) {
			pOrder, posOf, ties := po.order, po.pos, po.ties
			key := wp.key + "/parser-order"
			if vi > 0 {
				key = fmt.Sprintf("%s/parser-order#%d", wp.key, vi+1)
			}
			if directInputSteps(parser, posOf) >= 2 {
				r.Ob("C02.L1", key, p.FnPos(parser), an.Discharged, "random-access parser: its offsets are decided by C01.R5 (key-block layout) instead of step order").Nontrivial = false
			} else if len(ties) > 0 || len(pOrder) != len(spec) {
				r.Ob("C02.L1", key, p.FnPos(parser), an.Undecided, "the parser's field order could not be extracted", "order: "+strings.Join(pOrder, ","), "ties: "+strings.Join(ties, " "))
			} else {
				r.Check(strings.Join(pOrder, ",") == strings.Join(spec, ","), "C02.L1", key, p.FnPos(parser),
					"the parser reads the fields in the specified wire order", "specified: "+strings.Join(spec, ","), "parser: "+strings.Join(pOrder, ","))
			}
		}
	}
	r.Floor("structures_checked_against_layout_table", checked, 8)

	// widths
	flow := an.NewFlow(p)
	for _, wp := range pairs {
		var sLeaves []an.Leaf
		for _, ret := range flow.OkReturns(wp.ser) {
			sl := &an.Slicer{P: p, Root: wp.ser, Through: an.AllArgs, MaxDepth: 10}
			sLeaves = append(sLeaves, sl.Leaves(ret.Results[0])...)
		}
		_, sMarks := topFields(sLeaves, 0, true)
		st := wp.T.Underlying().(*types.Struct)
		alias, _ := specFieldAlias(st, specLayouts[wp.key])
		tableName := map[string]string{}
		for t, a := range alias {
			tableName[a] = t
		}
		for i := 0; i < st.NumFields(); i++ {
			f := st.Field(i).Name()
			tf := f
			if t, ok := tableName[f]; ok {
				tf = t
			}
			want, ok := specWidths[wp.key+"."+tf]
			if !ok {
				continue
			}
			enc := codecWidths(sMarks[f], "binary.PutUint")
			r.Check(len(enc) == 1 && enc[0] == want, "C02.L1", wp.key+"."+f+"/width", p.FnPos(wp.ser),
				"field is encoded big-endian in the specified number of bits", "specified "+want, "encoded with PutUint{"+strings.Join(enc, ",")+"}")
		}
	}

	// L2 constants
	for _, c := range specConstants {
		v, ok := p.ConstInt(c.pkg, c.name)
		if !ok {
			r.Ob("C02.L2", c.pkg+"."+c.name, "-", an.Undecided, "constant not found (renamed or removed); the table must be brought in line")
			continue
		}
		o := r.Check(v == c.val, "C02.L2", c.pkg+"."+c.name, "-", fmt.Sprintf("constant has its specified value %d", c.val), fmt.Sprintf("value %d", v))
		o.Nontrivial = true
	}

	// count limits as guard regions: 1..16 entries, <=16 leases/keys
	c02Counts(p, r)
	c02SigTypeSource(p, r, "C02.L5")
	c01DistinctElements(p, r, "C02.L7") // a list of N encoded elements is read as N distinct elements
	c15TimeScaling(p, r, "C02.L9")      // 8-byte dates carry the constructor's instant to the millisecond (same rule as C15.A7)
	narrowArith(p, r, "C02.L10", nil)   // field lengths up to the specified maximum are accepted: length arithmetic cannot wrap (same rule as C03.S4)
	c01Block(p, r, "C02.L8")            // key alignment inside the 384-byte key block, writer and all readers, every size pair
	c11Threshold(p, r)                  // L6 (same rule as C11.M5): every well-formed final pair, down to 4 bytes, is read

	// L3
	ns := mappingSiteRule(p, r, "C02.L3")
	r.Floor("embedded_mapping_sites", ns, 4)
}

// c02Counts: the parsers' count guards accept exactly the specified ranges.
func c02Counts(p *an.Prog, r *an.Report) {
	type cg struct {
		fn     string
		accept an.IvSet
		what   string
	}
	for _, g := range []cg{
		{"lease_set2.validateLeaseInputs", an.IvRange(1, 16), "NewLeaseSet2 accepts 1..16 leases"},
		{"lease_set2.validateEncryptionKeyInputs", an.IvRange(1, 16), "NewLeaseSet2 accepts 1..16 encryption keys"},
	} {
		fn := p.Func(g.fn)
		if fn == nil {
			continue // helper renamed: the constants above still pin the limits
		}
		nonneg := an.IvRange(0, an.PosInf)
		checkRegion(p, r, "C02.L2", g.fn+"/count", fn, selLenOf(fn.Params[0]), nonneg, nonneg.Minus(g.accept), g.what, nil)
	}
	_ = ssa.Value(nil)
}

// c02SigTypeSource (L5): a LeaseSet2 / MetaLeaseSet / EncryptedLeaseSet ends with a signature whose
// type — and hence length — is the offline signature's *transient* signing type when offline keys
// are present, otherwise the destination's (blinded key's) type. In every parser and constructor of
// these structures, the type operand handed to the signature package must therefore be able to
// come from OfflineSignature.sigtype and never from OfflineSignature.destinationSigType.
func c02SigTypeSource(p *an.Prog, r *an.Report, rule string) {
	roots := []string{
		"lease_set2.ReadLeaseSet2", "meta_leaseset.ReadMetaLeaseSet", "encrypted_leaseset.ReadEncryptedLeaseSet",
		"lease_set2.NewLeaseSet2", "encrypted_leaseset.NewEncryptedLeaseSet",
	}
	isSigCtor := func(c ssa.CallInstruction) bool {
		callee := c.Common().StaticCallee()
		if callee == nil || !strings.HasSuffix(an.FnPkgPath(callee), "/signature") {
			return false
		}
		switch callee.Name() {
		case "ReadSignature", "NewSignature", "NewSignatureFromBytes":
			return true
		}
		return false
	}
	n := 0
	for _, name := range roots {
		fn := p.Func(name)
		if fn == nil {
			r.Fail(rule+": anchor %s not found", name)
			continue
		}
		chains := callChains(p, fn, isSigCtor, func(f *ssa.Function) bool {
			// stay inside the structure's own package
			return an.FnPkgPath(f) != an.FnPkgPath(fn)
		}, 8)
		for ci, ch := range chains {
			site := ch[len(ch)-1]
			args := site.Common().Args
			if len(args) < 2 {
				continue
			}
			n++
			leaves := leavesAt(p, fn, ch, args[1])
			var paths []string
			transient, destType := false, false
			for _, l := range leaves {
				desc := l.String()
				via := strings.Join(l.Via, " > ")
				paths = append(paths, desc+" via ["+via+"]")
				if strings.HasSuffix(l.Path, ".sigtype") || strings.Contains(via, "OfflineSignature).TransientSigType") {
					transient = true
				}
				if strings.HasSuffix(l.Path, ".destinationSigType") || strings.Contains(via, "OfflineSignature).DestinationSigType") {
					destType = true
				}
			}
			sort.Strings(paths)
			var bad []string
			if destType {
				bad = append(bad, "the signature type can come from OfflineSignature.destinationSigType (the type of the key that signed the offline block, not of the key that signs the structure)")
			}
			if !transient {
				bad = append(bad, "the signature type never comes from the offline signature's transient key type")
			}
			r.Check(len(bad) == 0, rule, fmt.Sprintf("%s/signature-type#%d", fn.Name(), ci+1), p.Pos(site.Pos()),
				"with offline keys the trailing signature is typed (and sized) by the transient key type", append(bad, "origins of the type operand: "+strings.Join(paths, ", "))...)
		}
	}
	if n < 4 {
		r.Fail(rule+": only %d signature construction sites found in the offline-capable structures (expected at least 4)", n)
	}
}

// specFieldAlias matches the field names of the layout table with the struct. A table name the
// struct no longer has is matched to the one struct field that is not named by the table and is
// declared between the table's neighbouring fields (an unexported field renamed in place).
// missing=true when some table field cannot be matched unambiguously.
func specFieldAlias(st *types.Struct, spec []string) (alias map[string]string, missing bool) {
	idx := map[string]int{}
	for i := 0; i < st.NumFields(); i++ {
		idx[st.Field(i).Name()] = i
	}
	inSpec := map[string]bool{}
	for _, f := range spec {
		inSpec[f] = true
	}
	alias = map[string]string{}
	for i, f := range spec {
		if _, ok := idx[f]; ok {
			continue
		}
		lo, hi := -1, st.NumFields()
		for j := i - 1; j >= 0; j-- {
			if k, ok := idx[spec[j]]; ok {
				lo = k
				break
			}
		}
		for j := i + 1; j < len(spec); j++ {
			if k, ok := idx[spec[j]]; ok {
				hi = k
				break
			}
		}
		var cands []string
		for k := lo + 1; k < hi; k++ {
			n := st.Field(k).Name()
			if !inSpec[n] {
				cands = append(cands, n)
			}
		}
		if len(cands) != 1 {
			return nil, true
		}
		alias[f] = cands[0]
	}
	return alias, false
}
