package rules

import (
	"fmt"
	"go/token"
	"go/types"
	"math/big"
	"sort"
	"strings"

	"golang.org/x/tools/go/ssa"

	"verif/checker/internal/an"
)

func init() { Registry["C15"] = C15 }

func isTimeType(t types.Type) bool {
	p, n := an.NamedOf(t)
	return (p == "time" && n == "Time") || (p == an.ModPath+"/data" && n == "Date")
}

// timeFunctions: library functions with a time.Time / data.Date parameter or result, plus
// IsExpired-style predicates (methods returning bool that call time.Now).
func timeFunctions(p *an.Prog) []*ssa.Function {
	var out []*ssa.Function
	for _, fn := range p.RepoFns {
		if len(fn.Blocks) == 0 || fn.Synthetic != "" {
			continue
		}
		hit := false
		sig := fn.Signature
		for i := 0; i < sig.Params().Len(); i++ {
			if isTimeType(sig.Params().At(i).Type()) {
				hit = true
			}
		}
		for i := 0; i < sig.Results().Len(); i++ {
			if isTimeType(sig.Results().At(i).Type()) {
				hit = true
			}
		}
		if sig.Recv() != nil && isTimeType(sig.Recv().Type()) {
			hit = true
		}
		if !hit && callsFn(fn, "time", "Now") {
			hit = true
		}
		if hit {
			out = append(out, fn)
		}
	}
	return out
}

func callsFn(fn *ssa.Function, pkg, name string) bool {
	for _, b := range fn.Blocks {
		for _, in := range b.Instrs {
			if c, ok := in.(ssa.CallInstruction); ok && isFn(c.Common().StaticCallee(), pkg, name) {
				return true
			}
		}
	}
	return false
}

// ---- units ----------------------------------------------------------------------------------

// unit is a power-of-ten time unit relative to seconds: exp 0 = s, 3 = ms, 6 = µs, 9 = ns.
// base != nil means "unit of parameter base, shifted by exp".
type unit struct {
	known bool
	dl    bool // dimensionless constant
	base  *ssa.Parameter
	exp   int
	why   string
}

func (u unit) String() string {
	if !u.known {
		return "unknown(" + u.why + ")"
	}
	if u.dl {
		return "constant"
	}
	names := map[int]string{0: "s", 3: "ms", 6: "µs", 9: "ns"}
	if u.base != nil {
		return fmt.Sprintf("unit(%s)·10^%d", u.base.Name(), u.exp)
	}
	if n, ok := names[u.exp]; ok {
		return n
	}
	return fmt.Sprintf("s·10^-%d", u.exp)
}

func pow10(c *ssa.Const) (int, bool) {
	if c.Value == nil {
		return 0, false
	}
	bi, ok := new(big.Int).SetString(c.Value.ExactString(), 10)
	if !ok || bi.Sign() <= 0 {
		return 0, false
	}
	n := 0
	ten := big.NewInt(10)
	for bi.Cmp(big.NewInt(1)) > 0 {
		q, r := new(big.Int).QuoRem(bi, ten, new(big.Int))
		if r.Sign() != 0 {
			return 0, false
		}
		bi = q
		n++
	}
	return n, true
}

func unitOf(v ssa.Value, depth int) unit {
	if depth > 10 {
		return unit{why: "too deep"}
	}
	switch x := v.(type) {
	case *ssa.Const:
		return unit{known: true, dl: true}
	case *ssa.Parameter:
		if isIntegerType(x.Type()) {
			return unit{known: true, base: x}
		}
	case *ssa.Convert:
		return unitOf(x.X, depth+1)
	case *ssa.ChangeType:
		return unitOf(x.X, depth+1)
	case *ssa.BinOp:
		a, b := unitOf(x.X, depth+1), unitOf(x.Y, depth+1)
		switch x.Op {
		case token.MUL:
			if c, ok := x.Y.(*ssa.Const); ok {
				if k, ok := pow10(c); ok && a.known && !a.dl {
					a.exp += k
					return a
				}
			}
			if c, ok := x.X.(*ssa.Const); ok {
				if k, ok := pow10(c); ok && b.known && !b.dl {
					b.exp += k
					return b
				}
			}
			if a.known && b.known && a.dl && b.dl {
				return a
			}
			return unit{why: "multiplication by a non-power-of-ten or non-constant"}
		case token.QUO:
			if c, ok := x.Y.(*ssa.Const); ok {
				if k, ok := pow10(c); ok && a.known && !a.dl {
					a.exp -= k
					return a
				}
			}
			return unit{why: "division by a non-power-of-ten or non-constant"}
		case token.REM:
			return a
		case token.ADD, token.SUB:
			if a.known && b.known {
				if a.dl {
					return b
				}
				if b.dl || (a.base == b.base && a.exp == b.exp) {
					return a
				}
				return unit{why: fmt.Sprintf("adds %s and %s", a, b)}
			}
		}
		return unit{why: "operator " + x.Op.String()}
	case *ssa.UnOp:
		if x.Op == token.MUL {
			if _, ok := x.X.(*ssa.FieldAddr); ok && isIntegerType(x.Type()) {
				return unit{known: true} // 2- and 4-byte wire time fields are seconds
			}
		}
	case *ssa.Field:
		if isIntegerType(x.Type()) {
			return unit{known: true}
		}
	case *ssa.Phi:
		var u *unit
		for _, e := range x.Edges {
			w := unitOf(e, depth+1)
			if !w.known {
				return w
			}
			if w.dl {
				continue
			}
			if u == nil {
				u = &w
			} else if u.base != w.base || u.exp != w.exp {
				return unit{why: "phi of different units"}
			}
		}
		if u != nil {
			return *u
		}
		return unit{known: true, dl: true}
	case *ssa.Call:
		callee := x.Call.StaticCallee()
		if callee == nil {
			return unit{why: "dynamic call"}
		}
		pkg, name := an.FnPkgPath(callee), callee.Name()
		switch {
		case pkg == "encoding/binary" && (name == "Uint32" || name == "Uint16"):
			return unit{known: true}
		case pkg == "encoding/binary" && name == "Uint64":
			return unit{known: true, exp: 3}
		case pkg == "time" && name == "Unix" && callee.Signature.Recv() != nil:
			return unit{known: true}
		case pkg == "time" && name == "UnixMilli" && callee.Signature.Recv() != nil:
			return unit{known: true, exp: 3}
		case pkg == "time" && name == "UnixMicro" && callee.Signature.Recv() != nil:
			return unit{known: true, exp: 6}
		case pkg == "time" && name == "UnixNano" && callee.Signature.Recv() != nil:
			return unit{known: true, exp: 9}
		case an.InLib(callee) && name == "Int" && callee.Signature.Recv() != nil:
			// Integer(date[:]).Int() / Date.Int(): an 8-byte wire date in milliseconds
			return unit{known: true, exp: 3}
		case an.InLib(callee) && len(callee.Blocks) > 0 && callee.Signature.Results().Len() == 1 && isIntegerType(callee.Signature.Results().At(0).Type()):
			var u *unit
			for _, ret := range an.Returns(callee) {
				w := unitOf(ret.Results[0], depth+1)
				if !w.known {
					return w
				}
				if w.base != nil {
					return unit{why: "callee result depends on its parameter"}
				}
				if u == nil {
					u = &w
				} else if u.exp != w.exp || u.dl != w.dl {
					return unit{why: "callee returns different units"}
				}
			}
			if u != nil {
				return *u
			}
		}
		return unit{why: "call of " + an.FnKey(callee)}
	}
	return unit{why: fmt.Sprintf("%T", v)}
}

type unitSink struct {
	arg  ssa.Value
	want int
	what string
	pos  token.Pos
}

func unitSinks(fn *ssa.Function) []unitSink {
	var out []unitSink
	for _, b := range fn.Blocks {
		for _, in := range b.Instrs {
			c, ok := in.(*ssa.Call)
			if !ok {
				continue
			}
			callee := c.Call.StaticCallee()
			if callee == nil {
				continue
			}
			pkg, name := an.FnPkgPath(callee), callee.Name()
			args := c.Call.Args
			switch {
			case pkg == "time" && name == "Unix" && callee.Signature.Recv() == nil:
				out = append(out, unitSink{args[0], 0, "time.Unix seconds argument", c.Pos()}, unitSink{args[1], 9, "time.Unix nanoseconds argument", c.Pos()})
			case pkg == "time" && name == "UnixMilli" && callee.Signature.Recv() == nil:
				out = append(out, unitSink{args[0], 3, "time.UnixMilli argument", c.Pos()})
			case pkg == "time" && name == "UnixMicro" && callee.Signature.Recv() == nil:
				out = append(out, unitSink{args[0], 6, "time.UnixMicro argument", c.Pos()})
			case pkg == "time" && name == "Add" && callee.Signature.Recv() != nil:
				out = append(out, unitSink{args[1], 9, "time.Time.Add duration", c.Pos()})
			case pkg == "encoding/binary" && name == "AppendUint64" && len(args) >= 3:
				out = append(out, unitSink{args[2], 3, "8-byte wire date (milliseconds)", c.Pos()})
			case pkg == "encoding/binary" && name == "AppendUint32" && len(args) >= 3:
				out = append(out, unitSink{args[2], 0, "4-byte wire time (seconds)", c.Pos()})
			case pkg == "encoding/binary" && name == "PutUint64":
				out = append(out, unitSink{args[2], 3, "8-byte wire date (milliseconds)", c.Pos()})
			case pkg == "encoding/binary" && name == "PutUint32":
				out = append(out, unitSink{args[2], 0, "4-byte wire time (seconds)", c.Pos()})
			}
		}
	}
	return out
}

func C15(p *an.Prog, r *an.Report) {
	r.Explanation = "For every library function that takes or yields a time.Time/data.Date (and every predicate calling time.Now): (A1) each integer +,-,*,<< and each integer conversion is shown unable to leave its type's range given the type-derived ranges of its operands (wire uint16/uint32 fields, constants, call results), in arbitrary precision — so second/millisecond arithmetic cannot wrap for any field value; same-width signed/unsigned reinterpretations of 8-byte millisecond dates are admitted under the property's own domain assumption (< 2^63). (A2) narrowing conversions must be reached only with fitting values (interval partitioning), and NewLease2 rejects exactly times outside [0, 2^32-1] seconds. (A5) a unit analysis (s/ms/µs/ns as powers of ten) checks every time.Unix/UnixMilli/Add/PutUint32/PutUint64 argument carries the unit the sink expects. (A3) each IsExpired compares time.Now with the receiver's own expiry accessor in the right direction. (A4) Newest/OldestExpiration update their accumulator only with Date() of the receiver's leases under After/Before respectively. Does not decide the day-past/day-future outcomes as values. (A7) millisecond/second counts are not obtained by scaling UnixNano() (undefined outside 1678..2262) or Unix() (drops the sub-second part)."
	r.Rule = "one obligation per arithmetic instruction / conversion / sink / predicate in the time functions; non-trivial = at least one operand is not a constant"
	r.Trusted = []string{"package time", "go/ssa"}
	r.Assumptions = []string{"8-byte millisecond dates are below 2^63 (property text)", "int is 64 bits"}
	fns := timeFunctions(p)
	r.Floor("time_functions", len(fns), 25)
	flow := an.NewFlow(p)
	_ = flow
	nArith, nSinks := 0, 0
	for _, fn := range fns {
		// A1
		for _, b := range fn.Blocks {
			for _, in := range b.Instrs {
				if an.IsLogPlumbing(in) {
					continue
				}
				switch x := in.(type) {
				case *ssa.BinOp:
					if !isIntegerType(x.Type()) {
						continue
					}
					switch x.Op {
					case token.ADD, token.SUB, token.MUL, token.SHL:
					default:
						continue
					}
					if isLoopCounter(x) {
						continue
					}
					nArith++
					bad, exact, typ := an.Overflow(x)
					key := fmt.Sprintf("%s/%s %s", an.FnKey(fn), x.Op, intTypeName(x.Type()))
					o := r.Check(!bad, "C15.A1", key, p.Pos(x.Pos()), "integer arithmetic cannot leave its type's range for any operand values",
						"exact range "+exact.String(), "type range "+typ.String(), "operands "+an.RangeOf(x.X).String()+" "+x.Op.String()+" "+an.RangeOf(x.Y).String())
					_, c1 := x.X.(*ssa.Const)
					_, c2 := x.Y.(*ssa.Const)
					o.Nontrivial = !(c1 && c2)
				case *ssa.Convert:
					if !isIntegerType(x.Type()) || !isIntegerType(x.X.Type()) {
						continue
					}
					bad, exact, typ := an.Overflow(x)
					if !bad {
						continue // widening or provably fitting: not an obligation worth listing
					}
					nArith++
					key := fmt.Sprintf("%s/%s(%s)", an.FnKey(fn), intTypeName(x.Type()), intTypeName(x.X.Type()))
					if isReinterpret64(x) {
						r.Ob("C15.A1", key, p.Pos(x.Pos()), an.Discharged, "same-width reinterpretation of a 64-bit millisecond/second count (exact under the property's domain assumption: dates below 2^63)")
						continue
					}
					fits, reach, err := narrowingFits(p, fn, x)
					if err != nil {
						r.Ob("C15.A2", key, p.Pos(x.Pos()), an.Undecided, "range at the conversion could not be extracted: "+err.Error())
						continue
					}
					r.Check(fits, "C15.A2", key, p.Pos(x.Pos()), "narrowing conversion is reached only with values that fit (dominated by a range guard)",
						"values reaching it "+reach.String(), "operand range "+exact.String(), "target "+typ.String())
				}
			}
		}
		// A5
		cons := map[*ssa.Parameter]map[int]string{}
		for _, s := range unitSinks(fn) {
			u := unitOf(s.arg, 0)
			key := fmt.Sprintf("%s/%s", an.FnKey(fn), s.what)
			if !u.known {
				// an argument the analysis cannot attribute (opaque call): only a violation if it
				// contains scaling arithmetic; otherwise nothing to compare
				if strings.Contains(u.why, "non-power-of-ten") || strings.Contains(u.why, "adds ") || strings.Contains(u.why, "different units") {
					nSinks++
					r.Ob("C15.A5", key, p.Pos(s.pos), an.Violated, "time value is scaled/combined inconsistently before reaching "+s.what, u.String())
				}
				continue
			}
			if u.dl {
				continue
			}
			nSinks++
			if u.base != nil {
				if cons[u.base] == nil {
					cons[u.base] = map[int]string{}
				}
				cons[u.base][s.want-u.exp] = s.what
				continue
			}
			r.Check(u.exp == s.want, "C15.A5", key, p.Pos(s.pos), fmt.Sprintf("%s receives a value in the unit it expects", s.what), "argument unit "+u.String())
		}
		for prm, m := range cons {
			var ks []string
			for e, w := range m {
				ks = append(ks, fmt.Sprintf("%s needs unit 10^-%d s", w, e))
			}
			sort.Strings(ks)
			r.Check(len(m) == 1, "C15.A5", an.FnKey(fn)+"/param "+prm.Name(), p.FnPos(fn), "all sinks agree on the unit of the parameter", ks...)
		}
	}
	c15TimeScaling(p, r, "C15.A7")
	// A6: published + expires provenance
	n6 := 0
	for _, fn := range fns {
		for _, b := range fn.Blocks {
			for _, in := range b.Instrs {
				c, ok := in.(*ssa.Call)
				if !ok {
					continue
				}
				callee := c.Call.StaticCallee()
				if callee == nil || an.FnPkgPath(callee) != "time" || callee.Name() != "Add" || callee.Signature.Recv() == nil {
					continue
				}
				base, dur := leafFields(c.Call.Args[0], 0), leafFields(c.Call.Args[1], 0)
				if len(base) == 0 && len(dur) == 0 {
					continue
				}
				n6++
				ok1, ok2 := true, true
				for _, f := range base {
					if !strings.Contains(strings.ToLower(f), "publish") {
						ok1 = false
					}
				}
				for _, f := range dur {
					if !strings.Contains(strings.ToLower(f), "expir") {
						ok2 = false
					}
				}
				r.Check(ok1 && ok2 && len(base) > 0 && len(dur) > 0, "C15.A6", an.FnKey(fn)+"/published+expires", p.Pos(c.Pos()),
					"absolute expiry is the structure's published time plus its expires offset", "base fields "+strings.Join(base, ","), "offset fields "+strings.Join(dur, ","))
			}
		}
	}
	r.Analysed["published_plus_expires_sites"] = n6
	r.Analysed["arithmetic_instructions_checked"] = nArith
	r.Analysed["unit_sinks_checked"] = nSinks

	// A2: NewLease2 region
	if fn := p.Func("lease.NewLease2"); fn != nil {
		sel := func(ev *an.PEval, v ssa.Value, args []an.AV) bool {
			c, ok := v.(*ssa.Call)
			return ok && c.Parent() == fn && isFn(c.Call.StaticCallee(), "time", "Unix") && c.Call.StaticCallee().Signature.Recv() != nil
		}
		all := an.IvAll()
		checkRegion(p, r, "C15.A2", "lease.NewLease2/unix-seconds", fn, sel, all, all.Minus(an.IvRange(0, 1<<32-1)), "rejects exactly expiry times outside [0, 2^32-1] seconds", nil)
	} else {
		r.Fail("C15.A2: anchor lease.NewLease2 not found")
	}

	// A3: IsExpired predicates
	n3 := 0
	for _, fn := range p.RepoFns {
		if fn.Name() != "IsExpired" || fn.Signature.Recv() == nil || fn.Synthetic != "" || len(fn.Blocks) == 0 {
			continue
		}
		n3++
		c15IsExpired(p, r, fn)
	}
	r.Floor("IsExpired_predicates", n3, 6)

	// A4
	for _, name := range []string{"NewestExpiration", "OldestExpiration"} {
		fn := p.Func("lease_set.(LeaseSet)." + name)
		if fn == nil {
			r.Fail("C15.A4: anchor lease_set.(LeaseSet).%s not found", name)
			continue
		}
		c15Extremum(p, r, fn, name == "NewestExpiration")
	}
}

// isLoopCounter: i+1 / i-1 feeding a phi of itself (range loops, counters).
func isLoopCounter(x *ssa.BinOp) bool {
	if x.Op != token.ADD && x.Op != token.SUB {
		return false
	}
	if c, ok := x.Y.(*ssa.Const); !ok || c.Value == nil {
		return false
	}
	ph, ok := x.X.(*ssa.Phi)
	if !ok {
		return false
	}
	for _, e := range ph.Edges {
		if e == ssa.Value(x) {
			return true
		}
	}
	return false
}

// stripUTC follows (time.Time).UTC() / In / Local wrappers.
func stripUTC(v ssa.Value) ssa.Value {
	for {
		c, ok := v.(*ssa.Call)
		if !ok {
			return v
		}
		callee := c.Call.StaticCallee()
		if callee != nil && an.FnPkgPath(callee) == "time" && callee.Signature.Recv() != nil && (callee.Name() == "UTC" || callee.Name() == "Local") {
			v = c.Call.Args[0]
			continue
		}
		return v
	}
}

func isNow(v ssa.Value) bool {
	c, ok := stripUTC(v).(*ssa.Call)
	return ok && isFn(c.Call.StaticCallee(), "time", "Now")
}

// ownExpiry: call of an expiry accessor (Time / ExpirationTime / ExpiresTime) on the receiver.
func ownExpiry(v ssa.Value, fn *ssa.Function) (string, bool) {
	c, ok := stripUTC(v).(*ssa.Call)
	if !ok {
		return "", false
	}
	callee := c.Call.StaticCallee()
	if callee == nil || !an.InLib(callee) || callee.Signature.Recv() == nil || len(c.Call.Args) != 1 {
		return "", false
	}
	recv := c.Call.Args[0]
	if u, ok := recv.(*ssa.UnOp); ok && u.Op == token.MUL {
		recv = u.X
	}
	recv = an.Canon(recv)
	if recv != ssa.Value(fn.Params[0]) && c.Call.Args[0] != ssa.Value(fn.Params[0]) {
		// value receivers are spilled to a local and reloaded
		if a, ok := recv.(*ssa.Alloc); !ok || !storesParam(a, fn.Params[0]) {
			return callee.Name(), false
		}
	}
	switch callee.Name() {
	case "Time", "ExpirationTime", "ExpiresTime":
		return callee.Name(), true
	}
	return callee.Name(), false
}

func storesParam(a *ssa.Alloc, prm *ssa.Parameter) bool {
	for _, ref := range *a.Referrers() {
		if st, ok := ref.(*ssa.Store); ok && st.Addr == ssa.Value(a) && st.Val == ssa.Value(prm) {
			return true
		}
	}
	return false
}

func c15IsExpired(p *an.Prog, r *an.Report, fn *ssa.Function) {
	key := an.FnKey(fn)
	rets := an.Returns(fn)
	ok := len(rets) == 1
	var facts []string
	if ok {
		c, isCall := rets[0].Results[0].(*ssa.Call)
		callee := (*ssa.Function)(nil)
		if isCall {
			callee = c.Call.StaticCallee()
		}
		switch {
		case callee != nil && an.FnPkgPath(callee) == "time" && callee.Name() == "After":
			acc, good := ownExpiry(c.Call.Args[1], fn)
			ok = isNow(c.Call.Args[0]) && good
			facts = append(facts, "now.After("+acc+")")
		case callee != nil && an.FnPkgPath(callee) == "time" && callee.Name() == "Before":
			acc, good := ownExpiry(c.Call.Args[0], fn)
			ok = isNow(c.Call.Args[1]) && good
			facts = append(facts, acc+".Before(now)")
		default:
			ok = false
			facts = append(facts, "result is not a time.Time After/Before comparison")
		}
	} else {
		facts = append(facts, fmt.Sprintf("%d returns", len(rets)))
	}
	r.Check(ok, "C15.A3", key, p.FnPos(fn), "IsExpired is time.Now() after the receiver's own expiry accessor", facts...)
}

// c15Extremum checks the accumulator pattern of Newest/OldestExpiration.
func c15Extremum(p *an.Prog, r *an.Report, fn *ssa.Function, newest bool) {
	key := an.FnKey(fn)
	want := "Before"
	if newest {
		want = "After"
	}
	// result phi at the loop header: edges = initial element Date(), and the body's choice
	var bad []string
	found := false
	isLeaseDate := func(v ssa.Value) bool {
		c, ok := v.(*ssa.Call)
		if !ok {
			return false
		}
		callee := c.Call.StaticCallee()
		return callee != nil && callee.Name() == "Date" && an.IsLibNamed(recvType(callee), "lease", "Lease")
	}
	for _, b := range fn.Blocks {
		iff, ok := b.Instrs[len(b.Instrs)-1].(*ssa.If)
		if !ok {
			continue
		}
		c, ok := iff.Cond.(*ssa.Call)
		if !ok {
			continue
		}
		callee := c.Call.StaticCallee()
		if callee == nil || an.FnPkgPath(callee) != "time" || (callee.Name() != "After" && callee.Name() != "Before") {
			continue
		}
		// operands: candidate.Time() and accumulator.Time()
		timeOf := func(v ssa.Value) ssa.Value {
			tc, ok := v.(*ssa.Call)
			if !ok || tc.Call.StaticCallee() == nil || tc.Call.StaticCallee().Name() != "Time" {
				return nil
			}
			return an.Canon(tc.Call.Args[0])
		}
		cand, acc := timeOf(c.Call.Args[0]), timeOf(c.Call.Args[1])
		if cand == nil || acc == nil {
			continue
		}
		found = true
		if callee.Name() != want {
			bad = append(bad, fmt.Sprintf("accumulator is replaced when candidate.%s(accumulator) at %s; expected %s", callee.Name(), p.Pos(c.Pos()), want))
		}
		if !isLeaseDate(cand) {
			bad = append(bad, "candidate is not Date() of a lease at "+p.Pos(c.Pos()))
		}
		// the accumulator phi takes the candidate on the true edge only
		ph, ok := acc.(*ssa.Phi)
		if !ok {
			bad = append(bad, "accumulator is not a loop-carried value")
			continue
		}
		okEdges := true
		for _, e := range ph.Edges {
			e = an.Canon(e)
			if isLeaseDate(e) || e == ssa.Value(ph) {
				continue
			}
			if ph2, ok := e.(*ssa.Phi); ok {
				for _, e2 := range ph2.Edges {
					e2 = an.Canon(e2)
					if !(isLeaseDate(e2) || e2 == ssa.Value(ph)) {
						okEdges = false
					}
				}
				continue
			}
			okEdges = false
		}
		if !okEdges {
			bad = append(bad, "accumulator receives a value that is not Date() of one of the leases")
		}
	}
	if !found {
		bad = append(bad, "no candidate.Time().After/Before(accumulator.Time()) comparison found")
	}
	// every success return yields the accumulator
	r.Check(len(bad) == 0, "C15.A4", key, p.FnPos(fn), "extremum accumulator only ever holds Date() of one of the receiver's leases and is replaced under "+want, bad...)
}

// leafFields lists the struct fields an expression is computed from (through conversions,
// arithmetic, time wrappers and library accessors).
func leafFields(v ssa.Value, depth int) []string {
	if depth > 8 {
		return nil
	}
	switch x := v.(type) {
	case *ssa.Convert:
		return leafFields(x.X, depth+1)
	case *ssa.ChangeType:
		return leafFields(x.X, depth+1)
	case *ssa.BinOp:
		return append(leafFields(x.X, depth+1), leafFields(x.Y, depth+1)...)
	case *ssa.UnOp:
		if fa, ok := x.X.(*ssa.FieldAddr); ok {
			return []string{fieldNameOf(fa.X.Type(), fa.Field)}
		}
	case *ssa.Field:
		return []string{fieldNameOf(x.X.Type(), x.Field)}
	case *ssa.Call:
		callee := x.Call.StaticCallee()
		if callee == nil {
			return nil
		}
		if an.FnPkgPath(callee) == "time" {
			var out []string
			for _, a := range x.Call.Args {
				out = append(out, leafFields(a, depth+1)...)
			}
			return out
		}
		if an.InLib(callee) && len(callee.Blocks) > 0 {
			var out []string
			for _, ret := range an.Returns(callee) {
				for _, rv := range ret.Results {
					out = append(out, leafFields(rv, depth+1)...)
				}
			}
			return out
		}
	}
	return nil
}

func fieldNameOf(t types.Type, i int) string {
	t = an.Deref(t)
	if st, ok := t.Underlying().(*types.Struct); ok && i < st.NumFields() {
		return st.Field(i).Name()
	}
	return "?"
}

// c15TimeScaling (A7; also C02.L9): millisecond/second counts written to the wire are taken with
// the exact accessors.
func c15TimeScaling(p *an.Prog, r *an.Report, rule string) {
	// A7: millisecond/second counts are not derived from UnixNano(): its result is undefined for
	// instants outside 1678..2262 (int64 nanoseconds), while the wire fields hold milliseconds up to
	// 2^63 — UnixMilli()/Unix() are exact for every representable time
	n7 := 0
	for _, fn := range p.RepoFns {
		if !an.InLib(fn) || len(fn.Blocks) == 0 {
			continue
		}
		for _, b := range fn.Blocks {
			for _, in := range b.Instrs {
				c, ok := in.(*ssa.Call)
				if !ok {
					continue
				}
				callee := c.Call.StaticCallee()
				if callee != nil && an.FnKey(callee) == "(time.Time).Unix" {
					// seconds scaled up to a finer unit: the sub-second part of the instant is lost
					// (an 8-byte millisecond field would carry a whole-second value)
					n7++
					up := ""
					if c.Referrers() != nil {
						for _, ref := range *c.Referrers() {
							if bo, ok := ref.(*ssa.BinOp); ok && bo.Op == token.MUL {
								for _, o := range []ssa.Value{bo.X, bo.Y} {
									if k, ok := o.(*ssa.Const); ok && k.Value != nil && k.Int64() >= 1000 {
										up = p.Pos(bo.Pos())
									}
								}
							}
						}
					}
					r.Check(up == "", rule, an.FnKey(fn)+"/Unix", p.Pos(c.Pos()),
						"a millisecond count is not obtained by scaling Unix() seconds up (the sub-second part would be dropped; UnixMilli() is exact)", "scaled at "+up)
					continue
				}
				if callee == nil || an.FnKey(callee) != "(time.Time).UnixNano" {
					continue
				}
				n7++
				scaled := ""
				seen := map[ssa.Value]bool{}
				var walk func(v ssa.Value, d int)
				walk = func(v ssa.Value, d int) {
					if d > 6 || seen[v] || v.Referrers() == nil {
						return
					}
					seen[v] = true
					for _, ref := range *v.Referrers() {
						switch x := ref.(type) {
						case *ssa.BinOp:
							if x.Op == token.QUO || x.Op == token.SHR {
								scaled = p.Pos(x.Pos())
								return
							}
							walk(x, d+1)
						case *ssa.Convert:
							walk(x, d+1)
						case *ssa.Phi:
							walk(x, d+1)
						}
					}
				}
				walk(c, 0)
				r.Check(scaled == "", rule, an.FnKey(fn)+"/UnixNano", p.Pos(c.Pos()),
					"a millisecond or second count is not obtained by scaling UnixNano() (undefined outside 1678..2262; UnixMilli()/Unix() are exact for every representable instant)",
					"scaled at "+scaled)
			}
		}
	}
	r.Analysed["Unix/UnixNano calls"] = n7
}
