package rules

import (
	"fmt"
	"go/types"
	"regexp"
	"sort"
	"strings"

	"golang.org/x/tools/go/ssa"

	"verif/checker/internal/an"
)

func init() { Registry["C06"] = C06 }

// signPrimitive: cryptographic signing primitives.
func signPrimitive(call ssa.CallInstruction) bool {
	c := call.Common()
	if c.IsInvoke() {
		return (c.Method.Name() == "Sign" || c.Method.Name() == "SignHash") && c.Method.Pkg() != nil &&
			(c.Method.Pkg().Path() == cryptoTypesPkg || c.Method.Pkg().Path() == "crypto")
	}
	f := c.StaticCallee()
	if f == nil {
		return false
	}
	pkg := an.FnPkgPath(f)
	if pkg == "crypto/ed25519" && f.Name() == "Sign" {
		return true
	}
	if strings.HasPrefix(pkg, "github.com/go-i2p/crypto/") && f.Signature.Recv() != nil && (f.Name() == "Sign" || f.Name() == "SignHash") {
		return true
	}
	return false
}

var keyParamRE = regexp.MustCompile(`(?i)(signing|private).*key|privkey`)

// signingKeyParam returns the index of the parameter that carries a signing private key:
// a parameter of a private-key type, or an interface-typed parameter whose name says so.
func signingKeyParam(fn *ssa.Function) int {
	for i, p := range fn.Params {
		if pk, n := an.NamedOf(p.Type()); (pk == cryptoTypesPkg && n == "SigningPrivateKey") || (pk == "crypto/ed25519" && n == "PrivateKey") {
			return i
		}
	}
	for i, p := range fn.Params {
		if pk, _ := an.NamedOf(p.Type()); pk != "" {
			continue // a named (public key, certificate, ...) type
		}
		if _, isIface := p.Type().Underlying().(*types.Interface); !isIface {
			continue
		}
		if keyParamRE.MatchString(p.Name()) && !strings.Contains(strings.ToLower(p.Name()), "public") {
			return i
		}
	}
	return -1
}

// hasSignatureField: the constructor's first result is (a pointer to) a struct with a field "signature".
func hasSignatureField(fn *ssa.Function) bool {
	res := fn.Signature.Results()
	if res.Len() == 0 {
		return false
	}
	st, ok := an.Deref(res.At(0).Type()).Underlying().(*types.Struct)
	if !ok {
		return false
	}
	for i := 0; i < st.NumFields(); i++ {
		if st.Field(i).Name() == "signature" {
			return true
		}
	}
	return false
}

// signOperands returns the indices (in the receiver-first argument list) of key and message.
func signOperands(call *ssa.Call) (keyIdx, msgIdx int) {
	var types_ []types.Type
	if call.Call.IsInvoke() {
		types_ = append(types_, call.Call.Value.Type())
	}
	for _, a := range call.Call.Args {
		types_ = append(types_, a.Type())
	}
	keyIdx, msgIdx = 0, -1
	for i := 1; i < len(types_); i++ {
		if types_[i].String() == "[]byte" {
			msgIdx = i
			break
		}
	}
	return
}

func paramSet(ls []an.Leaf) map[int]bool {
	m := map[int]bool{}
	for _, l := range ls {
		if l.Kind == an.LParam && !l.LenOnly {
			m[l.Param] = true
		}
	}
	return m
}

func paramNames(fn *ssa.Function, m map[int]bool) string {
	var s []string
	for i := range m {
		if i >= 0 && i < len(fn.Params) {
			s = append(s, fn.Params[i].Name())
		}
	}
	sort.Strings(s)
	return strings.Join(s, ",")
}

func C06(p *an.Prog, r *an.Report) {
	r.Explanation = "Signing constructors are discovered as exported New*/Create* functions that take a signing private key. For each: (G1a) the signature stored in the returned structure, sliced backwards field-sensitively, must originate from a cryptographic signing primitive (types.Signer.Sign, ed25519.Sign) — a constructor that accepts a key but stores a signature that no signing operation produced is reported; (G1b) every constructor argument that flows into the returned structure also flows into the signed message (nothing is stored unsigned), and the message has no origin outside the arguments and constants; (G1c) the signing key operand originates from the key parameter; (G2) the byte producer on the signing side is the same library function as on the verifying side (C05's message operand) or, for twin producers, draws on the same set of structure fields with the same shallow prefix constants. Whether verification then succeeds for all contents additionally rests on C01 (re-serialisation) and C11 (canonical options). G3: a parsed list keeps distinct elements (needed for parse-then-verify); G4: the verifier's key object is reached through the identity's KeysAndCert. G6: the mapping reader yields only strings from the one string reader (C11.M7). G7: the parser's length arithmetic cannot wrap (C03.S4). G8 = C11.M5: every pair the mapping writer can emit is attempted by the mapping reader, so signed options parse back from their own wire form."
	r.Rule = "one obligation per constructor and clause; non-trivial = constructor resolved with a signing-key parameter"
	r.Trusted = []string{"go-i2p/crypto signers, crypto/ed25519", "go/ssa"}
	flow := an.NewFlow(p)
	var ctors []*ssa.Function
	for _, fn := range p.ExportedAPI() {
		if fn.Signature.Recv() != nil || fn.Synthetic != "" || len(fn.Blocks) == 0 {
			continue
		}
		if !(strings.HasPrefix(fn.Name(), "New") || strings.HasPrefix(fn.Name(), "Create")) {
			continue
		}
		if signingKeyParam(fn) < 0 || !hasSignatureField(fn) {
			continue
		}
		ctors = append(ctors, fn)
	}
	r.Floor("signing_constructors", len(ctors), 5)
	stopSign := func(call ssa.CallInstruction, callee *ssa.Function) bool { return signPrimitive(call) }
	for _, fn := range ctors {
		key := an.FnKey(fn)
		pos := p.FnPos(fn)
		kp := signingKeyParam(fn)
		oks := flow.OkReturns(fn)
		if len(oks) == 0 {
			r.Ob("C06.G1", key+"/signature-origin", pos, an.Undecided, "no success return")
			continue
		}
		// delegating constructors (e.g. ...FromDestination): result is another constructor's result
		delegates := false
		for _, ret := range oks {
			if c, ok := an.Canon(ret.Results[0]).(*ssa.Extract); ok {
				if call, ok := c.Tuple.(*ssa.Call); ok {
					for _, o := range ctors {
						if call.Call.StaticCallee() == o {
							delegates = true
						}
					}
				}
			}
		}
		if delegates {
			r.Ob("C06.G1", key+"/delegates", pos, an.Discharged, "returns the result of another signing constructor (checked there)")
			continue
		}
		var signLeaves []an.Leaf
		var allSigLeaves []an.Leaf
		for _, ret := range oks {
			sl := &an.Slicer{P: p, Root: fn, Through: an.AllArgs, MaxDepth: 10, StopAt: stopSign}
			ls := sl.LeavesOfField(ret.Results[0], ".signature")
			allSigLeaves = append(allSigLeaves, ls...)
			for _, l := range ls {
				if l.Kind == an.LCall && len(l.Args) > 0 {
					signLeaves = append(signLeaves, l)
				}
			}
		}
		what := "the stored signature is produced by a cryptographic signing operation"
		if len(signLeaves) == 0 {
			what = "the constructor accepts a signing key but the signature it stores does not come from any signing operation"
		}
		o := r.Check(len(signLeaves) > 0, "C06.G1", key+"/signature-origin", pos, what, "origins of the signature field: "+strings.Join(an.LeafStrings(allSigLeaves), ", "))
		if o.Verdict != an.Discharged {
			continue
		}
		// G1b / G1c per signing site
		// parameters that flow into the returned structure (excluding the signature field)
		resParams := map[int]bool{}
		for _, ret := range oks {
			t := an.Deref(ret.Results[0].Type())
			st, ok := t.Underlying().(*types.Struct)
			if !ok {
				continue
			}
			for i := 0; i < st.NumFields(); i++ {
				fname := st.Field(i).Name()
				_, sname := an.NamedOf(t)
				if fname == "signature" || c05DerivedField(sname, fname) {
					continue
				}
				sl := &an.Slicer{P: p, Root: fn, Through: an.AllArgs, MaxDepth: 10, StopAt: stopSign}
				for i := range paramSet(sl.LeavesOfField(ret.Results[0], "."+fname)) {
					resParams[i] = true
				}
			}
		}
		delete(resParams, kp)
		for si, sl := range signLeaves {
			sfx := ""
			if len(signLeaves) > 1 {
				sfx = fmt.Sprintf("#%d", si+1)
			}
			call := sl.V.(*ssa.Call)
			ki, mi := signOperands(call)
			if mi < 0 || mi >= len(sl.Args) {
				r.Ob("C06.G1", key+"/signed-message"+sfx, p.Pos(call.Pos()), an.Undecided, "cannot identify the message operand of the signing primitive")
				continue
			}
			keyLs, msgLs := sl.Args[ki], sl.Args[mi]
			msgParams := paramSet(msgLs)
			var bad []string
			for i := range resParams {
				if !msgParams[i] {
					bad = append(bad, "argument "+fn.Params[i].Name()+" is stored in the structure but is not part of the signed message")
				}
			}
			for _, l := range msgLs {
				if l.Kind == an.LGlobal {
					if g, ok := l.V.(*ssa.Global); ok && len(p.GlobalWrites(g)) > 0 {
						bad = append(bad, "signed message depends on mutable package variable "+l.Name)
					}
				}
			}
			sort.Strings(bad)
			r.Check(len(bad) == 0, "C06.G1", key+"/signed-message"+sfx, p.Pos(call.Pos()), "everything the constructor stores is covered by the signed message",
				append(bad, "stored arguments: "+paramNames(fn, resParams), "signed arguments: "+paramNames(fn, msgParams))...)
			kps := paramSet(keyLs)
			r.Check(kps[kp] && len(kps) == 1, "C06.G1", key+"/signing-key"+sfx, p.Pos(call.Pos()), "the signing key operand is the constructor's key parameter", "key origins: "+strings.Join(an.LeafStrings(keyLs), ", "))
		}
	}
	c06Twins(p, r)
	c06VerifierKeys(p, r)
	// G6: options survive serialise-and-parse: the mapping reader yields only strings from the one
	// string reader (same rule as C11.M7), so the bytes verified after a round trip are the bytes signed
	c11OneStringReader(p, r, "C06.G6")
	// G7: the parser's length/count arithmetic cannot wrap (same rule as C03.S4): a wrapped extent
	// moves the signature window, and the parsed copy no longer verifies
	narrowArith(p, r, "C06.G7", nil)
	// G8 = C11.M5: every pair the mapping writer can emit (down to 4 bytes) is read back by the
	// reader, so the options a structure was signed with are the options its wire form parses to;
	// a reader that drops or rejects a short final pair makes the library fail to verify (or even
	// parse) its own signed RouterInfo.
	c11Threshold(p, r)
	c01DistinctElements(p, r, "C06.G3") // "still verifies after serialise and parse" needs every parsed list element kept distinct
}

// c06Twins (G2): the function that produces the signed bytes is the one that produces the
// verified bytes, per structure.
func c06Twins(p *an.Prog, r *an.Report) {
	type side struct {
		producers map[string]bool
		consts    map[string]bool
		fields    map[string]bool
	}
	collect := func(root *ssa.Function, chains [][]ssa.CallInstruction, msgIdx func(ssa.CallInstruction) ssa.Value) side {
		s := side{map[string]bool{}, map[string]bool{}, map[string]bool{}}
		for _, ch := range chains {
			site := ch[len(ch)-1]
			sl := &an.Slicer{P: p, Root: root, Through: an.AllArgs, MaxDepth: 10}
			for _, l := range sl.LeavesInContext(ch[:len(ch)-1], msgIdx(site)) {
				if len(l.Via) > 0 {
					s.producers[l.Via[0]] = true // outermost library function the bytes come out of
				}
				if l.Kind == an.LConst {
					if b, ok := l.V.Type().Underlying().(*types.Basic); ok && b.Kind() == types.Uint8 && (len(l.Via) == 0 || (len(l.Via) == 1 && !isExportedFnKey(l.Via[0]))) {
						s.consts[l.Name] = true
					}
				}
			}
		}
		return s
	}
	msgOf := func(c ssa.CallInstruction) ssa.Value {
		args := c.Common().Args
		if c.Common().IsInvoke() {
			return args[0]
		}
		return args[1]
	}
	pairs := []struct{ name, sign, verify string }{
		{"RouterInfo", "router_info.NewRouterInfo", "router_info.(*RouterInfo).VerifySignature"},
		{"LeaseSet", "lease_set.NewLeaseSet", "lease_set.(LeaseSet).Verify"},
		{"EncryptedLeaseSet", "encrypted_leaseset.NewEncryptedLeaseSet", "encrypted_leaseset.(*EncryptedLeaseSet).Verify"},
		{"OfflineSignature", "offline_signature.CreateOfflineSignature", "offline_signature.(*OfflineSignature).VerifySignature"},
	}
	for _, pr := range pairs {
		sf, vf := p.Func(pr.sign), p.Func(pr.verify)
		if sf == nil || vf == nil {
			r.Fail("C06.G2: anchors %s / %s not found", pr.sign, pr.verify)
			continue
		}
		stopV := func(f *ssa.Function) bool { return isOfflineVerify(f) && f != vf }
		sc := callChains(p, sf, signPrimitive, nil, 5)
		vc := callChains(p, vf, func(c ssa.CallInstruction) bool { return cryptoVerifyKind(c) != "" }, stopV, 5)
		s, v := collect(sf, sc, msgOf), collect(vf, vc, func(c ssa.CallInstruction) ssa.Value {
			args := c.Common().Args
			if c.Common().IsInvoke() {
				return args[0]
			}
			return args[1]
		})
		same := len(s.producers) > 0 && strings.Join(sortedKeys(s.producers), ",") == strings.Join(sortedKeys(v.producers), ",")
		constsEq := strings.Join(sortedKeys(s.consts), ",") == strings.Join(sortedKeys(v.consts), ",")
		facts := []string{"sign-side producers: " + strings.Join(sortedKeys(s.producers), ","), "verify-side producers: " + strings.Join(sortedKeys(v.producers), ","),
			"sign-side prefix constants: " + strings.Join(sortedKeys(s.consts), ","), "verify-side prefix constants: " + strings.Join(sortedKeys(v.consts), ",")}
		if same {
			r.Check(constsEq, "C06.G2", pr.name+"/same-producer", p.FnPos(sf), "signed and verified bytes come from the same library function with the same prefix constants", facts...)
			continue
		}
		// twins: compared by the serialiser-trace rule of C01 (R3); here only the prefix constants
		// and that both sides have exactly one producer are decided
		r.Check(constsEq && len(s.producers) >= 1 && len(v.producers) >= 1, "C06.G2", pr.name+"/twin-producers", p.FnPos(sf),
			"signed and verified bytes come from twin producers with equal prefix constants (their field traces are compared under C01)", facts...)
	}
}

// fnKeyToSpec converts a FnKey such as "(*router_info.RouterInfo).serializeWithoutSignature" or
// "lease_set.serializeLeaseSetData" into the form Prog.Func accepts ("router_info.(*RouterInfo).x").
func fnKeyToSpec(k string) string {
	if strings.HasPrefix(k, "(") {
		j := strings.Index(k, ")")
		inner := k[1:j] // *router_info.RouterInfo or lease_set.LeaseSet
		ptr := strings.HasPrefix(inner, "*")
		inner = strings.TrimPrefix(inner, "*")
		d := strings.LastIndex(inner, ".")
		pkg, typ := inner[:d], inner[d+1:]
		if ptr {
			typ = "*" + typ
		}
		return pkg + ".(" + typ + ")" + k[j+1:]
	}
	return k
}


// c06VerifierKeys (G4): what a constructor signs with the structure's private key only verifies if
// the verifier uses the structure's identity key. The key-origin obligations of C05 (V2) are
// re-evaluated here for the verifiers of the signing structures.
func c06VerifierKeys(p *an.Prog, r *an.Report) {
	sub := an.NewReport("C05", r.Tier, r.Seed)
	func() {
		defer func() {
			if e := recover(); e != nil {
				r.Fail("C06.G4: evaluating the verifier key origins panicked: %v", e)
			}
		}()
		C05(p, sub)
	}()
	n := 0
	for _, o := range sub.Obs {
		switch o.Rule {
		case "C05.V2":
			n++
			c := *o
			c.Rule = "C06.G4"
			c.Key = strings.Replace(o.Key, "C05.V2/", "C06.G4/", 1)
			r.Add(&c)
		case "C05.V4":
			// G5: the verifier rebuilds its message from every field of the structure (what the
			// constructor signed is what the verifier checks)
			c := *o
			c.Rule = "C06.G5"
			c.Key = strings.Replace(o.Key, "C05.V4/", "C06.G5/", 1)
			r.Add(&c)
		}
	}
	if n < 5 {
		r.Fail("C06.G4: only %d verifier key-origin obligations found", n)
	}
}
