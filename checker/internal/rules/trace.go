package rules

import (
	"fmt"
	"go/token"
	"go/types"
	"sort"
	"strings"

	"golang.org/x/tools/go/ssa"

	"verif/checker/internal/an"
)

// Engine E8 (codec traces), serializer side: the order in which a serializer appends the
// receiver's fields to the buffer it returns.

type serTok struct {
	Fields []string // top-level receiver fields the appended bytes derive from ("#f" = only the length of f)
	Pos    token.Pos
	Loop   bool
}

func (t serTok) String() string { return strings.Join(t.Fields, "+") }

type serTracer struct {
	p     *an.Prog
	root  *ssa.Function
	notes []string
	flow  *an.Flow
	// byParam: name operands after the root's parameter (for serializers that take the fields as
	// separate arguments) instead of after the receiver's field
	byParam bool
}

// fieldsOf attributes an appended operand to receiver fields.
func (st *serTracer) fieldsOf(ctx []ssa.CallInstruction, v ssa.Value) []string {
	sl := &an.Slicer{P: st.p, Root: st.root, Through: an.AllArgs, MaxDepth: 10}
	leaves := sl.LeavesInContext(ctx, v)
	content := map[string]bool{}
	lens := map[string]bool{}
	for _, l := range leaves {
		if l.Kind != an.LParam || (l.Param != 0 && !st.byParam) {
			continue
		}
		parts := strings.Split(strings.TrimPrefix(l.Path, "."), ".")
		if st.byParam {
			if l.Param >= len(st.root.Params) {
				continue
			}
			parts = []string{st.root.Params[l.Param].Name()}
		}
		if parts[0] == "" {
			continue
		}
		if l.LenOnly {
			lens[parts[0]] = true
		} else {
			content[parts[0]] = true
		}
	}
	var out []string
	for f := range content {
		out = append(out, f)
	}
	if len(out) == 0 {
		for f := range lens {
			out = append(out, "#"+f)
		}
	}
	sort.Strings(out)
	return out
}

// bufOrder returns the tokens that make up buffer value v, in order.
func (st *serTracer) bufOrder(ctx []ssa.CallInstruction, fn *ssa.Function, v ssa.Value, seen map[ssa.Value]bool, depth int) []serTok {
	if depth > 30 || v == nil {
		return nil
	}
	if seen[v] {
		return nil
	}
	seen[v] = true
	defer delete(seen, v)
	switch x := v.(type) {
	case *ssa.Call:
		if isBuiltin(x, "append") && len(x.Call.Args) == 2 {
			base := st.bufOrder(ctx, fn, x.Call.Args[0], seen, depth+1)
			// the appended operand is itself a small local buffer filled field by field
			// (e.g. a fixed header array written with PutUintN at constant offsets)
			if sl, ok := x.Call.Args[1].(*ssa.Slice); ok {
				var local ssa.Value
				switch y := sl.X.(type) {
				case *ssa.Alloc:
					if _, isArr := an.Deref(y.Type()).Underlying().(*types.Array); isArr {
						local = y
					}
				case *ssa.MakeSlice:
					local = y
				}
				if local != nil {
					if toks := st.prealloc(ctx, fn, local); len(toks) >= 2 {
						return append(base, toks...)
					}
				}
			}
			fs := st.fieldsOf(ctx, x.Call.Args[1])
			if len(fs) > 0 {
				base = append(base, serTok{Fields: fs, Pos: x.Pos()})
			}
			return base
		}
		if callee := x.Call.StaticCallee(); callee != nil && an.FnPkgPath(callee) == "encoding/binary" && strings.HasPrefix(callee.Name(), "AppendUint") && len(x.Call.Args) == 3 {
			// binary.BigEndian.AppendUintN(buf, v): an append of the encoded value
			base := st.bufOrder(ctx, fn, x.Call.Args[1], seen, depth+1)
			if fs := st.fieldsOf(ctx, x.Call.Args[2]); len(fs) > 0 {
				base = append(base, serTok{Fields: fs, Pos: x.Pos()})
			}
			return base
		}
		return st.callOrder(ctx, fn, x, seen, depth)
	case *ssa.Extract:
		if c, ok := x.Tuple.(*ssa.Call); ok && x.Index == 0 {
			return st.callOrder(ctx, fn, c, seen, depth)
		}
	case *ssa.Phi:
		// loop-carried buffers: non-cyclic edges give the prefix, cyclic edges the repeated part
		var prefix []serTok
		var cyc []serTok
		for _, e := range x.Edges {
			sub := st.bufOrder(ctx, fn, e, seen, depth+1)
			if reaches(e, x, map[ssa.Value]bool{}, 0) {
				for i := range sub {
					sub[i].Loop = true
				}
				cyc = mergeToks(cyc, sub)
			} else {
				prefix = mergeToks(prefix, sub)
			}
		}
		return append(prefix, cyc...)
	case *ssa.Slice:
		if a, ok := x.X.(*ssa.Alloc); ok {
			return st.prealloc(ctx, fn, a)
		}
		return st.bufOrder(ctx, fn, x.X, seen, depth+1)
	case *ssa.MakeSlice:
		return st.prealloc(ctx, fn, x)
	case *ssa.UnOp:
		if x.Op == token.MUL {
			if a, ok := x.X.(*ssa.Alloc); ok {
				var out []serTok
				for _, ref := range *a.Referrers() {
					if s, ok := ref.(*ssa.Store); ok && s.Addr == ssa.Value(a) {
						out = mergeToks(out, st.bufOrder(ctx, fn, s.Val, seen, depth+1))
					}
				}
				return out
			}
		}
		// a field of the receiver used as the start of the buffer
		if fs := st.fieldsOf(ctx, v); len(fs) > 0 {
			return []serTok{{Fields: fs, Pos: x.Pos()}}
		}
	case *ssa.ChangeType:
		return st.bufOrder(ctx, fn, x.X, seen, depth+1)
	case *ssa.Convert:
		return st.bufOrder(ctx, fn, x.X, seen, depth+1)
	case *ssa.Const:
		return nil
	case *ssa.Parameter:
		// a buffer handed to an append-style helper: continue with the caller's argument, so that
		// the tokens already in the buffer keep their own order
		if len(ctx) > 0 && x.Type().String() == "[]byte" {
			call := ctx[len(ctx)-1]
			for i, prm := range fn.Params {
				if prm == x && i < len(call.Common().Args) {
					if sub := st.bufOrder(ctx[:len(ctx)-1], call.Parent(), call.Common().Args[i], map[ssa.Value]bool{}, depth+1); len(sub) > 0 {
						return sub
					}
				}
			}
		}
		if fs := st.fieldsOf(ctx, v); len(fs) > 0 {
			return []serTok{{Fields: fs, Pos: fn.Pos()}}
		}
	}
	return nil
}

func reaches(v ssa.Value, target ssa.Value, seen map[ssa.Value]bool, d int) bool {
	if d > 40 || seen[v] {
		return false
	}
	seen[v] = true
	if v == target {
		return true
	}
	switch x := v.(type) {
	case *ssa.Call:
		if isBuiltin(x, "append") {
			return reaches(x.Call.Args[0], target, seen, d+1)
		}
	case *ssa.Phi:
		for _, e := range x.Edges {
			if reaches(e, target, seen, d+1) {
				return true
			}
		}
	case *ssa.Slice:
		return reaches(x.X, target, seen, d+1)
	}
	return false
}

// callOrder: a library call whose result is (the start of) the buffer.
func (st *serTracer) callOrder(ctx []ssa.CallInstruction, fn *ssa.Function, c *ssa.Call, seen map[ssa.Value]bool, depth int) []serTok {
	callee := c.Call.StaticCallee()
	if callee != nil && an.InLib(callee) && len(callee.Blocks) > 0 && an.FnPkgPath(callee) == an.FnPkgPath(st.root) && len(ctx) < 4 {
		// a helper of the same package: its buffer is built from our fields passed as arguments
		nctx := append(append([]ssa.CallInstruction(nil), ctx...), c)
		var best []serTok
		for _, ret := range st.flow.OkReturns(callee) {
			sub := st.bufOrder(nctx, callee, ret.Results[0], map[ssa.Value]bool{}, depth+1)
			if len(sub) > len(best) {
				best = sub
			}
		}
		if len(best) > 0 {
			return best
		}
	}
	if fs := st.fieldsOf(ctx, c); len(fs) > 0 {
		return []serTok{{Fields: fs, Pos: c.Pos()}}
	}
	return nil
}

// prealloc: a buffer allocated up front and filled with copy / PutUintN at increasing offsets.
func (st *serTracer) prealloc(ctx []ssa.CallInstruction, fn *ssa.Function, buf ssa.Value) []serTok {
	type w struct {
		tok serTok
		idx int
	}
	var ws []w
	order := map[ssa.Instruction]int{}
	n := 0
	for _, b := range rpo(fn) {
		for _, in := range b.Instrs {
			order[in] = n
			n++
		}
	}
	var visit func(addr ssa.Value, d int)
	visit = func(addr ssa.Value, d int) {
		if d > 3 || addr.Referrers() == nil {
			return
		}
		for _, ref := range *addr.Referrers() {
			switch r := ref.(type) {
			case *ssa.Slice:
				if r.X == addr {
					visit(r, d+1)
				}
			case *ssa.Call:
				if isBuiltin(r, "copy") && r.Call.Args[0] == addr {
					// a source that is itself a composed buffer contributes its own parts in order
					if sub := st.bufOrder(ctx, fn, r.Call.Args[1], map[ssa.Value]bool{buf: true}, 1); len(sub) >= 2 {
						for _, t := range sub {
							ws = append(ws, w{t, order[r]})
						}
					} else if fs := st.fieldsOf(ctx, r.Call.Args[1]); len(fs) > 0 {
						ws = append(ws, w{serTok{Fields: fs, Pos: r.Pos()}, order[r]})
					}
				}
				if callee := r.Call.StaticCallee(); callee != nil && an.FnPkgPath(callee) == "encoding/binary" && strings.HasPrefix(callee.Name(), "PutUint") && len(r.Call.Args) == 3 && r.Call.Args[1] == addr {
					if fs := st.fieldsOf(ctx, r.Call.Args[2]); len(fs) > 0 {
						ws = append(ws, w{serTok{Fields: fs, Pos: r.Pos()}, order[r]})
					}
				}
			}
		}
	}
	visit(buf, 0)
	sort.SliceStable(ws, func(i, j int) bool { return ws[i].idx < ws[j].idx })
	var out []serTok
	for _, x := range ws {
		out = append(out, x.tok)
	}
	return out
}

func rpo(fn *ssa.Function) []*ssa.BasicBlock {
	seen := map[*ssa.BasicBlock]bool{}
	var post []*ssa.BasicBlock
	var dfs func(b *ssa.BasicBlock)
	dfs = func(b *ssa.BasicBlock) {
		seen[b] = true
		// successors in reverse: a loop body then precedes the code after the loop in the result
		for i := len(b.Succs) - 1; i >= 0; i-- {
			if s := b.Succs[i]; !seen[s] {
				dfs(s)
			}
		}
		post = append(post, b)
	}
	if len(fn.Blocks) > 0 {
		dfs(fn.Blocks[0])
	}
	for i, j := 0, len(post)-1; i < j; i, j = i+1, j-1 {
		post[i], post[j] = post[j], post[i]
	}
	return post
}

// mergeToks appends tokens of b that are not already present in a (alternatives of a branch).
func mergeToks(a, b []serTok) []serTok {
	have := map[string]bool{}
	for _, t := range a {
		have[t.String()] = true
	}
	for _, t := range b {
		if !have[t.String()] {
			a = append(a, t)
			have[t.String()] = true
		}
	}
	return a
}

// serFieldOrder: the order of first appearance of each (content) field in the serializer output.
func serFieldOrder(p *an.Prog, ser *ssa.Function) ([]string, string) {
	return serOrder(p, ser, false)
}

func serOrder(p *an.Prog, ser *ssa.Function, byParam bool) ([]string, string) {
	st := &serTracer{p: p, root: ser, flow: an.NewFlow(p), byParam: byParam}
	var best []serTok
	for _, ret := range st.flow.OkReturns(ser) {
		toks := st.bufOrder(nil, ser, ret.Results[0], map[ssa.Value]bool{}, 0)
		if len(toks) > len(best) {
			best = toks
		}
	}
	var order []string
	seen := map[string]bool{}
	var raw []string
	for _, t := range best {
		raw = append(raw, t.String())
		for _, f := range t.Fields {
			if strings.HasPrefix(f, "#") || seen[f] {
				continue
			}
			// a token covering several fields at once cannot be ordered among them
			if len(t.Fields) > 1 {
				continue
			}
			seen[f] = true
			order = append(order, f)
		}
	}
	return order, strings.Join(raw, " | ")
}

// parFieldOrder: fields of the parser's result ordered by how far the cursor had advanced when the
// bytes they derive from were read (number of x[lo:] advances, then constant window offset).
func parFieldOrder(p *an.Prog, parser *ssa.Function, fields []string) ([]string, map[string]string, []string) {
	flow := an.NewFlow(p)
	type key struct {
		hops int
		off  int64
		ok   bool
	}
	ks := map[string]key{}
	for _, f := range fields {
		for _, ret := range flow.OkReturns(parser) {
			sl := &an.Slicer{P: p, Root: parser, Through: an.AllArgs, MaxDepth: 12}
			for _, l := range sl.LeavesOfField(ret.Results[0], "."+f) {
				if l.Kind != an.LParam || l.Param != 0 || l.LenOnly {
					continue
				}
				k := key{l.Hops, l.Off, true}
				old, have := ks[f]
				if !have || k.hops < old.hops || (k.hops == old.hops && k.off >= 0 && (old.off < 0 || k.off < old.off)) {
					ks[f] = k
				}
			}
		}
	}
	var got []string
	desc := map[string]string{}
	for _, f := range fields {
		if k, ok := ks[f]; ok {
			got = append(got, f)
			desc[f] = fmt.Sprintf("%d advances, window offset %d", k.hops, k.off)
		}
	}
	var ties []string
	sort.SliceStable(got, func(i, j int) bool {
		a, b := ks[got[i]], ks[got[j]]
		if a.hops != b.hops {
			return a.hops < b.hops
		}
		return a.off >= 0 && b.off >= 0 && a.off < b.off
	})
	for i := 1; i < len(got); i++ {
		a, b := ks[got[i-1]], ks[got[i]]
		if a.hops == b.hops && (a.off < 0 || b.off < 0 || a.off == b.off) {
			ties = append(ties, got[i-1]+"~"+got[i])
		}
	}
	return got, desc, ties
}

// ---- parser side: position of the step that assigns each field ---------------------------------
// A position is the chain of instruction indices (in reverse post-order numbering of each function)
// of the calls leading from the root parser to the instruction that performs the assignment,
// rendered as a zero-padded string so that lexicographic order is program order.

type assignTracer struct {
	p      *an.Prog
	root   *ssa.Function
	orders map[*ssa.Function]map[ssa.Instruction]int
	flow   *an.Flow
}

func newAssignTracer(p *an.Prog, root *ssa.Function) *assignTracer {
	return &assignTracer{p: p, root: root, orders: map[*ssa.Function]map[ssa.Instruction]int{}, flow: an.NewFlow(p)}
}

func (at *assignTracer) idx(in ssa.Instruction) int {
	fn := in.Parent()
	m := at.orders[fn]
	if m == nil {
		m = map[ssa.Instruction]int{}
		n := 0
		for _, b := range rpo(fn) {
			for _, x := range b.Instrs {
				m[x] = n
				n++
			}
		}
		at.orders[fn] = m
	}
	return m[in]
}

type actx struct {
	fn     *ssa.Function
	call   *ssa.Call // call in parent through which fn was entered
	parent *actx
	prefix string // position of that call (chain)
}

func (at *assignTracer) instrPos(in ssa.Instruction, c *actx) []string {
	return []string{c.prefix + fmt.Sprintf("%05d.", at.idx(in))}
}

// valPos: where the value v (of function c.fn) is produced.
func (at *assignTracer) valPos(v ssa.Value, c *actx, depth int) []string {
	if depth > 12 || v == nil {
		return nil
	}
	v = an.Canon(v)
	switch x := v.(type) {
	case *ssa.Parameter:
		if c.parent == nil {
			return nil // input parameter of the root: no step
		}
		idx := -1
		for i, p := range c.fn.Params {
			if p == x {
				idx = i
			}
		}
		if idx >= 0 && idx < len(c.call.Call.Args) {
			return at.valPos(c.call.Call.Args[idx], c.parent, depth+1)
		}
		return nil
	case *ssa.Extract:
		// a result of a library helper: where that result is produced inside the helper
		if call, ok := x.Tuple.(*ssa.Call); ok {
			if callee := call.Call.StaticCallee(); callee != nil && an.InLib(callee) && len(callee.Blocks) > 0 {
				nc := at.enter(call, callee, c)
				var out []string
				for _, ret := range at.flow.OkReturns(callee) {
					if x.Index < len(ret.Results) {
						out = append(out, at.valPos(ret.Results[x.Index], nc, depth+1)...)
					}
				}
				if len(out) > 0 {
					return out
				}
			}
		}
		return at.valPos(x.Tuple, c, depth+1)
	case *ssa.Phi:
		var out []string
		for _, e := range x.Edges {
			out = append(out, at.valPos(e, c, depth+1)...)
		}
		return out
	case *ssa.MakeInterface:
		return at.valPos(x.X, c, depth+1)
	case *ssa.ChangeType:
		return at.valPos(x.X, c, depth+1)
	case *ssa.Convert:
		return at.valPos(x.X, c, depth+1)
	case *ssa.Slice:
		return at.valPos(x.X, c, depth+1)
	case *ssa.UnOp:
		return at.valPos(x.X, c, depth+1)
	case *ssa.FieldAddr, *ssa.IndexAddr, *ssa.Field, *ssa.Index, *ssa.Const:
		return nil
	}
	if in, ok := v.(ssa.Instruction); ok {
		return at.instrPos(in, c)
	}
	return nil
}

func (at *assignTracer) storesInto(fa *ssa.FieldAddr, c *actx, depth int) []string {
	var out []string
	for _, rr := range *fa.Referrers() {
		switch w := rr.(type) {
		case *ssa.Store:
			if w.Addr == ssa.Value(fa) {
				ps := at.valPos(w.Val, c, depth+1)
				if len(ps) == 0 {
					ps = at.instrPos(w, c)
				}
				out = append(out, ps...)
			}
		case *ssa.UnOp:
			for _, r3 := range *w.Referrers() {
				if cc, ok := r3.(*ssa.Call); ok && isBuiltin(cc, "copy") && cc.Call.Args[0] == ssa.Value(w) {
					out = append(out, at.instrPos(cc, c)...)
				}
			}
		case *ssa.Slice:
			for _, r3 := range *w.Referrers() {
				if cc, ok := r3.(*ssa.Call); ok && isBuiltin(cc, "copy") && cc.Call.Args[0] == ssa.Value(w) {
					out = append(out, at.instrPos(cc, c)...)
				}
			}
		}
	}
	return out
}

// fieldPos: positions of the steps that assign field f of the struct that v (of c.fn) is / points to.
func (at *assignTracer) fieldPos(v ssa.Value, f string, c *actx, depth int) []string {
	if depth > 10 || v == nil {
		return nil
	}
	var out []string
	switch x := v.(type) {
	case *ssa.Alloc:
		for _, ref := range *x.Referrers() {
			switch r := ref.(type) {
			case *ssa.FieldAddr:
				if fieldNameOf(r.X.Type(), r.Field) == f {
					out = append(out, at.storesInto(r, c, depth)...)
				}
			case *ssa.Store:
				if r.Addr == ssa.Value(x) {
					out = append(out, at.fieldPos(r.Val, f, c, depth+1)...)
				}
			case *ssa.Call:
				out = append(out, at.viaCallee(r, x, f, c, depth)...)
			}
		}
	case *ssa.Parameter:
		for _, ref := range *x.Referrers() {
			switch r := ref.(type) {
			case *ssa.FieldAddr:
				if fieldNameOf(r.X.Type(), r.Field) == f {
					out = append(out, at.storesInto(r, c, depth)...)
				}
			case *ssa.Call:
				out = append(out, at.viaCallee(r, x, f, c, depth)...)
			}
		}
	case *ssa.UnOp:
		return at.fieldPos(x.X, f, c, depth+1)
	case *ssa.Phi:
		for _, e := range x.Edges {
			out = append(out, at.fieldPos(e, f, c, depth+1)...)
		}
	case *ssa.Extract:
		return at.fieldPos(x.Tuple, f, c, depth+1)
	case *ssa.MakeInterface:
		return at.fieldPos(x.X, f, c, depth+1)
	case *ssa.Call:
		callee := x.Call.StaticCallee()
		if callee == nil || !an.InLib(callee) || len(callee.Blocks) == 0 {
			return at.instrPos(x, c)
		}
		nc := at.enter(x, callee, c)
		for _, ret := range at.flow.OkReturns(callee) {
			if len(ret.Results) > 0 {
				out = append(out, at.fieldPos(ret.Results[0], f, nc, depth+1)...)
			}
		}
	}
	return out
}

func (at *assignTracer) enter(call *ssa.Call, callee *ssa.Function, c *actx) *actx {
	return &actx{fn: callee, call: call, parent: c, prefix: c.prefix + fmt.Sprintf("%05d.", at.idx(call))}
}

// viaCallee: object obj is passed to a library helper; stores the helper makes through it.
func (at *assignTracer) viaCallee(call *ssa.Call, obj ssa.Value, f string, c *actx, depth int) []string {
	callee := call.Call.StaticCallee()
	if callee == nil || !an.InLib(callee) || len(callee.Blocks) == 0 {
		return nil
	}
	var out []string
	for ai, a := range call.Call.Args {
		if a != obj || ai >= len(callee.Params) {
			continue
		}
		nc := at.enter(call, callee, c)
		out = append(out, at.fieldPos(callee.Params[ai], f, nc, depth+1)...)
	}
	return out
}

// parOrder is the field order along one successful return of a parser.
type parOrder struct {
	order []string
	pos   map[string]string
	ties  []string
}

// parAssignOrders orders the fields by the position of the parser step that assigns them, once
// per successful return of the parser (alternative formats are parsed on alternative paths and
// their steps must not be mixed). Identical results are reported once.
func parAssignOrders(p *an.Prog, parser *ssa.Function, fields []string) []parOrder {
	at := newAssignTracer(p, parser)
	var out []parOrder
	seen := map[string]bool{}
	for _, ret := range at.flow.OkReturns(parser) {
		pos := map[string]string{}
		for _, f := range fields {
			best := ""
			for _, q := range at.fieldPos(ret.Results[0], f, &actx{fn: parser}, 0) {
				if best == "" || q < best {
					best = q
				}
			}
			if best != "" {
				pos[f] = best
			}
		}
		var got []string
		for _, f := range fields {
			if _, ok := pos[f]; ok {
				got = append(got, f)
			}
		}
		sort.SliceStable(got, func(i, j int) bool { return pos[got[i]] < pos[got[j]] })
		var ties []string
		for i := 1; i < len(got); i++ {
			if pos[got[i-1]] == pos[got[i]] {
				ties = append(ties, got[i-1]+"~"+got[i])
			}
		}
		key := fmt.Sprint(got, pos)
		if seen[key] {
			continue
		}
		seen[key] = true
		out = append(out, parOrder{got, pos, ties})
	}
	if len(out) == 0 {
		out = append(out, parOrder{pos: map[string]string{}})
	}
	return out
}
