package rules

import (
	"fmt"
	"go/token"
	"go/types"
	"sort"
	"strings"

	"golang.org/x/tools/go/ssa"

	"verif/checker/internal/an"
)

func init() { Registry["C03"] = C03 }

// parserEntries: exported library functions whose first parameter is []byte and whose last result
// is error or []error.
func parserEntries(p *an.Prog) []*ssa.Function {
	var out []*ssa.Function
	for _, fn := range p.ExportedAPI() {
		if fn.Signature.Recv() != nil || fn.Synthetic != "" || len(fn.Blocks) == 0 || len(fn.Params) == 0 {
			continue
		}
		if fn.Params[0].Type().String() != "[]byte" {
			continue
		}
		if an.ErrIndex(fn) < 0 && !(fn.Name() == "ReadInteger") {
			continue
		}
		pk := an.FnPkgPath(fn)
		if strings.HasSuffix(pk, "/base32") || strings.HasSuffix(pk, "/base64") {
			continue
		}
		out = append(out, fn)
	}
	return out
}

// remainderIndex: index of the []byte result that is the remainder (a []byte result after result 0).
func remainderIndex(fn *ssa.Function) int {
	res := fn.Signature.Results()
	for i := 1; i < res.Len(); i++ {
		if res.At(i).Type().String() == "[]byte" {
			return i
		}
	}
	return -1
}

// suffix analysis: value v is a suffix of parameter `param` of fn (or nil).
type suffixer struct {
	p    *an.Prog
	flow *an.Flow
	memo map[string]int // fn/result -> param index or -1 (not a suffix), -2 in progress
}

func (s *suffixer) resultSuffixOf(fn *ssa.Function, res int, depth int) (int, string) {
	key := fmt.Sprintf("%p/%d", fn, res)
	if v, ok := s.memo[key]; ok {
		if v == -2 {
			return -1, "recursion"
		}
		return v, ""
	}
	s.memo[key] = -2
	param := -3 // unset
	why := ""
	n := 0
	for _, ret := range s.flow.OkReturns(fn) {
		if res >= len(ret.Results) {
			continue
		}
		n++
		pi, w := s.valueSuffixOf(ret.Results[res], fn, depth, map[ssa.Value]bool{})
		if pi == -4 { // nil: compatible with anything
			continue
		}
		if pi < 0 {
			param, why = -1, fmt.Sprintf("return at %s: %s", s.p.Pos(ret.Pos()), w)
			break
		}
		if param == -3 {
			param = pi
		} else if param != pi {
			param, why = -1, "returns suffixes of different parameters"
			break
		}
	}
	if param == -3 {
		if n == 0 {
			param, why = -1, "no success return"
		} else {
			param, why = -5, "every success path returns nil" // never assigned from the input
		}
	}
	s.memo[key] = param
	return param, why
}

// valueSuffixOf returns the parameter index v is a suffix of, -4 for nil, -1 otherwise.
func (s *suffixer) valueSuffixOf(v ssa.Value, fn *ssa.Function, depth int, seen map[ssa.Value]bool) (int, string) {
	if depth > 40 {
		return -1, "too deep"
	}
	if seen[v] {
		return -4, "" // cycle through a phi: neutral
	}
	seen[v] = true
	v = an.Canon(v)
	switch x := v.(type) {
	case *ssa.Const:
		if x.Value == nil {
			return -4, ""
		}
	case *ssa.Parameter:
		for i, prm := range fn.Params {
			if prm == x {
				return i, ""
			}
		}
	case *ssa.Slice:
		if x.High != nil || x.Max != nil {
			return -1, fmt.Sprintf("sliced with an upper bound at %s (not a suffix)", s.p.Pos(x.Pos()))
		}
		return s.valueSuffixOf(x.X, fn, depth+1, seen)
	case *ssa.ChangeType:
		return s.valueSuffixOf(x.X, fn, depth+1, seen)
	case *ssa.Convert:
		if _, ok := x.X.Type().Underlying().(*types.Slice); ok {
			return s.valueSuffixOf(x.X, fn, depth+1, seen)
		}
	case *ssa.Phi:
		res := -4
		for _, e := range x.Edges {
			pi, w := s.valueSuffixOf(e, fn, depth+1, seen)
			if pi == -4 {
				continue
			}
			if pi < 0 {
				return -1, w
			}
			if res == -4 {
				res = pi
			} else if res != pi {
				return -1, "merge of suffixes of different parameters"
			}
		}
		return res, ""
	case *ssa.UnOp:
		if x.Op == token.MUL {
			// local cell with several stores: all stores must be suffixes of the same parameter
			if a, ok := x.X.(*ssa.Alloc); ok {
				res := -4
				for _, ref := range *a.Referrers() {
					st, ok := ref.(*ssa.Store)
					if !ok || st.Addr != ssa.Value(a) {
						continue
					}
					pi, w := s.valueSuffixOf(st.Val, fn, depth+1, seen)
					if pi == -4 {
						continue
					}
					if pi < 0 {
						return -1, w
					}
					if res == -4 {
						res = pi
					} else if res != pi {
						return -1, "cell holds suffixes of different parameters"
					}
				}
				return res, ""
			}
		}
	case *ssa.Extract:
		if call, ok := x.Tuple.(*ssa.Call); ok {
			return s.callSuffix(call, x.Index, fn, depth, seen)
		}
	case *ssa.Call:
		return s.callSuffix(x, 0, fn, depth, seen)
	}
	return -1, fmt.Sprintf("value %s is not derived from the input by suffix slicing", v.Name())
}

func (s *suffixer) callSuffix(call *ssa.Call, res int, fn *ssa.Function, depth int, seen map[ssa.Value]bool) (int, string) {
	callee := call.Call.StaticCallee()
	if callee == nil || !an.InLib(callee) || len(callee.Blocks) == 0 {
		return -1, "result of a call that is not analysed"
	}
	pi, w := s.resultSuffixOf(callee, res, depth+1)
	if pi == -5 {
		return -4, ""
	}
	if pi < 0 {
		return -1, an.FnKey(callee) + ": " + w
	}
	if pi >= len(call.Call.Args) {
		return -1, "bad argument index"
	}
	return s.valueSuffixOf(call.Call.Args[pi], fn, depth+1, seen)
}

func C03(p *an.Prog, r *an.Report) {
	r.Explanation = "S1: for every exported parser that returns a remainder, the remainder on every success return is shown to be derived from the input parameter only by suffix slicing x[lo:] (through phis, local cells and the remainders of callees, by a memoised must-analysis), i.e. it is a suffix of the input, so consumed bytes followed by the remainder are the input; a remainder that no success path ever assigns from the input is reported. S2: inside the closure of the parsers, the error result of every call to a library function that itself takes a []byte cursor must be used (tested, returned, wrapped or collected), never discarded; and every function outside package data that reads an embedded mapping is evaluated under three assumptions about the reader's error list — none, only the benign 'data exists beyond length of mapping' warning, some other error — and must succeed, succeed, and fail respectively, with its filter substring occurring in the message the reader produces. Independence from appended bytes and exact extents are value properties and are not decided. S3: the extent of the trailing signature is taken from the transient key type when offline keys are present. S4: arithmetic on wire lengths and counts in integer types narrower than 64 bits provably stays inside its type on every API path. S5: where a data.Integer's Int() determines the remainder of some success return of a parser-closure function (a declared extent), every other success return whose non-nil remainder does not depend on it must be dominated by the Int()==0 arm of a branch."
	r.Rule = "one obligation per parser with a remainder result (S1), per discarded-error call site (S2), four per embedded-mapping site"
	r.Trusted = []string{"go/ssa"}
	flow := an.NewFlow(p)
	sx := &suffixer{p: p, flow: flow, memo: map[string]int{}}
	entries := parserEntries(p)
	n1 := 0
	for _, fn := range entries {
		ri := remainderIndex(fn)
		if ri < 0 {
			continue
		}
		n1++
		pi, why := sx.resultSuffixOf(fn, ri, 0)
		key := an.FnKey(fn)
		// S1b: a success return that hands out a parsed value must have advanced the cursor
		var stuck []string
		for _, ret := range flow.OkReturns(fn) {
			if ri >= len(ret.Results) {
				continue
			}
			rem := an.Canon(ret.Results[ri])
			if _, isParam := rem.(*ssa.Parameter); !isParam {
				continue
			}
			v0 := an.Canon(ret.Results[0])
			if c, ok := v0.(*ssa.Const); ok && (c.Value == nil) {
				continue // nothing was parsed (nil / zero value)
			}
			stuck = append(stuck, "success return at "+p.Pos(ret.Pos())+" hands out a value together with the untouched input as remainder")
		}
		switch {
		case len(stuck) > 0:
			r.Ob("C03.S1", key, p.FnPos(fn), an.Violated, "a parsed value is returned with the whole input as remainder (nothing consumed)", stuck...)
		case pi == 0:
			r.Ob("C03.S1", key, p.FnPos(fn), an.Discharged, "remainder is a suffix of the input on every success path")
		case pi == -5:
			r.Ob("C03.S1", key, p.FnPos(fn), an.Violated, "the remainder result is never assigned from the input: every success path returns nil, whatever was consumed")
		default:
			r.Ob("C03.S1", key, p.FnPos(fn), an.Violated, "remainder is not provably a suffix of the input", why)
		}
	}
	r.Floor("parsers_with_remainder", n1, 30)

	// S2: discarded errors of cursor-taking callees inside the parser closure
	clos := libClosure(p, entries...)
	var fns []*ssa.Function
	for f := range clos {
		fns = append(fns, f)
	}
	sort.Slice(fns, func(i, j int) bool { return an.FnKey(fns[i]) < an.FnKey(fns[j]) })
	ncalls := 0
	for _, f := range fns {
		for _, b := range f.Blocks {
			for _, in := range b.Instrs {
				call, ok := in.(*ssa.Call)
				if !ok {
					continue
				}
				callee := call.Call.StaticCallee()
				if callee == nil || !an.InLib(callee) || an.ErrIndex(callee) < 0 {
					continue
				}
				takesCursor := false
				for _, prm := range callee.Params {
					if prm.Type().String() == "[]byte" {
						takesCursor = true
					}
				}
				if !takesCursor {
					continue
				}
				ncalls++
				ei := an.ErrIndex(callee)
				var ev ssa.Value
				if callee.Signature.Results().Len() == 1 {
					ev = call
				} else {
					for _, ref := range *call.Referrers() {
						if e, ok := ref.(*ssa.Extract); ok && e.Index == ei {
							ev = e
						}
					}
				}
				used := false
				if ev != nil {
					for _, ref := range *ev.Referrers() {
						if _, isDbg := ref.(*ssa.DebugRef); !isDbg {
							used = true
						}
					}
				}
				if !used {
					r.Ob("C03.S2", an.FnKey(f)+"/drops-error-of-"+callee.Name(), p.Pos(call.Pos()), an.Violated,
						"the error of a sub-parser call is discarded inside the parser closure", "callee "+an.FnKey(callee))
				}
			}
		}
	}
	r.Analysed["cursor_taking_calls_in_parser_closure"] = ncalls
	r.Ob("C03.S2", "scan", "-", an.Discharged, fmt.Sprintf("scanned %d calls to error-returning cursor-taking library functions in %d functions of the parser closure", ncalls, len(fns)))
	c02SigTypeSource(p, r, "C03.S3")
	ns := mappingSiteRule(p, r, "C03.S2")
	r.Floor("embedded_mapping_sites", ns, 4)
	// S5: a declared extent is honoured on every success path
	n5 := declaredExtentRule(p, r, flow, fns)
	r.Floor("declared_extents", n5, 1)
	// S4: arithmetic on wire lengths and counts in narrow integer types cannot wrap
	narrowArith(p, r, "C03.S4", nil)
}
