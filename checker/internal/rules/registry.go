// Package rules holds the per-property rule sets (DESIGN.md §5).
package rules

import "verif/checker/internal/an"

// Registry maps property id to its rule set.
var Registry = map[string]func(p *an.Prog, r *an.Report){}
