// Package rules holds the per-property rule sets (DESIGN.md §5).
package rules

import "verif/checker/internal/an"

// Registry maps property id to its rule set.
var Registry = map[string]func(p *an.Prog, r *an.Report){}

// Thorough is set for the thorough tier: exploration caps that only bound the cost of the quick
// tier are lifted (more partial-value shapes, more constructor outcomes, deeper caller chains).
var Thorough bool

func capFor(quick, thorough int) int {
	if Thorough {
		return thorough
	}
	return quick
}
