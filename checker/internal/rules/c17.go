package rules

import (
	"fmt"
	"os"
	"go/token"
	"go/types"
	"sort"
	"strings"

	"golang.org/x/tools/go/ssa"

	"verif/checker/internal/an"
)

func init() { Registry["C17"] = C17 }

// isNameResolver: functions of package net that may consult a resolver or open a connection.
func isNameResolver(fn *ssa.Function) bool {
	if fn == nil || an.FnPkgPath(fn) != "net" {
		return false
	}
	n := fn.Name()
	if fn.Signature.Recv() != nil {
		_, rn := an.NamedOf(fn.Signature.Recv().Type())
		return rn == "Resolver" || rn == "Dialer" || rn == "ListenConfig"
	}
	for _, p := range []string{"Lookup", "Dial", "Resolve", "Listen"} {
		if strings.HasPrefix(n, p) {
			return true
		}
	}
	return false
}

// reachesAny computes the library functions from which a call to a function satisfying pred is
// reachable through library functions only.
func reachesAny(p *an.Prog, pred func(*ssa.Function) bool) map[*ssa.Function]bool {
	direct := map[*ssa.Function]bool{}
	callers := map[*ssa.Function][]*ssa.Function{}
	for _, fn := range p.RepoFns {
		for _, b := range fn.Blocks {
			for _, in := range b.Instrs {
				if mc, ok := in.(*ssa.MakeClosure); ok {
					if cf, ok := mc.Fn.(*ssa.Function); ok {
						callers[cf] = append(callers[cf], fn)
					}
				}
				c, ok := in.(ssa.CallInstruction)
				if !ok {
					continue
				}
				for _, callee := range p.Callees(c) {
					if pred(callee) {
						direct[fn] = true
					}
					if an.InLib(callee) {
						callers[callee] = append(callers[callee], fn)
					}
				}
			}
		}
	}
	out := map[*ssa.Function]bool{}
	var work []*ssa.Function
	for f := range direct {
		out[f] = true
		work = append(work, f)
	}
	for len(work) > 0 {
		f := work[len(work)-1]
		work = work[:len(work)-1]
		for _, c := range callers[f] {
			if !out[c] {
				out[c] = true
				work = append(work, c)
			}
		}
	}
	return out
}

func isFn(fn *ssa.Function, pkg, name string) bool {
	return fn != nil && an.FnPkgPath(fn) == pkg && fn.Name() == name
}

// raEval runs fn (a RouterAddress method) under assumptions about net.ParseIP / (net.IP).To4 and
// with q := result 0 of strconv.Atoi.
type raAssume struct {
	parseIP string // "nil" | "nonnil"
	to4     string // "" | "nil" | "nonnil"
}

func raEval(p *an.Prog, fn *ssa.Function, as raAssume, relevant map[*ssa.Function]bool, badResolve *[]string) ([]an.Outcome, error) {
	ev := &an.PEval{P: p, Domain: an.IvAll(), MaxPaths: 60000, LoopOK: true, MaxDepth: 10,
		Inline: func(f *ssa.Function) bool { return an.InLib(f) && relevant[f] && len(f.Blocks) > 0 },
		Select: func(ev *an.PEval, v ssa.Value, args []an.AV) bool {
			e, ok := v.(*ssa.Extract)
			if !ok || e.Index != 0 {
				return false
			}
			c, ok := e.Tuple.(*ssa.Call)
			return ok && isFn(c.Call.StaticCallee(), "strconv", "Atoi")
		},
		OnCall: func(ev *an.PEval, call *ssa.Call, callee *ssa.Function, args []an.AV) (an.AV, bool) {
			switch {
			case isFn(callee, "net", "ParseIP"):
				if as.parseIP == "nil" {
					return an.AV{K: an.KNil}, true
				}
				return an.AV{K: an.KNonNil, Tag: "ParseIP"}, true
			case isFn(callee, "net", "To4") && len(args) == 1 && args[0].Tag == "ParseIP":
				switch as.to4 {
				case "nil":
					return an.AV{K: an.KNil}, true
				case "nonnil":
					return an.AV{K: an.KNonNil, Tag: "To4"}, true
				}
			case isFn(callee, "net", "String") && len(args) == 1 && args[0].Tag == "ParseIP":
				return an.AV{K: an.KNonNil, Tag: "ParseIP.String"}, true
			case isFn(callee, "net", "ResolveIPAddr"):
				if len(args) == 2 && args[0].K == an.KStr && args[0].S == "" && args[1].Tag == "ParseIP.String" {
					return an.AV{K: an.KTuple, Elems: []an.AV{{K: an.KNonNil, Tag: "ResolveIPAddr(literal)"}, {}}}, true
				}
				if badResolve != nil {
					*badResolve = append(*badResolve, fmt.Sprintf("net.ResolveIPAddr at %s is given network %s and address %s — not the String() of a parsed IP literal", p.Pos(call.Pos()), args[0], args[1]))
				}
				return an.AV{K: an.KTuple, Elems: []an.AV{{K: an.KNonNil, Tag: "ResolveIPAddr(other)"}, {}}}, true
			case isFn(callee, "strconv", "Itoa") && len(args) == 1 && args[0].K == an.KQ && args[0].I == 0:
				return an.AV{K: an.KNonNil, Tag: "Itoa(q)"}, true
			}
			return an.AV{}, false
		}}
	outs, err := ev.Run(fn, rootArgs(fn))
	if os.Getenv("C17DEBUG") != "" {
		fmt.Println("DEBUG", an.FnKey(fn), debugVisited(ev), len(outs), err)
	}
	return outs, err
}

func C17(p *an.Prog, r *an.Report) {
	r.Explanation = "N1: the call-graph closure of every RouterAddress method inside the library contains no call of a name-resolving/dialling function of package net other than one net.ResolveIPAddr whose arguments are the empty network and String() of a net.ParseIP result. N2: Host, HasValidHost and the host part of IPVersion are evaluated path-sensitively under each assumption about net.ParseIP's result (nil / non-nil) and net.IP.To4: with nil every path fails / returns false / returns \"\"; with non-nil success is possible and the success value is exactly the ResolveIPAddr result; the IPv4/IPv6 strings follow To4. Port and HasValidPort are evaluated as functions of strconv.Atoi's integer result by interval partitioning: both accept exactly [1,65535]; Port returns strconv.Itoa of that value. N3: MappingValues.Get hands out a value only on the true edge of an equality of the two decoded key strings. N4: StaticKey/InitializationVector accept exactly the length of their result array. Decides that the four host/port predicates share the same primitive gate and numeric region; does not enumerate strings."
	r.Rule = "one obligation per (method, assumption) pair, per region, per reachable sink call, per accessor"
	r.Trusted = []string{"net.ParseIP accepts exactly IP literals", "strconv.Atoi/Itoa", "go/ssa, VTA call graph"}

	sp := p.Pkg("router_address")
	if sp == nil {
		r.Fail("package router_address not found")
		return
	}
	// methods of RouterAddress
	var methods []*ssa.Function
	for _, fn := range p.RepoFns {
		if fn.Signature.Recv() != nil && an.IsLibNamed(fn.Signature.Recv().Type(), "router_address", "RouterAddress") && fn.Synthetic == "" {
			methods = append(methods, fn)
		}
	}
	r.Floor("router_address_methods", len(methods), 25)
	defer c17RawValidation(p, r, methods)

	// N1
	clos := p.Reachable(p.CG(), methods, func(f *ssa.Function) bool { return an.InLib(f) })
	sinks := 0
	var fns []*ssa.Function
	for f := range clos {
		fns = append(fns, f)
	}
	sort.Slice(fns, func(i, j int) bool { return an.FnKey(fns[i]) < an.FnKey(fns[j]) })
	libClosure := 0
	for _, f := range fns {
		if !an.InLib(f) {
			continue
		}
		libClosure++
		for _, b := range f.Blocks {
			for _, in := range b.Instrs {
				c, ok := in.(ssa.CallInstruction)
				if !ok {
					continue
				}
				for _, callee := range p.Callees(c) {
					if !isNameResolver(callee) {
						continue
					}
					sinks++
					okArg := false
					var why string
					if isFn(callee, "net", "ResolveIPAddr") {
						args := c.Common().Args
						nw, isC := args[0].(*ssa.Const)
						okNet := isC && nw.Value != nil && nw.Value.ExactString() == `""`
						okAddr := false
						if sc, ok := args[1].(*ssa.Call); ok && isFn(sc.Call.StaticCallee(), "net", "String") {
							if pc, ok := sc.Call.Args[0].(*ssa.Call); ok && isFn(pc.Call.StaticCallee(), "net", "ParseIP") {
								okAddr = an.NewFlow(p).ClassAt(pc, in.Block()) == an.DefNonNil
								if !okAddr {
									why = "the ParseIP result is not known non-nil at the call"
								}
							}
						}
						okArg = okNet && okAddr
						if !okNet {
							why = "network argument is not the empty string"
						} else if !okAddr && why == "" {
							why = "address argument is not String() of a net.ParseIP result"
						}
					} else {
						why = "name-resolving function"
					}
					r.Check(okArg, "C17.N1", an.FnKey(f)+"/calls-"+callee.Name(), p.Pos(in.Pos()),
						"the only resolver call reachable from RouterAddress is ResolveIPAddr(\"\", parsedIP.String())", why, "reached via "+an.PathString(clos[f]))
				}
			}
		}
	}
	r.Analysed["router_address_closure_functions"] = libClosure
	r.Analysed["resolver_calls_in_closure"] = sinks
	r.Ob("C17.N1", "closure-scanned", "-", an.Discharged, fmt.Sprintf("scanned %d library functions reachable from %d RouterAddress methods for package net resolver/dial calls", libClosure, len(methods)))
	// canary: the detector must recognise resolver functions that exist in the program
	can := 0
	for f := range p.All {
		if isNameResolver(f) {
			can++
		}
	}
	if can == 0 {
		r.Fail("C17.N1 canary: no net resolver function present in the program; detector cannot be validated")
	}
	r.Analysed["net_resolver_functions_in_program_canary"] = can

	// N2
	relevant := reachesAny(p, func(f *ssa.Function) bool {
		return isFn(f, "net", "ParseIP") || isFn(f, "strconv", "Atoi") || isFn(f, "net", "ResolveIPAddr")
	})
	get := func(name string) *ssa.Function {
		fn := p.Func("router_address." + name)
		if fn == nil {
			r.Fail("C17: anchor router_address.%s not found", name)
		}
		return fn
	}
	// Host
	if fn := get("(RouterAddress).Host"); fn != nil {
		var bad []string
		outs, err := raEval(p, fn, raAssume{parseIP: "nil"}, relevant, &bad)
		if err != nil {
			r.Ob("C17.N2", "Host/ParseIP=nil", p.FnPos(fn), an.Undecided, err.Error())
		} else {
			ok := len(outs) > 0
			for _, o := range outs {
				if o.Panic || o.ErrIs(1) != 2 {
					ok = false
				}
			}
			r.Check(ok, "C17.N2", "Host/ParseIP=nil", p.FnPos(fn), "when the host option is not an IP literal every path of Host returns an error", fmt.Sprintf("%d paths", len(outs)))
		}
		outs, err = raEval(p, fn, raAssume{parseIP: "nonnil"}, relevant, &bad)
		if err != nil {
			r.Ob("C17.N2", "Host/ParseIP=nonnil", p.FnPos(fn), an.Undecided, err.Error())
		} else {
			succ, okv := 0, true
			for _, o := range outs {
				if !o.Panic && o.ErrIs(1) != 2 {
					succ++
					if o.Results[0].Tag != "ResolveIPAddr(literal)" {
						okv = false
					}
				}
			}
			r.Check(succ > 0 && okv && len(bad) == 0, "C17.N2", "Host/ParseIP=nonnil", p.FnPos(fn),
				"for an IP literal Host can succeed and its value is ResolveIPAddr(\"\", ip.String())", append([]string{fmt.Sprintf("%d success paths", succ)}, bad...)...)
		}
	}
	// HasValidHost
	if fn := get("(RouterAddress).HasValidHost"); fn != nil {
		outs, err := raEval(p, fn, raAssume{parseIP: "nil"}, relevant, nil)
		if err != nil {
			r.Ob("C17.N2", "HasValidHost/ParseIP=nil", p.FnPos(fn), an.Undecided, err.Error())
		} else {
			ok := len(outs) > 0
			for _, o := range outs {
				if o.Panic || o.Results[0].K != an.KBool || o.Results[0].B {
					ok = false
				}
			}
			r.Check(ok, "C17.N2", "HasValidHost/ParseIP=nil", p.FnPos(fn), "HasValidHost is false on every path when the host is not an IP literal", fmt.Sprintf("%d paths", len(outs)))
		}
		outs, err = raEval(p, fn, raAssume{parseIP: "nonnil"}, relevant, nil)
		if err == nil {
			some := false
			for _, o := range outs {
				if !o.Panic && o.Results[0].K == an.KBool && o.Results[0].B {
					some = true
				}
			}
			r.Check(some, "C17.N2", "HasValidHost/ParseIP=nonnil", p.FnPos(fn), "HasValidHost can be true for an IP literal")
		} else {
			r.Ob("C17.N2", "HasValidHost/ParseIP=nonnil", p.FnPos(fn), an.Undecided, err.Error())
		}
	}
	// IP version from host
	if fn := get("(*RouterAddress).ipVersionFromHost"); fn != nil {
		v4, _ := p.ConstString("router_address", "IPV4_VERSION_STRING")
		v6, _ := p.ConstString("router_address", "IPV6_VERSION_STRING")
		r.Check(v4 == "4" && v6 == "6", "C17.N2", "ip-version-constants", "-", "IPV4_VERSION_STRING=\"4\", IPV6_VERSION_STRING=\"6\"")
		for _, c := range []struct {
			as   raAssume
			want map[string]bool
			must string
			what string
		}{
			{raAssume{parseIP: "nil"}, map[string]bool{"": true}, "", "no version is derived from a host that is not an IP literal"},
			{raAssume{parseIP: "nonnil", to4: "nonnil"}, map[string]bool{"": true, v4: true}, v4, "an IPv4 literal yields version 4"},
			{raAssume{parseIP: "nonnil", to4: "nil"}, map[string]bool{"": true, v6: true}, v6, "an IPv6 literal yields version 6"},
		} {
			key := fmt.Sprintf("ipVersionFromHost/ParseIP=%s,To4=%s", c.as.parseIP, c.as.to4)
			outs, err := raEval(p, fn, c.as, relevant, nil)
			if err != nil {
				r.Ob("C17.N2", key, p.FnPos(fn), an.Undecided, err.Error())
				continue
			}
			ok, seen := len(outs) > 0, false
			var got []string
			for _, o := range outs {
				if o.Panic || o.Results[0].K != an.KStr || !c.want[o.Results[0].S] {
					ok = false
					got = append(got, o.Results[0].String())
				} else if o.Results[0].S == c.must {
					seen = true
				}
			}
			r.Check(ok && seen, "C17.N2", key, p.FnPos(fn), c.what, got...)
		}
	}
	// Port / HasValidPort
	portRange := an.IvRange(1, 65535)
	if fn := get("(RouterAddress).Port"); fn != nil {
		outs, err := raEval(p, fn, raAssume{parseIP: "nonnil"}, relevant, nil)
		if err != nil {
			r.Ob("C17.N2", "Port/region", p.FnPos(fn), an.Undecided, err.Error())
		} else {
			must, _, _ := an.RegionWhere(an.IvAll(), outs, func(o an.Outcome) bool { return !o.Panic && o.ErrIs(1) == 2 })
			_, may, _ := an.RegionWhere(an.IvAll(), outs, func(o an.Outcome) bool { return !o.Panic && o.ErrIs(1) != 2 })
			r.Check(must.Equal(an.IvAll().Minus(portRange)) && may.Equal(portRange), "C17.N2", "Port/region", p.FnPos(fn),
				"Port accepts exactly decimal values in [1,65535]", "must-reject "+must.String(), "may-accept "+may.String())
			okv, n := true, 0
			for _, o := range outs {
				if !o.Panic && o.ErrIs(1) != 2 {
					n++
					if o.Results[0].Tag != "Itoa(q)" {
						okv = false
					}
				}
			}
			r.Check(okv && n > 0, "C17.N2", "Port/canonical", p.FnPos(fn), "on success Port returns strconv.Itoa of the validated integer", fmt.Sprintf("%d success paths", n))
		}
	}
	if fn := get("(RouterAddress).HasValidPort"); fn != nil {
		outs, err := raEval(p, fn, raAssume{parseIP: "nonnil"}, relevant, nil)
		if err != nil {
			r.Ob("C17.N2", "HasValidPort/region", p.FnPos(fn), an.Undecided, err.Error())
		} else {
			isFalse := func(o an.Outcome) bool { return !o.Panic && o.Results[0].K == an.KBool && !o.Results[0].B }
			isTrue := func(o an.Outcome) bool { return !o.Panic && !(o.Results[0].K == an.KBool && !o.Results[0].B) }
			must, _, _ := an.RegionWhere(an.IvAll(), outs, isFalse)
			_, may, _ := an.RegionWhere(an.IvAll(), outs, isTrue)
			r.Check(must.Equal(an.IvAll().Minus(portRange)) && may.Equal(portRange), "C17.N2", "HasValidPort/region", p.FnPos(fn),
				"HasValidPort is true exactly for values in [1,65535] (same region as Port)", "must-false "+must.String(), "may-true "+may.String())
		}
	}

	// N3
	if fn := p.Func("data.(MappingValues).Get"); fn != nil {
		c17Get(p, r, fn)
		c17GetScansAll(p, r, fn)
	} else {
		r.Fail("C17.N3: anchor data.(MappingValues).Get not found")
	}

	// N4
	for _, name := range []string{"(RouterAddress).StaticKey", "(RouterAddress).InitializationVector"} {
		fn := get(name)
		if fn == nil {
			continue
		}
		arr, ok := fn.Signature.Results().At(0).Type().Underlying().(*types.Array)
		if !ok {
			r.Ob("C17.N4", name, p.FnPos(fn), an.Undecided, "result is not an array")
			continue
		}
		sel := func(ev *an.PEval, v ssa.Value, args []an.AV) bool {
			c, ok := v.(*ssa.Call)
			if !ok || (c.Parent() != fn && an.FnPkgPath(c.Parent()) != an.FnPkgPath(fn)) {
				return false
			}
			bi, ok := c.Call.Value.(*ssa.Builtin)
			return ok && bi.Name() == "len" && c.Call.Args[0].Type().String() == "[]byte"
		}
		nonneg := an.IvRange(0, an.PosInf)
		// the length gate may sit in an unexported helper of the same package
		sameStruct := func(f *ssa.Function) bool {
			return an.FnPkgPath(f) == an.FnPkgPath(fn) && f.Object() != nil && !f.Object().Exported() && f.Signature.Recv() == nil && len(f.Blocks) > 0
		}
		ev := &an.PEval{P: p, Domain: nonneg, Select: sel, LoopOK: true, Inline: sameStruct}
		outs, err := ev.Run(fn, rootArgs(fn))
		if err != nil {
			r.Ob("C17.N4", name, p.FnPos(fn), an.Undecided, err.Error())
			continue
		}
		_, may, _ := an.RegionWhere(nonneg, outs, func(o an.Outcome) bool { return !o.Panic && o.ErrIs(1) != 2 })
		r.Check(may.Equal(an.IvPoint(arr.Len())), "C17.N4", name, p.FnPos(fn),
			fmt.Sprintf("accessor succeeds exactly for %d-byte values (its result array length)", arr.Len()), "accepts "+may.String())
	}
}

// c17Get: every return of a non-nil value in Get is on the true edge of an equality of the two
// decoded key strings.
func c17Get(p *an.Prog, r *an.Report, fn *ssa.Function) {
	isDataOf := func(v ssa.Value) (recv ssa.Value, ok bool) {
		e, isE := v.(*ssa.Extract)
		if !isE || e.Index != 0 {
			return nil, false
		}
		c, isC := e.Tuple.(*ssa.Call)
		if !isC {
			return nil, false
		}
		callee := c.Call.StaticCallee()
		if callee == nil || callee.Name() != "Data" || !isNamed(recvType(callee), "common/data", "I2PString") {
			return nil, false
		}
		return c.Call.Args[0], true
	}
	n := 0
	var bad []string
	for _, ret := range an.Returns(fn) {
		if an.IsNilConst(ret.Results[0]) {
			continue
		}
		n++
		found := false
		for _, b := range fn.Blocks {
			iff, ok := b.Instrs[len(b.Instrs)-1].(*ssa.If)
			if !ok {
				continue
			}
			bo, ok := iff.Cond.(*ssa.BinOp)
			if !ok || bo.Op != token.EQL {
				continue
			}
			rx, okx := isDataOf(bo.X)
			ry, oky := isDataOf(bo.Y)
			if !okx || !oky {
				continue
			}
			keyParam := fn.Params[1]
			isKey := func(v ssa.Value) bool { return v == ssa.Value(keyParam) }
			if isKey(rx) == isKey(ry) {
				continue // must compare the requested key with an element key
			}
			if an.EdgeDominates(b, b.Succs[0], ret.Block()) {
				found = true
			}
		}
		if !found {
			bad = append(bad, "value returned at "+p.Pos(ret.Pos())+" is not guarded by equality of the decoded key strings")
		}
	}
	// no prefix/contains/fold helpers
	for _, b := range fn.Blocks {
		for _, in := range b.Instrs {
			if c, ok := in.(ssa.CallInstruction); ok {
				if f := c.Common().StaticCallee(); f != nil && (an.FnPkgPath(f) == "strings" || an.FnPkgPath(f) == "bytes") {
					switch f.Name() {
					case "HasPrefix", "HasSuffix", "Contains", "EqualFold", "Index":
						bad = append(bad, "uses "+an.FnKey(f)+" at "+p.Pos(in.Pos()))
					}
				}
			}
		}
	}
	r.Check(n > 0 && len(bad) == 0, "C17.N3", "data.(MappingValues).Get", p.FnPos(fn), "option lookup returns a value only for a key equal to the requested key (whole decoded strings compared with ==)", bad...)
}

func debugVisited(ev *an.PEval) string {
	var s []string
	for f := range ev.Visited {
		s = append(s, an.FnKey(f))
	}
	sort.Strings(s)
	return strings.Join(s, ",")
}

// c17GetScansAll (N3b): the lookup must examine every stored pair until a match: the only ways out
// of the loop over the pairs are exhaustion (from the loop header) and the return of a found value.
// Any other exit (a break on an ordering assumption, an early nil return) hides options of
// addresses whose mapping was parsed from the wire in a different order.
func c17GetScansAll(p *an.Prog, r *an.Report, fn *ssa.Function) {
	loops := naturalLoops(fn)
	var bad []string
	for _, li := range loops {
		for blk := range li.body {
			for _, s := range blk.Succs {
				if li.body[s] {
					continue
				}
				if blk == li.header {
					continue // exhaustion
				}
				// leaving from inside the body: must lead to a return of a non-nil value
				okExit := false
				if ret, isRet := s.Instrs[len(s.Instrs)-1].(*ssa.Return); isRet && len(ret.Results) > 0 && !an.IsNilConst(ret.Results[0]) {
					okExit = true
				}
				if !okExit {
					bad = append(bad, fmt.Sprintf("the loop over the pairs is left from block %d to block %d (%s) without a match", blk.Index, s.Index, p.Pos(firstPos(s))))
				}
			}
		}
	}
	r.Check(len(bad) == 0 && len(loops) >= 1, "C17.N3", "(data.MappingValues).Get/scans-all-pairs", p.FnPos(fn), "option lookup examines every pair until a match (no exit on an ordering assumption)", bad...)
}

func firstPos(b *ssa.BasicBlock) token.Pos {
	for _, in := range b.Instrs {
		if in.Pos().IsValid() {
			return in.Pos()
		}
	}
	return token.NoPos
}

// c17RawValidation (N2b): every accessor and predicate validates the option value as stored: the
// string handed to net.ParseIP / strconv.Atoi has no origin in a string-transforming call
// (strings.TrimSpace, ToLower, Replace, ...). A transformation in one accessor makes it accept
// values its sibling predicates reject.
func c17RawValidation(p *an.Prog, r *an.Report, methods []*ssa.Function) {
	isSink := func(c ssa.CallInstruction) bool {
		callee := c.Common().StaticCallee()
		if callee == nil {
			return false
		}
		k := an.FnKey(callee)
		return k == "net.ParseIP" || k == "strconv.Atoi"
	}
	n := 0
	for _, m := range methods {
		chains := callChains(p, m, isSink, func(f *ssa.Function) bool { return !an.InLib(f) }, 6)
		for ci, ch := range chains {
			site := ch[len(ch)-1]
			n++
			var bad []string
			sl := &an.Slicer{P: p, Root: m, Through: an.AllArgs, MaxDepth: 10, TrackExternal: func(f *ssa.Function) bool {
				pk := an.FnPkgPath(f)
				return pk == "strings" || pk == "bytes" || pk == "unicode" || pk == "regexp"
			}}
			for _, l := range sl.LeavesInContext(ch[:len(ch)-1], site.Common().Args[0]) {
				if l.Kind == an.LCall && (strings.HasPrefix(l.Name, "strings.") || strings.HasPrefix(l.Name, "bytes.")) {
					bad = append(bad, "the validated string passes through "+l.Name)
				}
				for _, v := range l.Via {
					if strings.HasPrefix(v, "ext:") {
						bad = append(bad, "the validated string passes through "+strings.TrimPrefix(v, "ext:"))
					}
				}
			}
			callee := site.Common().StaticCallee()
			r.Check(len(bad) == 0, "C17.N2", fmt.Sprintf("%s/raw-value-to-%s#%d", an.FnKey(m), callee.Name(), ci+1), p.Pos(site.Pos()),
				"the option value is validated as stored (no trimming/case-folding before "+callee.Name()+")", uniq(bad)...)
		}
	}
	if n < 4 {
		r.Fail("C17.N2: only %d ParseIP/Atoi validation sites found under the RouterAddress accessors", n)
	}
}
