package rules

import "verif/checker/internal/an"

// Frozen I2P 0.9.67 common-structures tables (https://geti2p.net/spec/common-structures).
// These are the checker's independent reference; nothing here is read from /repo.

type sigSpec struct{ Pub, Sig int64 }

// SpecSigning: signing type code -> signing public key length, signature length.
// 9 and 10 (GOST) are reserved and unimplemented everywhere; 12-20 MLDSA reserved.
var SpecSigning = map[int64]sigSpec{
	0:  {128, 40},  // DSA_SHA1
	1:  {64, 64},   // ECDSA_SHA256_P256
	2:  {96, 96},   // ECDSA_SHA384_P384
	3:  {132, 132}, // ECDSA_SHA512_P521
	4:  {256, 256}, // RSA_SHA256_2048
	5:  {384, 384}, // RSA_SHA384_3072
	6:  {512, 512}, // RSA_SHA512_4096
	7:  {32, 64},   // EdDSA_SHA512_Ed25519
	8:  {32, 64},   // EdDSA_SHA512_Ed25519ph
	11: {32, 64},   // RedDSA_SHA512_Ed25519
}

// SpecCrypto: crypto type code -> public key length inside a key certificate.
var SpecCrypto = map[int64]int64{
	0: 256, // ElGamal
	1: 64,  // P256
	2: 96,  // P384
	3: 132, // P521
	4: 32,  // X25519
	5: 32,  // MLKEM512_X25519 (hybrid; 32-byte X25519 part in the key field)
	6: 32,  // MLKEM768_X25519
	7: 32,  // MLKEM1024_X25519
}

// Private-key size columns: used only to tell the private-size columns of the library's tables
// apart from the public ones during classification; the property says nothing about them and
// no obligation is generated for these classes.
var SpecSigningPrivate = map[int64]int64{0: 20, 1: 32, 2: 48, 3: 66, 4: 512, 5: 768, 6: 1024, 7: 32, 8: 32, 11: 32}
var SpecCryptoPrivate = map[int64]int64{0: 256, 1: 32, 2: 48, 3: 66, 4: 32, 5: 32, 6: 32, 7: 32}

// Experimental type-code range accepted by type validators only.
var SpecExperimental = an.IvRange(65280, 65534)

// Prohibited key types (property C09).
var (
	SpecDestProhibitedCrypto  = an.IvSet{{Lo: 5, Hi: 7}}                                // ML-KEM hybrids
	SpecDestProhibitedSigning = an.IvSet{{Lo: 4, Hi: 6}, {Lo: 8, Hi: 8}}                // RSA, Ed25519ph
	SpecRIProhibitedCrypto    = an.IvSet{{Lo: 5, Hi: 7}}                                //
	SpecRIProhibitedSigning   = an.IvSet{{Lo: 4, Hi: 6}, {Lo: 8, Hi: 8}, {Lo: 11, Hi: 11}} // + RedDSA
)

func specSigKeys() an.IvSet {
	var s an.IvSet
	for k := range SpecSigning {
		s = s.Union(an.IvPoint(k))
	}
	return s
}

func specCryptoKeys() an.IvSet {
	var s an.IvSet
	for k := range SpecCrypto {
		s = s.Union(an.IvPoint(k))
	}
	return s
}

// Code16 is the full 16-bit code space.
var Code16 = an.IvRange(0, 65535)
