package rules

import (
	"fmt"
	"go/token"
	"go/types"
	"os"
	"sort"
	"strings"

	"golang.org/x/tools/go/ssa"

	"verif/checker/internal/an"
)

func init() { Registry["C01"] = C01 }

type wirePair struct {
	T       *types.Named
	key     string
	parsers []*ssa.Function
	ser     *ssa.Function
}

// wirePairs discovers exported struct types that have both a byte serializer method (Bytes, or
// Data for the mapping) and at least one exported parser taking []byte.
func wirePairs(p *an.Prog) []wirePair {
	byType := map[string]*wirePair{}
	for _, pk := range p.LibPkgs {
		scope := pk.Types.Scope()
		for _, name := range scope.Names() {
			tn, ok := scope.Lookup(name).(*types.TypeName)
			if !ok || !tn.Exported() {
				continue
			}
			named, ok := tn.Type().(*types.Named)
			if !ok {
				continue
			}
			if _, isStruct := named.Underlying().(*types.Struct); !isStruct {
				continue
			}
			var ser *ssa.Function
			for _, mname := range []string{"Bytes", "Data"} {
				for _, T := range []types.Type{named, types.NewPointer(named)} {
					if ser != nil {
						break
					}
					sel := p.SSA.MethodSets.MethodSet(T).Lookup(pk.Types, mname)
					if sel == nil || len(sel.Index()) > 1 {
						continue
					}
					sig := sel.Obj().Type().(*types.Signature)
					if sig.Params().Len() != 0 || sig.Results().Len() == 0 || sig.Results().At(0).Type().String() != "[]byte" {
						continue
					}
					ser = p.SSA.MethodValue(sel)
				}
			}
			if ser == nil || len(ser.Blocks) == 0 {
				continue
			}
			byType[pk.PkgPath+"."+name] = &wirePair{T: named, key: an.ShortPkg(pk.PkgPath) + "." + name, ser: ser}
		}
	}
	for _, fn := range p.ExportedAPI() {
		if fn.Signature.Recv() != nil || fn.Synthetic != "" || len(fn.Params) == 0 || len(fn.Blocks) == 0 || fn.Params[0].Type().String() != "[]byte" {
			continue
		}
		res := fn.Signature.Results()
		if res.Len() == 0 {
			continue
		}
		pk, n := an.NamedOf(res.At(0).Type())
		if wp := byType[pk+"."+n]; wp != nil && pk == an.FnPkgPath(fn) {
			wp.parsers = append(wp.parsers, fn)
		}
	}
	var out []wirePair
	for _, wp := range byType {
		if len(wp.parsers) > 0 {
			out = append(out, *wp)
		}
	}
	sort.Slice(out, func(i, j int) bool { return out[i].key < out[j].key })
	return out
}

// c01Derived: struct fields that are not wire content of their own, with the reason.
var c01Derived = map[string]string{
	"offline_signature.OfflineSignature.destinationSigType": "context needed to size the signature; not part of the wire encoding",
	"encrypted_leaseset.EncryptedLeaseSet.innerLength":      "written as the length prefix of encryptedInnerData (count field)",
	"lease_set.LeaseSet.leaseCount":                         "written as the count byte of leases",
	"meta_leaseset.MetaLeaseSet.numEntries":                 "written as the count byte of entries",
	"signature.Signature.sigType":                           "context: the signature type is implied by the signer's key certificate, it is not on the wire",
	"data.Mapping.size":                                     "recomputed from the serialised pairs by Data() (C11.M2)",
	"key_certificate.KeyCertificate.SpkType":                "decoded copy of payload bytes 0-1; the payload itself is serialised",
	"key_certificate.KeyCertificate.CpkType":                "decoded copy of payload bytes 2-3; the payload itself is serialised",
}

func topFields(leaves []an.Leaf, param int, skipLen bool) (map[string]bool, map[string]map[string]bool) {
	fields := map[string]bool{}
	marks := map[string]map[string]bool{}
	for _, l := range leaves {
		if l.Kind != an.LParam || l.Param != param || (skipLen && l.LenOnly) {
			continue
		}
		parts := strings.Split(strings.TrimPrefix(l.Path, "."), ".")
		if parts[0] == "" {
			continue
		}
		fields[parts[0]] = true
		if marks[parts[0]] == nil {
			marks[parts[0]] = map[string]bool{}
		}
		for m := range l.Marks {
			marks[parts[0]][m] = true
		}
	}
	return fields, marks
}

func codecWidths(m map[string]bool, prefix string) []string {
	var out []string
	for k := range m {
		if strings.HasPrefix(k, prefix) {
			out = append(out, strings.TrimPrefix(k, prefix))
		}
	}
	sort.Strings(out)
	return out
}

func C01(p *an.Prog, r *an.Report) {
	r.Explanation = "Structural necessary conditions of 'serialise(parse(x)) = consumed bytes', decided per wire structure (types with both a Bytes()/Data() serializer and an exported []byte parser, discovered from signatures): R1 coverage — every struct field is an origin of the serializer's output and every struct field of the parser's result originates from the input (provenance slicing across library calls); R2 primitive pairing — a field decoded with binary.BigEndian.UintN is encoded with PutUintN of the same N; R3 order — the order in which the serializer appends the fields equals the order in which the parser's cursor-consuming steps feed them; R5 — the 384-byte key block is written and read with the same affine offsets; R6 — the mapping reader does not stop earlier than the writer's smallest pair and reports short tails (shared with C11). Byte equality for all inputs, certificate excess-payload arithmetic and the value-preservation of the mapping codec are not decided. R5 counts a range only for the size pairs under which its dominating guards are satisfiable and requires the certificate to be parsed from data[384:] unbounded; R7: with offline keys the trailing signature's type operand comes from the transient key type; R8: no serializer reaches a sort or rebuilds a mapping; R9: pointers kept per loop iteration refer to per-iteration objects; R6 also refutes, per remaining length 4..8, that no content is ever accepted. R11: no parser advances its cursor past bytes nothing reads. R12: every string the mapping reader yields comes from the one string reader. R13: length/count arithmetic in integer types narrower than 64 bits cannot wrap (relational proof). R14: a serializer returns an intermediate append-chain buffer only where the deciding branches test an error, a nil/empty optional field, a predicate or a flag mask. R15: no fixed-width encode on a serializer path takes its value from a package-level table."
	r.Rule = "per structure: one coverage obligation per field and side, one width obligation per fixed-width field, one order obligation; plus layout and threshold obligations"
	r.Trusted = []string{"go/ssa; provenance through opaque calls assumes results derive from all arguments"}
	flow := an.NewFlow(p)
	pairs := wirePairs(p)
	r.Floor("wire_structures", len(pairs), 10)
	for _, wp := range pairs {
		st := wp.T.Underlying().(*types.Struct)
		// serializer side
		var sLeaves []an.Leaf
		for _, ret := range flow.OkReturns(wp.ser) {
			sl := &an.Slicer{P: p, Root: wp.ser, Through: an.AllArgs, MaxDepth: 10}
			sLeaves = append(sLeaves, sl.Leaves(ret.Results[0])...)
		}
		sFields, sMarks := topFields(sLeaves, 0, true)
		// parser side: per field
		parser := wp.parsers[0]
		for _, pf := range wp.parsers {
			if strings.HasPrefix(pf.Name(), "Read") {
				parser = pf
				break
			}
		}
		pFields := map[string]bool{}
		pMarks := map[string]map[string]bool{}
		for i := 0; i < st.NumFields(); i++ {
			f := st.Field(i).Name()
			for _, ret := range flow.OkReturns(parser) {
				sl := &an.Slicer{P: p, Root: parser, Through: an.AllArgs, MaxDepth: 12}
				for _, l := range sl.LeavesOfField(ret.Results[0], "."+f) {
					if os.Getenv("C01LEAVES") != "" && !(l.Kind == an.LParam && l.Param == 0) && !l.LenOnly {
						fmt.Fprintf(os.Stderr, "LEAF %s.%s: %s via %v\n", wp.key, f, l.String(), l.Via)
					}
					if l.Kind == an.LParam && l.Param == 0 && !l.LenOnly {
						pFields[f] = true
						if pMarks[f] == nil {
							pMarks[f] = map[string]bool{}
						}
						for m := range l.Marks {
							pMarks[f][m] = true
						}
					}
				}
			}
		}
		for i := 0; i < st.NumFields(); i++ {
			f := st.Field(i).Name()
			key := wp.key + "." + f
			if why, ok := c01Derived[key]; ok {
				r.Ob("C01.R1", key+"/derived", p.FnPos(wp.ser), an.Discharged, "derived field: "+why).Nontrivial = false
				continue
			}
			r.Check(sFields[f], "C01.R1", key+"/serialised", p.FnPos(wp.ser), "field is an origin of "+an.FnKey(wp.ser)+"'s output")
			r.Check(pFields[f], "C01.R1", key+"/parsed", p.FnPos(parser), "field of the value "+an.FnKey(parser)+" returns originates from the input bytes")
			// R2
			dec := codecWidths(pMarks[f], "binary.Uint")
			enc := codecWidths(sMarks[f], "binary.PutUint")
			if isIntegerType(st.Field(i).Type()) && (len(dec) > 0 || len(enc) > 0) {
				// fields holding sub-structures carry the codecs of their parts on both sides: compare as sets
				r.Check(strings.Join(dec, ",") == strings.Join(enc, ","), "C01.R2", key+"/width", p.FnPos(wp.ser),
					"fixed-width big-endian decode and encode primitives of the field have the same widths", "decoded with Uint{"+strings.Join(dec, ",")+"}", "encoded with PutUint{"+strings.Join(enc, ",")+"}")
			}
		}
	}
	c01Order(p, r, pairs)
	c02SigTypeSource(p, r, "C01.R7")
	c01NoReorder(p, r)
	c01DistinctElements(p, r, "C01.R9")
	c01NoTruncatingCopy(p, r)
	c01NoUnreadSkip(p, r, "C01.R11")
	c11OneStringReader(p, r, "C01.R12") // mapping strings come from the one string reader (same rule as C11.M7)
	narrowArith(p, r, "C01.R13", nil)   // lengths and counts computed in narrow integer types cannot wrap (same rule as C03.S4)
	c01NoPartialReturn(p, r, "C01.R14")
	c01StoredWidthFields(p, r, "C01.R15")
	c01Block(p, r, "C01.R5")
	c11Threshold(p, r) // R6 (same rule as C11.M5)
}

// c01Order (R3): serializer field order equals parser field order.
func c01Order(p *an.Prog, r *an.Report, pairs []wirePair) {
	extracted := 0
	var notExtracted []string
	for _, wp := range pairs {
		st := wp.T.Underlying().(*types.Struct)
		var fields []string
		for i := 0; i < st.NumFields(); i++ {
			if _, derived := c01Derived[wp.key+"."+st.Field(i).Name()]; !derived {
				fields = append(fields, st.Field(i).Name())
			}
		}
		if len(fields) < 2 {
			continue
		}
		parser := wp.parsers[0]
		for _, pf := range wp.parsers {
			if strings.HasPrefix(pf.Name(), "Read") {
				parser = pf
				break
			}
		}
		sOrder, raw := serFieldOrder(p, wp.ser)
		for vi, po := range parAssignOrders(p, parser, fields) {
			pOrder, posOf, ties := po.order, po.pos, po.ties
			okey := wp.key + "/field-order"
			if vi > 0 {
				okey = fmt.Sprintf("%s/field-order#%d", wp.key, vi+1)
			}
			// random-access parsers (several field-assigning steps read from the original input rather
			// than from a threaded cursor) assign fields in an order unrelated to the wire; their
			// layout is decided by R5 instead
			if n := directInputSteps(parser, posOf); n >= 2 {
				notExtracted = append(notExtracted, fmt.Sprintf("%s (random-access parser: %d field-assigning steps read the original input; layout decided by R5)", wp.key, n))
				continue
			}
			desc := map[string]string{}
			for f, q := range posOf {
				desc[f] = "step " + strings.TrimSuffix(q, ".") + " of " + parser.Name()
			}
			// compare on the fields both sides could place
			inS := map[string]bool{}
			for _, f := range sOrder {
				inS[f] = true
			}
			inP := map[string]bool{}
			for _, f := range pOrder {
				inP[f] = true
			}
			var a, b []string
			for _, f := range sOrder {
				if inP[f] {
					a = append(a, f)
				}
			}
			for _, f := range pOrder {
				if inS[f] {
					b = append(b, f)
				}
			}
			if len(a) < 2 || len(ties) > 0 || len(a) < len(fields)-1 {
				notExtracted = append(notExtracted, fmt.Sprintf("%s (serializer order: %s; parser order: %s; ties: %s)", wp.key, strings.Join(sOrder, ","), strings.Join(pOrder, ","), strings.Join(ties, " ")))
				continue
			}
			extracted++
			var facts []string
			facts = append(facts, "serializer appends: "+raw)
			for _, f := range b {
				facts = append(facts, "parser assigns "+f+" at "+desc[f])
			}
			r.Check(strings.Join(a, ",") == strings.Join(b, ","), "C01.R3", okey, p.FnPos(wp.ser),
				"fields are serialised in the order in which the parser reads them",
				append([]string{"serializer order: " + strings.Join(a, ","), "parser order: " + strings.Join(b, ",")}, facts...)...)
		}
	}
	r.Analysed["structures_with_extracted_order"] = extracted
	r.Analysed["structures_order_not_extracted"] = notExtracted
}

var _ = fmt.Sprint

// directInputSteps counts the distinct calls that assign fields and are given the parser's input
// parameter itself. When every field is assigned below one call that is handed the input (the
// parser delegates to a helper), the count is taken inside that helper.
func directInputSteps(parser *ssa.Function, posOf map[string]string) int {
	var chains [][]int
	for _, pos := range posOf {
		var ch []int
		for _, part := range strings.Split(strings.TrimSuffix(pos, "."), ".") {
			var k int
			if _, err := fmt.Sscanf(part, "%05d", &k); err != nil {
				break
			}
			ch = append(ch, k)
		}
		if len(ch) > 0 {
			chains = append(chains, ch)
		}
	}
	n := directInputStepsIn(parser, 0, chains, 0)
	if os.Getenv("C01DIS") != "" {
		fmt.Fprintf(os.Stderr, "DIS %s chains=%v -> %d\n", parser.Name(), chains, n)
	}
	return n
}

// inputAnchored: v is the input itself or a window of it (a slice of a slice ... of the input), as
// opposed to a cursor produced by an earlier parsing step.
func inputAnchored(v ssa.Value, input *ssa.Parameter, depth int) bool {
	if depth > 4 {
		return false
	}
	if v == ssa.Value(input) {
		return true
	}
	if s, ok := v.(*ssa.Slice); ok {
		return inputAnchored(s.X, input, depth+1)
	}
	return false
}

func directInputStepsIn(fn *ssa.Function, input int, chains [][]int, depth int) int {
	if depth > 4 || input >= len(fn.Params) {
		return 0
	}
	idx := map[int]ssa.Instruction{}
	n := 0
	for _, b := range rpo(fn) {
		for _, in := range b.Instrs {
			idx[n] = in
			n++
		}
	}
	// group the chains by the step of this function they pass through
	groups := map[int][][]int{}
	var order []int
	for _, ch := range chains {
		if _, ok := groups[ch[0]]; !ok {
			order = append(order, ch[0])
		}
		if len(ch) > 1 {
			groups[ch[0]] = append(groups[ch[0]], ch[1:])
		} else {
			groups[ch[0]] = append(groups[ch[0]], nil)[:len(groups[ch[0]])]
		}
	}
	count := 0
	for _, first := range order {
		c, ok := idx[first].(*ssa.Call)
		if !ok {
			continue
		}
		// parsing steps are library functions; a decoder of the standard library applied to a
		// window (binary.BigEndian.Uint32(data[0:4])) is part of the step it occurs in
		if callee := c.Call.StaticCallee(); callee == nil || !an.InLib(callee) {
			continue
		}
		arg := -1
		for ai, a := range c.Call.Args {
			if inputAnchored(a, fn.Params[input], 0) {
				arg = ai
				break
			}
		}
		if arg < 0 {
			continue
		}
		// a step handed the input counts once, or as many times as the helper behind it makes
		// input-anchored steps of its own
		steps := 1
		if callee := c.Call.StaticCallee(); callee != nil && an.InLib(callee) && len(callee.Blocks) > 0 && len(groups[first]) > 0 {
			if m := directInputStepsIn(callee, arg, groups[first], depth+1); m > steps {
				steps = m
			}
		}
		count += steps
	}
	return count
}

// ---- R5: the 384-byte key block ---------------------------------------------------------------

// kacAtom names size quantities of the key block: P = crypto key size, S = signing key size.
func kacAtom(p *an.Prog, callers map[*ssa.Function][]*ssa.Call) func(ssa.Value) string {
	var atom func(v ssa.Value) string
	depth := 0
	atom = func(v ssa.Value) string {
		depth++
		defer func() { depth-- }()
		if depth > 6 {
			return ""
		}
		switch x := v.(type) {
		case *ssa.Call:
			if callee := x.Call.StaticCallee(); callee != nil {
				switch callee.Name() {
				case "CryptoSize":
					return "P"
				case "SigningPublicKeySize":
					return "S"
				}
			}
			// Bytes() of the stored keys: their lengths are P and S for a valid KeysAndCert
			if x.Call.IsInvoke() && x.Call.Method.Name() == "Bytes" {
				if u, ok := x.Call.Value.(*ssa.UnOp); ok {
					if fa, ok := u.X.(*ssa.FieldAddr); ok {
						switch fieldNameOf(fa.X.Type(), fa.Field) {
						case "ReceivingPublic":
							return "pub"
						case "SigningPublic":
							return "sig"
						}
					}
				}
			}
		case *ssa.Parameter:
			if x.Type().String() == "[]byte" {
				return "data"
			}
			// integer parameter of a helper: what every caller passes
			fn := x.Parent()
			idx := -1
			for i, q := range fn.Params {
				if q == x {
					idx = i
				}
			}
			// substitute the expression every caller passes (must agree)
			enc := ""
			if os.Getenv("C01DEBUG") != "" {
				fmt.Println("DEBUG atom param", x.Name(), "of", an.FnKey(fn), "callers", len(callers[fn]), "idx", idx)
			}
			for _, c := range callers[fn] {
				if idx < 0 || idx >= len(c.Call.Args) {
					return ""
				}
				a := an.AffineOf(c.Call.Args[idx], atom)
				if !a.OK {
					return ""
				}
				e := a.Encode()
				if enc != "" && enc != e {
					return ""
				}
				enc = e
			}
			return enc
		case *ssa.Extract:
			// a result of a library helper that returns the same expression on every path (size constants)
			if c, ok := x.Tuple.(*ssa.Call); ok {
				if callee := c.Call.StaticCallee(); callee != nil && an.InLib(callee) && len(callee.Blocks) > 0 {
					enc := ""
					for _, ret := range an.Returns(callee) {
						if x.Index >= len(ret.Results) {
							return ""
						}
						a := an.AffineOf(ret.Results[x.Index], atom)
						if !a.OK {
							return ""
						}
						if e := a.Encode(); enc != "" && enc != e {
							return ""
						} else {
							enc = e
						}
					}
					return enc
				}
			}
		case *ssa.Field:
			// a field of an immutable carrier struct built by a library function (e.g. a layout
			// record holding the key sizes)
			if a := an.StructFieldAffine(x.X, x.Field, atom, callers, 0); a.OK {
				return a.Encode()
			}
		case *ssa.UnOp:
			// the same, for a carrier kept in a local variable
			if x.Op == token.MUL {
				if fa, ok := x.X.(*ssa.FieldAddr); ok {
					if al, ok := fa.X.(*ssa.Alloc); ok {
						if a := an.StructFieldOfAlloc(al, fa.Field, atom, callers, 0); a.OK {
							return a.Encode()
						}
					}
				}
			}
		case *ssa.Alloc, *ssa.MakeSlice:
			return "buf"
		}
		return ""
	}
	return atom
}

func evalAffine(a an.Affine, env map[string]int64) (int64, bool) {
	if !a.OK {
		return 0, false
	}
	v := a.C
	for k, c := range a.Terms {
		if c == 0 {
			continue
		}
		x, ok := env[k]
		if !ok {
			return 0, false
		}
		v += c * x
	}
	return v, true
}

type kacRange struct {
	lo, hi an.Affine
	pos    string
	what   string
}

func c01Block(p *an.Prog, r *an.Report, rule string) {
	pkg := p.Pkg("keys_and_cert")
	if pkg == nil {
		r.Fail(rule + ": package keys_and_cert not found")
		return
	}
	callers := map[*ssa.Function][]*ssa.Call{}
	var fns []*ssa.Function
	for _, fn := range p.RepoFns {
		if an.FnPkgPath(fn) != an.ModPath+"/keys_and_cert" {
			continue
		}
		fns = append(fns, fn)
		for _, b := range fn.Blocks {
			for _, in := range b.Instrs {
				if c, ok := in.(*ssa.Call); ok && c.Call.StaticCallee() != nil {
					callers[c.Call.StaticCallee()] = append(callers[c.Call.StaticCallee()], c)
				}
			}
		}
	}
	atom := kacAtom(p, callers)
	// supported (P,S) pairs
	var pairs [][2]int64
	for _, P := range []int64{256, 64, 96, 132, 32} {
		for _, S := range []int64{128, 64, 96, 32} {
			pairs = append(pairs, [2]int64{P, S})
		}
	}
	expect := func(P, S int64) map[string]bool {
		m := map[string]bool{fmt.Sprintf("[%d,%d)", 384-S, 384): true}
		if P < 256 {
			m[fmt.Sprintf("[%d,256)", P)] = true
		}
		if S < 128 {
			m[fmt.Sprintf("[256,%d)", 384-S)] = true
		}
		return m
	}

	// writer: the function that allocates the 384-byte block and copies into slices of it
	var writer *ssa.Function
	var block ssa.Value
	for _, fn := range fns {
		for _, b := range fn.Blocks {
			for _, in := range b.Instrs {
				if a, ok := in.(*ssa.Alloc); ok {
					if arr, ok := an.Deref(a.Type()).Underlying().(*types.Array); ok && arr.Len() == 384 {
						writer, block = fn, a
					}
				}
			}
		}
	}
	if writer == nil {
		r.Ob(rule, "writer", "-", an.Undecided, "no function of keys_and_cert allocates the 384-byte block")
	} else {
		var dst []kacRange
		for _, b := range writer.Blocks {
			for _, in := range b.Instrs {
				c, ok := in.(*ssa.Call)
				if !ok || !isBuiltin(c, "copy") {
					continue
				}
				s, ok := c.Call.Args[0].(*ssa.Slice)
				if !ok {
					continue
				}
				root, lo, hi := an.SliceRange(s, atom)
				for {
					if s2, ok := root.(*ssa.Slice); ok {
						root = s2.X
						continue
					}
					break
				}
				if root != block {
					continue
				}
				dst = append(dst, kacRange{lo, hi, p.Pos(c.Pos()), ""})
			}
		}
		var bad []string
		for _, pr := range pairs {
			env := map[string]int64{"P": pr[0], "S": pr[1], "len(pub)": pr[0], "len(sig)": pr[1], "len(buf)": 384}
			got := map[string]bool{}
			for _, d := range dst {
				lo, ok1 := evalAffine(d.lo, env)
				hi, ok2 := evalAffine(d.hi, env)
				if !ok1 || !ok2 {
					bad = append(bad, "offset of the copy at "+d.pos+" is not an affine form in P,S: ["+d.lo.String()+","+d.hi.String()+")")
					continue
				}
				got[fmt.Sprintf("[%d,%d)", lo, hi)] = true
			}
			want := expect(pr[0], pr[1])
			want[fmt.Sprintf("[0,%d)", pr[0])] = true
			for w := range want {
				if !got[w] {
					bad = append(bad, fmt.Sprintf("P=%d S=%d: block range %s is not written", pr[0], pr[1], w))
				}
			}
			for g := range got {
				if !want[g] {
					// ranges that vanish for this pair (empty padding) are fine
					var lo, hi int64
					fmt.Sscanf(g, "[%d,%d)", &lo, &hi)
					if hi > lo {
						bad = append(bad, fmt.Sprintf("P=%d S=%d: unexpected block range %s is written", pr[0], pr[1], g))
					}
				}
			}
		}
		bad = dedupe(bad, 8)
		var forms []string
		for _, d := range dst {
			forms = append(forms, "["+d.lo.String()+","+d.hi.String()+")")
		}
		r.Check(len(bad) == 0 && len(dst) >= 3, rule, "writer/"+an.FnKey(writer), p.FnPos(writer),
			"the key block is written as crypto key [0,P) | padding [P,256) | padding [256,384-S) | signing key [384-S,384) for all 20 supported size pairs",
			append(bad, "copy destinations: "+strings.Join(forms, " "))...)
	}

	// readers: ranges of the input read by the helpers of each reader entry point
	for _, name := range []string{"ReadKeysAndCert", "ReadKeysAndCertElgAndEd25519", "ReadKeysAndCertX25519AndEd25519"} {
		root := pkg.Func(name)
		if root == nil {
			r.Fail(rule+": anchor keys_and_cert.%s not found", name)
			continue
		}
		var rng []kacRange
		var rngAt []*ssa.Slice
		bnd := an.NewBounds(p)
		clos := p.Reachable(p.CG(), []*ssa.Function{root}, func(f *ssa.Function) bool { return an.FnPkgPath(f) == an.ModPath+"/keys_and_cert" })
		// calling contexts restricted to this entry point's closure
		rcallers := map[*ssa.Function][]*ssa.Call{}
		for callee, cs := range callers {
			for _, c := range cs {
				if _, in := clos[c.Parent()]; in {
					rcallers[callee] = append(rcallers[callee], c)
				}
			}
		}
		atom := kacAtom(p, rcallers)
		for fn := range clos {
			if an.FnPkgPath(fn) != an.ModPath+"/keys_and_cert" {
				continue
			}
			for _, b := range fn.Blocks {
				for _, in := range b.Instrs {
					s, ok := in.(*ssa.Slice)
					if !ok {
						continue
					}
					if _, nested := s.X.(*ssa.Slice); nested {
						// handled through the outer slice's SliceRange
					}
					rootv, lo, hi := an.SliceRange(s, atom)
					for {
						if s2, ok := rootv.(*ssa.Slice); ok {
							rootv = s2.X
							continue
						}
						break
					}
					prm, ok := rootv.(*ssa.Parameter)
					if !ok || prm.Type().String() != "[]byte" {
						continue
					}
					rng = append(rng, kacRange{lo, hi, p.Pos(s.Pos()), an.FnKey(fn)})
					rngAt = append(rngAt, s)
				}
			}
		}
		// reachable(d, P, S): the branch conditions that dominate the slice are satisfiable when the
		// enclosing function's integer parameters take the values they have for this size pair
		reachable := func(i int, env map[string]int64) bool {
			s := rngAt[i]
			fn := s.Parent()
			facts := append([]an.Fact{}, bnd.FactsAt(s.Block(), an.InstrIndex(s))...)
			for _, prm := range fn.Params {
				if !isIntegerType(prm.Type()) {
					continue
				}
				if v, ok := evalAffine(an.AffineOf(prm, atom), env); ok {
					t := an.LinTerm(an.Term{K: an.TermKeyOf(prm)})
					facts = append(facts, an.Fact{L: t.Add(an.LinConst(v), -1)}, an.Fact{L: an.LinConst(v).Add(t, -1)})
				}
			}
			return !bnd.Inconsistent(facts)
		}
		prs := pairs
		switch name {
		case "ReadKeysAndCertElgAndEd25519":
			prs = [][2]int64{{256, 32}}
		case "ReadKeysAndCertX25519AndEd25519":
			prs = [][2]int64{{32, 32}}
		}
		var bad []string
		for _, pr := range prs {
			env := map[string]int64{"P": pr[0], "S": pr[1]}
			got := map[string]bool{}
			for di, d := range rng {
				if !reachable(di, env) {
					continue // guarded out for this size pair
				}
				lo, ok1 := evalAffine(d.lo, env)
				// windows to the end of the input have hi = len(data)
				hiA := d.hi
				hi, ok2 := evalAffine(hiA, env)
				if !ok1 {
					continue
				}
				if !ok2 {
					// open to the end of the input only when the bound really is len(<input>)
					openEnd := hiA.OK && hiA.C == 0 && len(hiA.Terms) == 1
					for k, c := range hiA.Terms {
						if !strings.HasPrefix(k, "len(") || c != 1 {
							openEnd = false
						}
					}
					if openEnd {
						got[fmt.Sprintf("[%d,end)", lo)] = true
					} else {
						got[fmt.Sprintf("[%d,?)", lo)] = true
					}
					continue
				}
				got[fmt.Sprintf("[%d,%d)", lo, hi)] = true
			}
			for w := range expect(pr[0], pr[1]) {
				if !got[w] {
					bad = append(bad, fmt.Sprintf("P=%d S=%d: input range %s is never read", pr[0], pr[1], w))
				}
			}
			okPub := false
			for g := range got {
				var lo, hi int64
				if n, _ := fmt.Sscanf(g, "[%d,%d)", &lo, &hi); n == 2 {
					if lo == 0 && hi >= pr[0] {
						okPub = true
					}
					// a window that starts inside the key fields must be one of the specified ones
					if lo > 0 && lo < 384 && hi > lo && !expect(pr[0], pr[1])[g] && !(hi <= pr[0]) {
						bad = append(bad, fmt.Sprintf("P=%d S=%d: unexpected input range %s is read", pr[0], pr[1], g))
					}
				}
			}
			if !okPub {
				bad = append(bad, fmt.Sprintf("P=%d S=%d: the crypto key is not read from the start of the block", pr[0], pr[1]))
			}
			// the certificate is parsed from everything after the block: its own length field, not a
			// fixed window, decides where it ends (all readers must agree on this)
			if !got["[384,end)"] {
				bad = append(bad, fmt.Sprintf("P=%d S=%d: the certificate is not parsed from data[384:] (unbounded)", pr[0], pr[1]))
			}
			for g := range got {
				var lo, hi int64
				if n, _ := fmt.Sscanf(g, "[%d,%d)", &lo, &hi); n == 2 && lo >= 384 && hi > lo {
					bad = append(bad, fmt.Sprintf("P=%d S=%d: fixed window %s after the key block (certificates may be longer than 7 bytes)", pr[0], pr[1], g))
				}
				if strings.HasSuffix(g, ",?)") {
					if n, _ := fmt.Sscanf(g, "[%d,?)", &lo); n == 1 && lo >= 384 {
						bad = append(bad, fmt.Sprintf("P=%d S=%d: the window starting at %d after the key block ends at a computed offset, not at the end of the input (the certificate's own length field must decide)", pr[0], pr[1], lo))
					}
				}
				if strings.HasSuffix(g, ",end)") {
					if n, _ := fmt.Sscanf(g, "[%d,end)", &lo); n == 1 && lo > 384 {
						bad = append(bad, fmt.Sprintf("P=%d S=%d: the input is cut at the fixed offset %d after the key block (the remainder must be what the certificate parser leaves)", pr[0], pr[1], lo))
					}
				}
			}
		}
		bad = dedupe(bad, 8)
		var forms []string
		seen := map[string]bool{}
		for _, d := range rng {
			f := "[" + d.lo.String() + "," + d.hi.String() + ")"
			if !seen[f] {
				seen[f] = true
				forms = append(forms, f)
			}
		}
		sort.Strings(forms)
		r.Check(len(bad) == 0 && len(rng) >= 3, rule, "reader/keys_and_cert."+name, p.FnPos(root),
			"the reader takes the crypto key from the start, the padding from [P,256) and [256,384-S), the signing key from [384-S,384)",
			append(bad, "input ranges read: "+strings.Join(forms, " "))...)
	}
}

func dedupe(s []string, max int) []string {
	seen := map[string]bool{}
	var out []string
	for _, x := range s {
		if !seen[x] {
			seen[x] = true
			out = append(out, x)
		}
	}
	if len(out) > max {
		out = append(out[:max], fmt.Sprintf("… %d more", len(out)-max))
	}
	return out
}

// c01NoReorder (R8): re-serialisation can only reproduce the consumed bytes if the serializer emits
// what the parser stored, in stored order. No serializer of a wire structure — nor the signed-data
// serializers — may therefore reach a sorting routine or rebuild a mapping from its values (both
// reorder unsorted-but-accepted input). Canary: data.ValuesToMapping must itself be recognised as
// reaching a sort.
func c01NoReorder(p *an.Prog, r *an.Report) {
	sorts := func(f *ssa.Function) []string {
		var out []string
		for _, blk := range f.Blocks {
			for _, in := range blk.Instrs {
				c, ok := in.(ssa.CallInstruction)
				if !ok {
					continue
				}
				callee := c.Common().StaticCallee()
				if callee == nil {
					continue
				}
				if strings.HasSuffix(callee.Name(), "AreSorted") || strings.HasPrefix(callee.Name(), "IsSorted") || strings.HasPrefix(callee.Name(), "Search") {
					continue // read-only queries
				}
				if an.FnPkgPath(callee) == "sort" || an.FnPkgPath(callee) == "slices" && strings.HasPrefix(callee.Name(), "Sort") {
					out = append(out, an.FnKey(callee)+" at "+p.Pos(c.Pos()))
				}
			}
		}
		return out
	}
	reachSort := func(root *ssa.Function) []string {
		var hits []string
		clos := p.Reachable(p.CG(), []*ssa.Function{root}, func(f *ssa.Function) bool { return an.InLib(f) })
		for f, path := range clos {
			if !an.InLib(f) {
				continue
			}
			for _, h := range sorts(f) {
				hits = append(hits, h+" via "+an.PathString(path))
			}
		}
		sort.Strings(hits)
		return hits
	}
	if vtm := p.Func("data.ValuesToMapping"); vtm == nil || len(reachSort(vtm)) == 0 {
		r.Fail("C01.R8 canary: data.ValuesToMapping is not recognised as reaching a sort")
	}
	n := 0
	for _, wp := range wirePairs(p) {
		if wp.ser == nil {
			continue
		}
		n++
		hits := reachSort(wp.ser)
		r.Check(len(hits) == 0, "C01.R8", wp.key+"/serializer-keeps-order", p.FnPos(wp.ser), "the serializer emits the stored fields without sorting or rebuilding them (unsorted but accepted input re-serialises to itself)", dedupe(hits, 4)...)
		for _, ps := range wp.parsers {
			ph := reachSort(ps)
			r.Check(len(ph) == 0, "C01.R8", wp.key+"/parser-keeps-order/"+ps.Name(), p.FnPos(ps), "the parser stores what it read in the order it read it (no sorting while parsing)", dedupe(ph, 4)...)
		}
	}
	if n < 10 {
		r.Fail("C01.R8: only %d serializers examined", n)
	}
}

// c01DistinctElements: inside a loop, a pointer that is appended to (or stored into an element of)
// a slice must point to an object allocated in that iteration. Appending the address of a variable
// allocated outside the loop and re-assigned inside it makes every element alias the last value:
// a parsed list of N elements then serialises as N copies of the last one.
func c01DistinctElements(p *an.Prog, r *an.Report, rule string) {
	n := 0
	var bad []string
	for _, fn := range p.RepoFns {
		if !an.InLib(fn) || len(fn.Blocks) == 0 {
			continue
		}
		for _, li := range naturalLoops(fn) {
			for blk := range li.body {
				for _, in := range blk.Instrs {
					var ptrs []ssa.Value
					switch x := in.(type) {
					case *ssa.Call:
						if isBuiltin(x, "append") && len(x.Call.Args) == 2 {
							// the variadic tail is a slice of a fresh array whose elements are stored just before
							if sl, ok := x.Call.Args[1].(*ssa.Slice); ok {
								if arr, ok := sl.X.(*ssa.Alloc); ok {
									for _, ref := range *arr.Referrers() {
										if ia, ok := ref.(*ssa.IndexAddr); ok {
											for _, r2 := range *ia.Referrers() {
												if st, ok := r2.(*ssa.Store); ok && st.Addr == ssa.Value(ia) {
													ptrs = append(ptrs, st.Val)
												}
											}
										}
									}
								}
							}
						}
					case *ssa.Store:
						if _, ok := x.Addr.(*ssa.IndexAddr); ok {
							ptrs = append(ptrs, x.Val)
						}
					}
					for _, v := range ptrs {
						al, ok := v.(*ssa.Alloc)
						if !ok {
							continue
						}
						if _, isPtr := al.Type().Underlying().(*types.Pointer); !isPtr {
							continue
						}
						n++
						if li.body[al.Block()] {
							continue // allocated per iteration
						}
						// allocated once outside the loop: is it written inside the loop?
						written := false
						for _, ref := range *al.Referrers() {
							if st, ok := ref.(*ssa.Store); ok && st.Addr == ssa.Value(al) && li.body[st.Block()] {
								written = true
							}
						}
						if written {
							bad = append(bad, fmt.Sprintf("%s: the address of %s (allocated once outside the loop, re-assigned inside it) is kept per element at %s: all elements alias the last value", an.FnKey(fn), al.Comment, p.Pos(in.Pos())))
						}
					}
				}
			}
		}
	}
	r.Analysed["per-element pointer stores in loops"] = n
	r.Check(len(bad) == 0 && n > 0, rule, "loops/distinct-elements", "", fmt.Sprintf("every pointer kept per loop iteration (%d sites) refers to an object of that iteration", n), bad...)
}

// c01NoTruncatingCopy (R10): in the closure of every wire-structure serializer, each copy(dst, src)
// must have len(dst) >= len(src) on every path (relational bounds proof): a field copied into a
// buffer sized from something other than the field itself is cut short (or the record is padded),
// and the bytes written are no longer the bytes parsed.
func c01NoTruncatingCopy(p *an.Prog, r *an.Report) {
	b := an.NewBounds(p)
	b.Axioms = c04IntAxiom
	seenFn := map[*ssa.Function]bool{}
	n := 0
	for _, wp := range wirePairs(p) {
		if wp.ser == nil {
			continue
		}
		clos := p.Reachable(p.CG(), []*ssa.Function{wp.ser}, func(f *ssa.Function) bool { return an.InLib(f) })
		var fns []*ssa.Function
		for f := range clos {
			if an.InLib(f) && !seenFn[f] {
				fns = append(fns, f)
			}
		}
		sort.Slice(fns, func(i, j int) bool { return an.FnKey(fns[i]) < an.FnKey(fns[j]) })
		for _, fn := range fns {
			seenFn[fn] = true
			k := 0
			for _, blk := range fn.Blocks {
				for _, in := range blk.Instrs {
					c, ok := in.(*ssa.Call)
					if !ok || !isBuiltin(c, "copy") || len(c.Call.Args) != 2 {
						continue
					}
					n++
					k++
					goal := b.LenOf(c.Call.Args[0]).Add(b.LenOf(c.Call.Args[1]), -1)
					pr := b.ProveAt(c, goal)
					r.Check(pr.OK, "C01.R10", fmt.Sprintf("%s/copy%d", an.FnKey(fn), k), p.Pos(c.Pos()),
						"copy() on a serializer path does not truncate: len(dst) >= len(src) on every path", append([]string{"goal " + goal.String() + " >= 0"}, pr.Trail...)...)
				}
			}
		}
	}
	r.Analysed["copies on serializer paths"] = n
}

// c01NoUnreadSkip (R11): on a parser path a cursor is never advanced past bytes that nothing
// looked at. `rest = x[n:]` with a non-zero n drops x[:n]; when no other use of x reads it (indexing,
// slicing with an upper bound, passing it to a call, storing or returning it) those bytes reach no
// field and the serializer cannot reproduce them, so Bytes() differs from the consumed input for
// every input in which they are present.
func c01NoUnreadSkip(p *an.Prog, r *an.Report, rule string) {
	callers := map[*ssa.Function][]*ssa.Call{}
	for _, fn := range p.RepoFns {
		for _, b := range fn.Blocks {
			for _, in := range b.Instrs {
				if c, ok := in.(*ssa.Call); ok {
					if g := c.Call.StaticCallee(); g != nil {
						callers[g] = append(callers[g], c)
					}
				}
			}
		}
	}
	// aliases of x inside its function: the loads of the same local variable, x itself
	var isRead func(x ssa.Value, skip ssa.Instruction, depth int) bool
	isRead = func(x ssa.Value, skip ssa.Instruction, depth int) bool {
		if depth > 3 {
			return true
		}
		vals := []ssa.Value{x}
		if u, ok := x.(*ssa.UnOp); ok && u.Op == token.MUL {
			if a, ok := u.X.(*ssa.Alloc); ok {
				vals = nil
				for _, ref := range *a.Referrers() {
					if l, ok := ref.(*ssa.UnOp); ok && l.Op == token.MUL {
						vals = append(vals, l)
					}
					if st, ok := ref.(*ssa.Store); ok && st.Addr == ssa.Value(a) {
						// what is stored was produced (and possibly read) elsewhere
						if isRead(st.Val, skip, depth+1) {
							return true
						}
					}
				}
			} else {
				return true // loaded from a field, global or element: other readers unknown
			}
		}
		for _, v := range vals {
			if v.Referrers() == nil {
				return true
			}
			for _, ref := range *v.Referrers() {
				switch y := ref.(type) {
				case *ssa.DebugRef:
				case *ssa.Slice:
					if ssa.Instruction(y) == skip {
						continue
					}
					if y.X == v && y.High == nil && y.Low != nil {
						continue // another suffix of the same cursor
					}
					return true
				case *ssa.Call:
					if ssa.Instruction(y) == skip {
						continue // the call through which we arrived here
					}
					if bi, ok := y.Call.Value.(*ssa.Builtin); ok && (bi.Name() == "len" || bi.Name() == "cap") {
						continue
					}
					return true
				case *ssa.Return:
					// handed back unchanged on another path: not a look at its contents
				case *ssa.Store:
					if y.Val == v {
						if a, ok := y.Addr.(*ssa.Alloc); ok {
							// kept in a local variable: its loads decide
							for _, r2 := range *a.Referrers() {
								if l, ok := r2.(*ssa.UnOp); ok && l != v && isRead(l, skip, depth+1) {
									return true
								}
							}
							continue
						}
					}
					return true
				default:
					return true
				}
			}
		}
		switch src := x.(type) {
		case *ssa.Parameter:
			fn := src.Parent()
			idx := -1
			for i, q := range fn.Params {
				if q == src {
					idx = i
				}
			}
			cs := callers[fn]
			if len(cs) == 0 || idx < 0 {
				return true // entry point: the caller owns the bytes
			}
			for _, c := range cs {
				if idx >= len(c.Call.Args) || isRead(c.Call.Args[idx], c, depth+1) {
					return true
				}
			}
			return false
		case *ssa.Phi:
			for _, e := range src.Edges {
				if sv, isV := skip.(ssa.Value); (!isV || e != sv) && isRead(e, skip, depth+1) {
					return true
				}
			}
			return false
		case *ssa.Slice, *ssa.Extract, *ssa.Call:
			return false // a fresh window or a remainder handed back by a reader: only the uses above count
		}
		return true
	}
	seenFn := map[*ssa.Function]bool{}
	var bad []string
	n := 0
	for _, wp := range wirePairs(p) {
		clos := p.Reachable(p.CG(), wp.parsers, func(f *ssa.Function) bool { return an.InLib(f) })
		var fns []*ssa.Function
		for f := range clos {
			if an.InLib(f) && !seenFn[f] && len(f.Blocks) > 0 {
				fns = append(fns, f)
			}
		}
		sort.Slice(fns, func(i, j int) bool { return an.FnKey(fns[i]) < an.FnKey(fns[j]) })
		for _, fn := range fns {
			seenFn[fn] = true
			for _, blk := range fn.Blocks {
				for _, in := range blk.Instrs {
					sl, ok := in.(*ssa.Slice)
					if !ok || sl.High != nil || sl.Low == nil || !isByteSliceType(sl.X.Type()) {
						continue
					}
					if c, ok := sl.Low.(*ssa.Const); ok && c.Value != nil && c.Int64() == 0 {
						continue
					}
					n++
					if !isRead(sl.X, sl, 0) {
						bad = append(bad, fmt.Sprintf("%s: %s drops bytes of a cursor nothing reads (%s)", p.Pos(sl.Pos()), sl.String(), an.FnKey(fn)))
					}
				}
			}
		}
	}
	r.Analysed["cursor advances on parser paths"] = n
	if n < 30 {
		r.Fail("%s: only %d cursor advances found on parser paths (expected >= 30): the detector no longer sees the parsers", rule, n)
	}
	sort.Strings(bad)
	r.Check(len(bad) == 0, rule, "parsers/no-unread-skip", "-", "no parser advances its cursor past bytes that are never read (consumed bytes all reach a field or a check)", bad...)
}

func isByteSliceType(t types.Type) bool {
	s, ok := t.Underlying().(*types.Slice)
	if !ok {
		return false
	}
	b, ok := s.Elem().Underlying().(*types.Basic)
	return ok && b.Kind() == types.Uint8
}
