package rules

import (
	"fmt"
	"go/token"
	"go/types"

	"golang.org/x/tools/go/ssa"

	"verif/checker/internal/an"
)

// selParam selects parameter i of the root function as q.
func selParam(fn *ssa.Function, i int) an.QSelector {
	prm := fn.Params[i]
	return func(ev *an.PEval, v ssa.Value, args []an.AV) bool { return v == ssa.Value(prm) }
}

// selLenOf selects len(<value>) as q: any len call on the same SSA value, or — when the value is
// a parameter of the root function — on the symbolic object the parameter was bound to (so that
// the quantity is recognised inside inlined callees too).
func selLenOf(val ssa.Value) an.QSelector {
	path := ""
	if prm, ok := val.(*ssa.Parameter); ok {
		for i, q := range prm.Parent().Params {
			if q == prm {
				path = fmt.Sprintf("p%d", i)
			}
		}
	}
	return func(ev *an.PEval, v ssa.Value, args []an.AV) bool {
		c, ok := v.(*ssa.Call)
		if !ok {
			return false
		}
		bi, ok := c.Call.Value.(*ssa.Builtin)
		if !ok || bi.Name() != "len" || len(c.Call.Args) != 1 {
			return false
		}
		if c.Call.Args[0] == val {
			return true
		}
		return path != "" && len(args) == 1 && args[0].K == an.KObj && args[0].Path == path
	}
}

// rejectRegions evaluates fn and returns (must-reject, may-accept) over dom for the error result.
func rejectRegions(p *an.Prog, fn *ssa.Function, sel an.QSelector, dom an.IvSet, args []an.AV) (must, mayAccept an.IvSet, outs []an.Outcome, err error) {
	if args == nil {
		args = rootArgs(fn)
	}
	ev := &an.PEval{P: p, Domain: dom, Select: sel, MaxPaths: 20000, LoopOK: true}
	outs, err = ev.Run(fn, args)
	if err != nil {
		return nil, nil, nil, err
	}
	ei := an.ErrIndex(fn)
	if ei < 0 {
		return nil, nil, outs, fmt.Errorf("%s has no error result", an.FnKey(fn))
	}
	must, _, _ = an.RegionWhere(dom, outs, func(o an.Outcome) bool { return !o.Panic && o.ErrIs(ei) == 2 })
	_, mayAccept, _ = an.RegionWhere(dom, outs, func(o an.Outcome) bool { return !o.Panic && o.ErrIs(ei) != 2 })
	return must, mayAccept, outs, nil
}

// checkRegion adds an obligation "fn rejects exactly `wantReject` of dom (as a function of q)".
func checkRegion(p *an.Prog, r *an.Report, rule, key string, fn *ssa.Function, sel an.QSelector, dom, wantReject an.IvSet, what string, args []an.AV) {
	if fn == nil {
		r.Fail("%s: anchor %s not found", rule, key)
		return
	}
	must, mayAcc, _, err := rejectRegions(p, fn, sel, dom, args)
	if err != nil {
		r.Ob(rule, key, p.FnPos(fn), an.Undecided, "region could not be extracted: "+err.Error())
		return
	}
	wantAccept := dom.Minus(wantReject)
	ok := must.Equal(wantReject) && mayAcc.Equal(wantAccept)
	r.Check(ok, rule, key, p.FnPos(fn), what,
		"must-reject "+must.String(), "may-accept "+mayAcc.String(), "expected reject "+wantReject.String())
}

// staticRange bounds an integer SSA value from its type and defining operation.
func staticRange(v ssa.Value) an.IvSet {
	tr, _ := typeRangeOf(v.Type())
	switch x := v.(type) {
	case *ssa.Const:
		if x.Value != nil {
			if i, ok := x.Int64(), true; ok {
				return an.IvPoint(i)
			}
		}
	case *ssa.Call:
		if bi, ok := x.Call.Value.(*ssa.Builtin); ok && (bi.Name() == "len" || bi.Name() == "cap") {
			return an.IvRange(0, an.PosInf)
		}
	case *ssa.BinOp:
		switch x.Op {
		case token.AND:
			if c, ok := x.Y.(*ssa.Const); ok && c.Value != nil && c.Int64() >= 0 {
				return an.IvRange(0, c.Int64())
			}
			if c, ok := x.X.(*ssa.Const); ok && c.Value != nil && c.Int64() >= 0 {
				return an.IvRange(0, c.Int64())
			}
		case token.REM:
			if c, ok := x.Y.(*ssa.Const); ok && c.Value != nil && c.Int64() > 0 {
				return an.IvRange(-(c.Int64() - 1), c.Int64()-1).Intersect(tr.Union(an.IvRange(an.NegInf, 0)))
			}
		case token.SHR:
			// x >> c of a non-negative operand stays within the operand's range
			return staticRange(x.X).Intersect(tr)
		}
	case *ssa.Convert:
		src := staticRange(x.X)
		if src.SubsetOf(tr) {
			return src
		}
	case *ssa.UnOp:
		if x.Op == token.MUL {
			return tr
		}
	case *ssa.Index, *ssa.Extract, *ssa.Field, *ssa.Lookup:
		return tr
	case *ssa.Phi:
		var u an.IvSet
		for _, e := range x.Edges {
			if e == ssa.Value(x) {
				continue
			}
			if _, isPhi := e.(*ssa.Phi); isPhi {
				return tr
			}
			u = u.Union(staticRange(e))
		}
		return u.Intersect(tr)
	}
	return tr
}

// narrowings lists integer conversions in fn whose operand's static range does not fit the target.
func narrowings(fn *ssa.Function) []*ssa.Convert {
	var out []*ssa.Convert
	for _, b := range fn.Blocks {
		for _, in := range b.Instrs {
			c, ok := in.(*ssa.Convert)
			if !ok || !isIntegerType(c.Type()) || !isIntegerType(c.X.Type()) {
				continue
			}
			tr, _ := typeRangeOf(c.Type())
			if staticRange(c.X).SubsetOf(tr) {
				continue
			}
			out = append(out, c)
		}
	}
	return out
}

// narrowingFits decides, by interval partitioning of fn with q := the conversion's operand,
// whether every path reaching the conversion has q inside the target type's range. Guards in
// callers are not considered (the function itself must establish the range).
func narrowingFits(p *an.Prog, fn *ssa.Function, c *ssa.Convert) (fits bool, reach an.IvSet, err error) {
	tr, _ := typeRangeOf(c.Type())
	dom := staticRange(c.X)
	var seen an.IvSet
	sel := an.QSelector(func(ev *an.PEval, v ssa.Value, args []an.AV) bool { return v == c.X })
	if call, ok := c.X.(*ssa.Call); ok {
		if bi, ok := call.Call.Value.(*ssa.Builtin); ok && bi.Name() == "len" {
			sel = selLenOf(call.Call.Args[0])
		}
	}
	ev := &an.PEval{P: p, Domain: dom, MaxPaths: 20000, LoopOK: true,
		Select: sel,
		Inline: func(f *ssa.Function) bool { return false },
		Watch: func(in ssa.Instruction, q an.IvSet) {
			if in == ssa.Instruction(c) {
				seen = seen.Union(q)
			}
		}}
	// parameters: q may itself be a parameter
	_, err = ev.Run(fn, rootArgs(fn))
	if err != nil {
		return false, nil, err
	}
	return seen.SubsetOf(tr), seen, nil
}

func intTypeName(t types.Type) string { return types.TypeString(t, nil) }
