package rules

import (
	"fmt"
	"go/token"
	"go/types"
	"os"
	"sort"
	"strings"

	"golang.org/x/tools/go/ssa"

	"verif/checker/internal/an"
)

func init() { Registry["C04"] = C04 }

// boundsGoal is one inequality a construct needs in order not to panic.
type boundsGoal struct {
	what string
	goal an.Lin
}

type boundsSite struct {
	fn    *ssa.Function
	in    ssa.Instruction
	kind  string
	goals []boundsGoal
}

// c04ExternalPre: external callees that panic (instead of returning an error) when an argument
// is too short: callee FnKey -> (argument index, minimal length, exact).
var c04ExternalPre = map[string]struct {
	arg   int
	n     int64
	exact bool
}{
	"(encoding/binary.bigEndian).Uint16":       {1, 2, false},
	"(encoding/binary.bigEndian).Uint32":       {1, 4, false},
	"(encoding/binary.bigEndian).Uint64":       {1, 8, false},
	"(encoding/binary.bigEndian).PutUint16":    {1, 2, false},
	"(encoding/binary.bigEndian).PutUint32":    {1, 4, false},
	"(encoding/binary.bigEndian).PutUint64":    {1, 8, false},
	"(encoding/binary.littleEndian).Uint16":    {1, 2, false},
	"(encoding/binary.littleEndian).Uint32":    {1, 4, false},
	"(encoding/binary.littleEndian).Uint64":    {1, 8, false},
	"(encoding/binary.littleEndian).PutUint16": {1, 2, false},
	"(encoding/binary.littleEndian).PutUint32": {1, 4, false},
	"(encoding/binary.littleEndian).PutUint64": {1, 8, false},
	"crypto/ed25519.Sign":                      {0, 64, true},
	"crypto/ed25519.Verify":                    {0, 32, true},
	"crypto/ed25519.VerifyWithOptions":         {0, 32, true},
	"(crypto/ed25519.PrivateKey).Sign":         {0, 64, true},
}

// sortCallbackVar: fn is a closure used only as the `less` argument of sort.Slice/SliceStable; the
// result is the free variable that holds the slice being sorted (indices i, j passed by package
// sort are within its bounds by that package's contract).
func sortCallbackVar(fn *ssa.Function) (*ssa.FreeVar, bool) {
	if fn.Parent() == nil || len(fn.Params) != 2 {
		return nil, false
	}
	for _, blk := range fn.Parent().Blocks {
		for _, in := range blk.Instrs {
			mc, ok := in.(*ssa.MakeClosure)
			if !ok || mc.Fn != ssa.Value(fn) {
				continue
			}
			refs := *mc.Referrers()
			if len(refs) != 1 {
				return nil, false
			}
			call, ok := refs[0].(*ssa.Call)
			if !ok {
				return nil, false
			}
			callee := call.Call.StaticCallee()
			if callee == nil || (an.FnKey(callee) != "sort.Slice" && an.FnKey(callee) != "sort.SliceStable") || len(call.Call.Args) != 2 || call.Call.Args[1] != ssa.Value(mc) {
				return nil, false
			}
			mi, ok := call.Call.Args[0].(*ssa.MakeInterface)
			if !ok {
				return nil, false
			}
			ld, ok := mi.X.(*ssa.UnOp)
			if !ok {
				return nil, false
			}
			for k, bnd := range mc.Bindings {
				if bnd == ld.X {
					return fn.FreeVars[k], true
				}
			}
		}
	}
	return nil, false
}

func c04Sites(p *an.Prog, b *an.Bounds, inScope func(*ssa.Function) bool, skipped map[string]int) []boundsSite {
	var sites []boundsSite
	for _, fn := range p.RepoFns {
		if !an.InLib(fn) || len(fn.Blocks) == 0 {
			continue
		}
		if !inScope(fn) {
			skipped["functions out of scope"]++
			continue
		}
		if c04SiteFilter != nil && !c04SiteFilter(fn) {
			continue
		}
		sortVar, isSortCb := sortCallbackVar(fn)
		for _, blk := range fn.Blocks {
			for _, in := range blk.Instrs {
				switch x := in.(type) {
				case *ssa.Slice:
					var gs []boundsGoal
					var capLin an.Lin
					if mk, ok := x.X.(*ssa.MakeSlice); ok {
						capLin = b.LinOf(mk.Cap)
					} else {
						capLin = b.LenOf(x.X)
					}
					var lo, hi an.Lin
					if x.Low != nil {
						lo = b.LinOf(x.Low)
						gs = append(gs, boundsGoal{"low bound >= 0", lo})
					} else {
						lo = an.LinConst(0)
					}
					if x.High != nil {
						hi = b.LinOf(x.High)
						gs = append(gs, boundsGoal{"high bound <= len", capLin.Add(hi, -1)})
					} else {
						hi = b.LenOf(x.X)
					}
					if x.Low != nil {
						gs = append(gs, boundsGoal{"low bound <= high bound", hi.Add(lo, -1)})
					}
					if len(gs) > 0 {
						sites = append(sites, boundsSite{fn, in, "slice", gs})
					}
				case *ssa.IndexAddr:
					if isSortCb {
						if ld, ok := x.X.(*ssa.UnOp); ok && ld.X == ssa.Value(sortVar) {
							if prm, ok := x.Index.(*ssa.Parameter); ok && prm.Parent() == fn {
								skipped["sort-callback indices (package sort contract)"]++
								continue
							}
						}
					}
					idx, ln := b.LinOf(x.Index), b.LenOf(x.X)
					sites = append(sites, boundsSite{fn, in, "index", []boundsGoal{
						{"index >= 0", idx}, {"index < len", ln.Add(idx, -1).Add(an.LinConst(1), -1)}}})
				case *ssa.Index:
					idx, ln := b.LinOf(x.Index), b.LenOf(x.X)
					sites = append(sites, boundsSite{fn, in, "index", []boundsGoal{
						{"index >= 0", idx}, {"index < len", ln.Add(idx, -1).Add(an.LinConst(1), -1)}}})
				case *ssa.Lookup:
					if _, isMap := x.X.Type().Underlying().(*types.Map); isMap {
						continue
					}
					idx, ln := b.LinOf(x.Index), b.LenOf(x.X)
					sites = append(sites, boundsSite{fn, in, "index", []boundsGoal{
						{"index >= 0", idx}, {"index < len", ln.Add(idx, -1).Add(an.LinConst(1), -1)}}})
				case *ssa.MakeSlice:
					gs := []boundsGoal{{"make length >= 0", b.LinOf(x.Len)}}
					if x.Cap != x.Len {
						gs = append(gs, boundsGoal{"make capacity >= length", b.LinOf(x.Cap).Add(b.LinOf(x.Len), -1)})
					}
					sites = append(sites, boundsSite{fn, in, "make", gs})
				case *ssa.SliceToArrayPointer:
					if n, ok := arrayLenOf(x.Type()); ok {
						sites = append(sites, boundsSite{fn, in, "slice-to-array", []boundsGoal{{"len >= array length", b.LenOf(x.X).Add(an.LinConst(n), -1)}}})
					}
				case *ssa.BinOp:
					switch x.Op {
					case token.SHL, token.SHR:
						if bt, ok := x.Y.Type().Underlying().(*types.Basic); ok && bt.Info()&types.IsUnsigned == 0 {
							sites = append(sites, boundsSite{fn, in, "shift", []boundsGoal{{"shift count >= 0", b.LinOf(x.Y)}}})
						}
					case token.QUO, token.REM:
						if bt, ok := x.Y.Type().Underlying().(*types.Basic); ok && bt.Info()&types.IsInteger != 0 {
							sites = append(sites, boundsSite{fn, in, "divide", []boundsGoal{{"divisor >= 1", b.LinOf(x.Y).Add(an.LinConst(1), -1)}}})
						}
					}
				}
				if c, ok := in.(ssa.CallInstruction); ok {
					if callee := c.Common().StaticCallee(); callee != nil {
						if pre, ok := c04ExternalPre[an.FnKey(callee)]; ok && pre.arg < len(c.Common().Args) {
							ln := b.LenOf(c.Common().Args[pre.arg])
							gs := []boundsGoal{{fmt.Sprintf("len(arg) >= %d for %s", pre.n, callee.Name()), ln.Add(an.LinConst(pre.n), -1)}}
							if pre.exact {
								gs = append(gs, boundsGoal{fmt.Sprintf("len(arg) <= %d for %s", pre.n, callee.Name()), an.LinConst(pre.n).Add(ln, -1)})
							}
							sites = append(sites, boundsSite{fn, in, "external-precondition", gs})
						}
					}
				}
			}
		}
	}
	return sites
}

func arrayLenOf(t types.Type) (int64, bool) {
	if p, ok := t.Underlying().(*types.Pointer); ok {
		if a, ok := p.Elem().Underlying().(*types.Array); ok {
			return a.Len(), true
		}
	}
	return 0, false
}

// c04PureAccessors: library methods whose result is determined by their receiver (no state, no
// input besides the receiver): two calls on the same unmodified receiver denote the same quantity.
var c04PureAccessors = map[string]bool{
	"(data.Integer).Int": true,
}

// c04Reviewed: inequalities the relational prover cannot decide because they rest on data invariants
// of parser-built values. An allowance is keyed by package and by the *shape* of the inequality
// (atoms described by type/callee, see an.ShapeOf), not by function name or position, and holds a
// frozen count: the same construct moved or renamed is still recognised, one more of the same shape
// in the package is reported. These inequalities are NOT decided by the checker (DESIGN.md, C04).
var c04Reviewed = map[string]map[string]*struct {
	n      int
	reason string
}{
	"data": {
		"+1*len(data.I2PString) -1 >= 0": {1, "MappingValues.Get's debug-log slice pair[1][1:] needs every stored value string to hold its length byte: an invariant of parser-built MappingValues (ReadI2PString never yields an empty string on the paths that append a pair), not visible to a per-function relational analysis"},
	},
	"keys_and_cert": {
		"-1*len(invoke Bytes()) +384 >= 0": {2, "buildKeysAndCertBlock's block[0:len(pub.Bytes())] / block[384-len(sig.Bytes()):] rely on the external go-i2p/crypto key objects returning exactly the size the key certificate declares (checked at run time by Validate through Len(), a different method)"},
	},
}

// keyLikeParam: a parameter whose type comes from outside the library (key objects, signers,
// arbitrary interfaces): its well-formedness is the caller's obligation, not a property of the
// parsers, decoders and accessors C04 speaks about.
func keyLikeParam(t types.Type) bool {
	t = an.Deref(t)
	switch u := t.(type) {
	case *types.Named:
		if u.Obj().Pkg() == nil {
			return false // error
		}
		pk := u.Obj().Pkg().Path()
		if an.IsLibPath(pk) || pk == "time" || pk == "net" {
			return false
		}
		return true
	case *types.Interface:
		return true
	case *types.Signature:
		return true
	case *types.Slice:
		return keyLikeParam(u.Elem())
	}
	return false
}

// c04Roots: exported functions and methods whose inputs are byte strings, strings, integers and
// library values.
func c04Roots(p *an.Prog) (roots []*ssa.Function, excluded []string) {
	for _, fn := range p.ExportedAPI() {
		if len(fn.Blocks) == 0 || fn.Synthetic != "" {
			continue
		}
		bad := false
		for i, prm := range fn.Params {
			if i == 0 && fn.Signature.Recv() != nil {
				continue
			}
			if keyLikeParam(prm.Type()) {
				bad = true
			}
		}
		if bad {
			excluded = append(excluded, an.FnKey(fn))
			continue
		}
		roots = append(roots, fn)
	}
	return
}

// c04IntAxiom — trusted: (data.Integer).Int() decodes a big-endian unsigned integer, so for a
// receiver of at most 7 bytes its result lies in [0, 256^len-1] (C12 decides the decoding itself).
func c04IntAxiom(b *an.Bounds, c *ssa.Call, prove func(an.Lin) bool) []an.Fact {
	callee := c.Call.StaticCallee()
	if callee == nil || an.FnKey(callee) != "(data.Integer).Int" || len(c.Call.Args) != 1 {
		return nil
	}
	ln := b.LenOf(c.Call.Args[0])
	res := b.LinOf(c)
	why := "Integer.Int() of a receiver of at most 7 bytes is non-negative"
	if ln.IsConst() && ln.C >= 0 && ln.C <= 7 {
		max := int64(1)<<(8*uint(ln.C)) - 1
		return []an.Fact{{L: res, Why: why}, {L: an.LinConst(max).Add(res, -1), Why: why}}
	}
	if prove(an.LinConst(7).Add(ln, -1)) {
		return []an.Fact{{L: res, Why: why}}
	}
	return nil
}

// c04SiteFilter restricts the bounds obligations to some functions (used when another property
// re-uses the bounds proof for its own functions); nil = every function in scope.
var c04SiteFilter func(*ssa.Function) bool

// boundsFor runs the bounds part of C04 for the functions selected by filter and adds its
// obligations to r under the given rule name.
func boundsFor(p *an.Prog, r *an.Report, rule string, min int, filter func(*ssa.Function) bool) {
	sub := an.NewReport("C04", r.Tier, r.Seed)
	c04SiteFilter = filter
	func() {
		defer func() {
			c04SiteFilter = nil
			if e := recover(); e != nil {
				r.Fail("%s: bounds evaluation panicked: %v", rule, e)
			}
		}()
		C04(p, sub)
	}()
	n := 0
	for _, o := range sub.Obs {
		if !strings.HasPrefix(o.Rule, "C04.B1") {
			continue
		}
		n++
		c := *o
		c.Rule = rule
		c.Key = rule + strings.TrimPrefix(o.Key, o.Rule)
		r.Add(&c)
	}
	for _, f := range sub.Fatal {
		r.Fail("%s: %s", rule, f)
	}
	if n < min {
		r.Fail("%s: only %d functions with bounds constructs examined (expected at least %d)", rule, n, min)
	}
}

func C04(p *an.Prog, r *an.Report) {
	r.Explanation = "Every construct of the library that can raise a run-time panic from a length, count or type field — slice expressions, index expressions, make with a computed size, slice-to-array conversions, signed shift counts, integer division, and calls of external functions that panic on short arguments (encoding/binary (Put)UintN, crypto/ed25519 Sign/Verify) — inside the functions reachable from the exported entry points is turned into linear inequalities over SSA integer values and slice lengths (low >= 0, low <= high, high <= len, index < len, ...). Each inequality is proved by bounded Fourier-Motzkin elimination from facts that hold on every path to the construct: conditions of dominating branch edges, post-conditions of library callees (summaries computed bottom-up per function and per constant integer argument, conditional on err == nil or on a boolean result, with per-path case splits at joins), type ranges, lengths fixed by make/array types/slicing, ranges of never-written constant lookup tables, and length invariants of unexported struct fields established at every store. An inequality that cannot be proved locally but only mentions parameters becomes a pre-condition that every static call site has to establish (up to 5 levels); reaching an exported entry point with an unestablished pre-condition is a violation. Termination: every natural loop must have a counter moved by a constant on each back edge and bounded, in the direction of travel, by a loop-invariant quantity at every latch (or be a range over a map/string); the call graph of the reachable library functions must be acyclic; explicit panics, unchecked type assertions, channel operations and writes to possibly-nil maps are reported. Not decided here: nil dereferences (C20 decides zero values and parser result shapes), blocking inside external calls (the DNS lookup is confined by C17), panics inside external packages other than the tabled length pre-conditions, and the constructs listed as reviewed (data invariants of parser-built values)."
	r.Rule = "B1: per function, every bounds-relevant construct proved (local facts / callee post-conditions / caller pre-conditions); B1r: frozen allowance for reviewed, undecided constructs; T1: per loop, bounded counter; T2: acyclic call graph; F1: no unconditional panic/blocking constructs"
	r.Trusted = append(r.Trusted, "golang.org/x/tools/go/ssa and the VTA call graph", "table of external functions that panic on short arguments (c04ExternalPre)", "axiom: (data.Integer).Int() of a receiver of at most 7 bytes is within [0, 256^len-1] (the decoding itself is decided by C12)", "package sort passes in-range indices to the less callback")
	r.Assumptions = append(r.Assumptions, "index arithmetic does not overflow int64 (slice lengths are far below 2^62)", "external packages (go-i2p/crypto, go-i2p/logger, samber/oops, standard library) do not panic on the arguments the library passes, apart from the tabled length pre-conditions", "exported functions taking key objects, signers or arbitrary interfaces are outside the property (their callers own those values)")
	b := an.NewBounds(p)
	b.PureCalls = func(f *ssa.Function) bool { return c04PureAccessors[an.FnKey(f)] }
	b.Axioms = c04IntAxiom
	b.MaxReqHops = capFor(5, 8)
	if os.Getenv("C04DEBUG") != "" {
		b.Debug = func(m string) { fmt.Fprintln(os.Stderr, "DEBUG", m) }
	}
	roots, excluded := c04Roots(p)
	scope := p.Reachable(p.CG(), roots, func(f *ssa.Function) bool { return an.InLib(f) })
	isRoot := map[*ssa.Function]bool{}
	for _, f := range roots {
		isRoot[f] = true
	}
	inScope := func(f *ssa.Function) bool {
		if _, ok := scope[f]; ok {
			return true
		}
		// closures of in-scope functions
		for q := f.Parent(); q != nil; q = q.Parent() {
			if _, ok := scope[q]; ok {
				return true
			}
		}
		return false
	}
	b.IsEntry = func(f *ssa.Function) bool { return isRoot[f] }
	b.InScope = inScope
	skipped := map[string]int{}
	if spec := os.Getenv("C04SUMMARY"); spec != "" {
		for _, name := range strings.Split(spec, ",") {
			consts := map[int]int64{}
			if i := strings.Index(name, "@"); i >= 0 {
				var k int
				var v int64
				fmt.Sscanf(name[i+1:], "%d=%d", &k, &v)
				consts[k] = v
				name = name[:i]
			}
			if fn := p.Func(name); fn != nil {
				sum := b.SummaryFor(fn, consts)
				fmt.Fprintf(os.Stderr, "SUMMARY %s\n", an.FnKey(fn))
				for _, f := range sum.Facts {
					fmt.Fprintf(os.Stderr, "   [%s #%d] %s >= 0\n", f.Cond, f.Idx, f.L)
				}
			} else {
				fmt.Fprintf(os.Stderr, "SUMMARY %s: not found\n", name)
			}
		}
	}
	sites := c04Sites(p, b, inScope, skipped)
	r.Analysed["entry points (exported functions and methods without key-object parameters)"] = len(roots)
	r.Analysed["exported functions outside the property's scope (key/signer/interface parameters)"] = len(excluded)
	for k, v := range skipped {
		r.Analysed[k] = v
	}
	debug := os.Getenv("C04DEBUG") != ""
	type fnStat struct {
		total, proved int
		failures      []string
		reviewed      []string
		pos           string
	}
	used := map[*struct {
		n      int
		reason string
	}]int{}
	stats := map[string]*fnStat{}
	nGoals, nLocal, nCallers := 0, 0, 0
	for _, s := range sites {
		key := an.FnKey(s.fn)
		st := stats[key]
		if st == nil {
			st = &fnStat{pos: p.FnPos(s.fn)}
			stats[key] = st
		}
		st.total++
		ok := true
		for _, g := range s.goals {
			nGoals++
			pr := b.ProveAt(s.in, g.goal)
			if pr.OK {
				if pr.How == "local" {
					nLocal++
				} else {
					nCallers++
				}
				continue
			}
			shape := an.ShapeOf(g.goal)
			if rv := c04Reviewed[an.ShortPkg(an.FnPkgPath(s.fn))][shape]; rv != nil && used[rv] < rv.n {
				used[rv]++
				st.reviewed = append(st.reviewed, fmt.Sprintf("%s %s: %s — reviewed, not decided: %s", p.Pos(s.in.Pos()), s.kind, g.what, rv.reason))
				continue
			}
			ok = false
			st.failures = append(st.failures, fmt.Sprintf("%s %s: %s not established [%s] (shape %q)", p.Pos(s.in.Pos()), s.kind, g.what, strings.Join(pr.Trail, " <- "), shape))
			if debug {
				fmt.Fprintf(os.Stderr, "UNPROVED %s %s %s: %s  goal %s >= 0\n    %s\n", key, p.Pos(s.in.Pos()), s.kind, g.what, g.goal, strings.Join(pr.Trail, "\n    "))
			}
		}
		if ok {
			st.proved++
		}
	}
	var keys []string
	for k := range stats {
		keys = append(keys, k)
	}
	sort.Strings(keys)
	for _, k := range keys {
		st := stats[k]
		und := st.total - st.proved
		switch {
		case und == 0 && len(st.reviewed) == 0:
			r.Check(true, "C04.B1", k+"/bounds", st.pos, fmt.Sprintf("all %d index/slice/make/shift/external-length constructs are within bounds on every path (guards, callee post-conditions, caller pre-conditions)", st.total))
		case und == 0:
			o := r.Ob("C04.B1r", k+"/bounds", st.pos, an.Discharged, fmt.Sprintf("%d constructs examined; %d inequalities not decided by the prover (reviewed allowances by package and shape)", st.total, len(st.reviewed)), st.reviewed...)
			o.Nontrivial = false
		default:
			r.Check(false, "C04.B1", k+"/bounds", st.pos, fmt.Sprintf("%d of %d constructs cannot be shown to stay within bounds", und, st.total), append(st.failures, st.reviewed...)...)
		}
	}
	r.Analysed["bounds constructs"] = len(sites)
	r.Analysed["bounds goals"] = nGoals
	r.Analysed["goals proved locally"] = nLocal
	r.Analysed["goals proved through callers"] = nCallers
	if c04SiteFilter != nil {
		return // restricted run on behalf of another property: bounds obligations only
	}
	r.Floor("bounds constructs", len(sites), 1200)
	nl := c04Loops(p, r, b, inScope)
	r.Floor("loops", nl, 40)
	c04Recursion(p, r, scope)
	c04Forbidden(p, r, inScope)
}
