package rules

import (
	"fmt"
	"sort"
	"strings"

	"golang.org/x/tools/go/ssa"

	"verif/checker/internal/an"
)

// c01StoredWidthFields (R15): in the closure of every wire-structure serializer, the value handed
// to a fixed-width big-endian encoder (PutUintN / AppendUintN) is never taken — on any path — from
// a package-level lookup table. The parsers keep the *declared* value of such a field (a key
// length, a type code) even when it differs from the table's nominal value, so a serializer that
// substitutes the table value re-emits different bytes for exactly those accepted inputs.
func c01StoredWidthFields(p *an.Prog, r *an.Report, rule string) {
	seenFn := map[*ssa.Function]bool{}
	n := 0
	for _, wp := range wirePairs(p) {
		if wp.ser == nil {
			continue
		}
		clos := p.Reachable(p.CG(), []*ssa.Function{wp.ser}, func(f *ssa.Function) bool { return an.InLib(f) })
		var fns []*ssa.Function
		for f := range clos {
			if an.InLib(f) && !seenFn[f] {
				fns = append(fns, f)
			}
		}
		sort.Slice(fns, func(i, j int) bool { return an.FnKey(fns[i]) < an.FnKey(fns[j]) })
		for _, fn := range fns {
			seenFn[fn] = true
			k := 0
			for _, blk := range fn.Blocks {
				for _, in := range blk.Instrs {
					c, ok := in.(*ssa.Call)
					if !ok {
						continue
					}
					callee := c.Call.StaticCallee()
					if callee == nil || callee.Pkg == nil || callee.Pkg.Pkg.Path() != "encoding/binary" {
						continue
					}
					nm := callee.Name()
					if !(strings.HasPrefix(nm, "PutUint") || strings.HasPrefix(nm, "AppendUint")) || len(c.Call.Args) < 3 {
						continue
					}
					k++
					n++
					val := c.Call.Args[len(c.Call.Args)-1]
					tbl := tableSource(val, map[ssa.Value]bool{}, 0)
					r.Check(tbl == "", rule, fmt.Sprintf("%s/%s#%d", an.FnKey(fn), nm, k), p.Pos(c.Pos()),
						"the value encoded into a fixed-width wire field is the stored value on every path, never a package-level table entry", tbl)
				}
			}
		}
	}
	r.Floor("fixed-width encodes on serializer paths", n, 10)
}

// tableSource follows v through phis, conversions, arithmetic and comma-ok extracts inside the
// function and names the package-level variable a map/array lookup on the way reads.
func tableSource(v ssa.Value, seen map[ssa.Value]bool, depth int) string {
	if v == nil || seen[v] || depth > 20 {
		return ""
	}
	seen[v] = true
	switch x := v.(type) {
	case *ssa.Phi:
		for _, e := range x.Edges {
			if s := tableSource(e, seen, depth+1); s != "" {
				return s
			}
		}
	case *ssa.Convert:
		return tableSource(x.X, seen, depth+1)
	case *ssa.ChangeType:
		return tableSource(x.X, seen, depth+1)
	case *ssa.BinOp:
		if s := tableSource(x.X, seen, depth+1); s != "" {
			return s
		}
		return tableSource(x.Y, seen, depth+1)
	case *ssa.Extract:
		return tableSource(x.Tuple, seen, depth+1)
	case *ssa.Lookup:
		if g := globalOf(x.X); g != "" {
			return "value read from package-level table " + g
		}
	case *ssa.UnOp:
		if ia, ok := x.X.(*ssa.IndexAddr); ok {
			if g := globalOf(ia.X); g != "" {
				return "value read from package-level table " + g
			}
		}
	}
	return ""
}

func globalOf(v ssa.Value) string {
	for i := 0; i < 4; i++ {
		switch x := v.(type) {
		case *ssa.Global:
			return x.String()
		case *ssa.UnOp:
			v = x.X
			continue
		}
		break
	}
	return ""
}
