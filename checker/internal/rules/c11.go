package rules

import (
	"fmt"
	"go/token"
	"go/types"
	"sort"
	"strings"

	"golang.org/x/tools/go/ssa"

	"verif/checker/internal/an"
)

func init() { Registry["C11"] = C11 }

func isSortFn(f *ssa.Function) (isSort, stable bool) {
	if f == nil {
		return false, false
	}
	switch an.FnPkgPath(f) {
	case "sort":
		switch f.Name() {
		case "SliceStable", "Stable":
			return true, true
		case "Slice", "Sort", "Strings":
			return true, false
		}
	case "slices":
		switch f.Name() {
		case "SortStableFunc":
			return true, true
		case "SortFunc", "Sort":
			return true, false
		}
	}
	return false, false
}

// libClosure returns library functions reachable from roots via the VTA call graph.
func libClosure(p *an.Prog, roots ...*ssa.Function) map[*ssa.Function][]*ssa.Function {
	out := map[*ssa.Function][]*ssa.Function{}
	for f, path := range p.Reachable(p.CG(), roots, func(f *ssa.Function) bool { return an.InLib(f) }) {
		if an.InLib(f) {
			out[f] = path
		}
	}
	return out
}

func C11(p *an.Prog, r *an.Report) {
	r.Explanation = "Structural necessary conditions of the mapping codec's canonical form: (M1) every path through GoMapToMapping/ValuesToMapping sorts the pairs before the Mapping is built, with a comparator that orders by `<` on the decoded keys of elements i and j; (M2) Mapping.Data writes as size field the length of the very payload it appends next; (M3) ValuesToMapping rejects exactly computed sizes above 65,535 and encodes that same computed size, string constructors reject above 255 (C12); (M4/M6) nothing reachable from Data or from ReadMapping iterates a Go map or sorts, so serialisation follows stored order and parsing preserves wire order; (M5) the reader's 'enough bytes for another pair' threshold is not larger than the smallest pair the writer can emit, and a non-empty tail shorter than a pair is reported as an error rather than dropped. map→bytes→map identity as a value equality is not decided. M3 also requires the guarded size to accumulate len() of the encoded strings; M5 also refutes, per remaining length 4..8, that no content is ever accepted by the reader's pair predicate. M7: every key/value string the reader yields on success originates from data.ReadI2PString only."
	r.Rule = "one obligation per clause and site"
	r.Trusted = []string{"sort/slices package semantics", "go/ssa"}
	need := func(name string) *ssa.Function {
		fn := p.Func(name)
		if fn == nil {
			r.Fail("C11: anchor %s not found", name)
		}
		return fn
	}
	flow := an.NewFlow(p)

	// M1
	vtm := need("data.ValuesToMapping")
	if vtm != nil {
		chains := callChains(p, vtm, func(c ssa.CallInstruction) bool { s, _ := isSortFn(c.Common().StaticCallee()); return s }, nil, 3)
		if len(chains) == 0 {
			r.Ob("C11.M1", "ValuesToMapping/sorts", p.FnPos(vtm), an.Violated, "no sort is reachable from ValuesToMapping: the encoding would follow caller/map iteration order")
		}
		for _, ch := range chains {
			site := ch[len(ch)-1]
			var bad []string
			// the first call of the chain (in ValuesToMapping) dominates every success return
			first := ch[0]
			for _, ret := range flow.OkReturns(vtm) {
				if !first.Block().Dominates(ret.Block()) {
					bad = append(bad, "the sort does not dominate the success return at "+p.Pos(ret.Pos()))
				}
			}
			// inner links: each call dominates all returns of its function (unconditional)
			for i := 1; i < len(ch); i++ {
				for _, ret := range an.Returns(ch[i].Parent()) {
					if !ch[i].Block().Dominates(ret.Block()) {
						bad = append(bad, "sort is conditional inside "+an.FnKey(ch[i].Parent()))
					}
				}
			}
			// the sorted slice is the values parameter
			sl := &an.Slicer{P: p, Root: vtm, Through: an.AllArgs}
			okArg := false
			for _, l := range sl.LeavesInContext(ch[:len(ch)-1], site.Common().Args[0]) {
				if l.Kind == an.LParam && l.Param == 0 {
					okArg = true
				}
			}
			if !okArg {
				bad = append(bad, "the sorted slice is not the values being converted")
			}
			// comparator
			if len(site.Common().Args) >= 2 {
				if mc, ok := site.Common().Args[1].(*ssa.MakeClosure); ok {
					bad = append(bad, c11Comparator(p, mc.Fn.(*ssa.Function))...)
				} else if f, ok := site.Common().Args[1].(*ssa.Function); ok {
					bad = append(bad, c11Comparator(p, f)...)
				} else {
					bad = append(bad, "comparator is not a function literal")
				}
			}
			r.Check(len(bad) == 0, "C11.M1", "ValuesToMapping/sorts", p.Pos(site.Pos()), "pairs are sorted by key (string <) before the Mapping is built, on every success path", bad...)
		}
	}
	if gm := need("data.GoMapToMapping"); gm != nil && vtm != nil {
		var bad []string
		for _, ret := range flow.OkReturns(gm) {
			v := an.Canon(ret.Results[0])
			if an.IsNilConst(v) {
				continue
			}
			ok := false
			if e, isE := v.(*ssa.Extract); isE {
				if c, isC := e.Tuple.(*ssa.Call); isC && c.Call.StaticCallee() == vtm {
					ok = true
				}
			}
			if ph, isPhi := v.(*ssa.Phi); isPhi {
				ok = true
				for _, e := range ph.Edges {
					e = an.Canon(e)
					if an.IsNilConst(e) {
						continue
					}
					ex, isE := e.(*ssa.Extract)
					if !isE {
						ok = false
						continue
					}
					if c, isC := ex.Tuple.(*ssa.Call); !isC || c.Call.StaticCallee() != vtm {
						ok = false
					}
				}
			}
			if !ok {
				bad = append(bad, "mapping returned at "+p.Pos(ret.Pos())+" is not the result of ValuesToMapping")
			}
		}
		r.Check(len(bad) == 0, "C11.M1", "GoMapToMapping/via-ValuesToMapping", p.FnPos(gm), "the Go-map constructor hands out only what ValuesToMapping (which sorts) built", bad...)
	}

	// M2
	if fn := need("data.(*Mapping).Data"); fn != nil {
		c11SizeField(p, r, fn)
	}

	// M3
	if vtm != nil {
		c11SizeLimit(p, r, vtm, "C11.M3")
	}

	// M4 / M6
	for _, root := range []string{"data.(*Mapping).Data", "data.ReadMapping"} {
		fn := need(root)
		if fn == nil {
			continue
		}
		var bad []string
		clos := libClosure(p, fn)
		for f, path := range clos {
			for _, b := range f.Blocks {
				for _, in := range b.Instrs {
					if rg, ok := in.(*ssa.Range); ok {
						if _, isMap := rg.X.Type().Underlying().(*types.Map); isMap {
							bad = append(bad, "iterates a map at "+p.Pos(in.Pos())+" via "+an.PathString(path))
						}
					}
					if c, ok := in.(ssa.CallInstruction); ok {
						if s, _ := isSortFn(c.Common().StaticCallee()); s {
							bad = append(bad, "sorts at "+p.Pos(in.Pos())+" via "+an.PathString(path))
						}
					}
				}
			}
		}
		r.Check(len(bad) == 0, "C11.M4", root+"/order-preserving", p.FnPos(fn), fmt.Sprintf("no map iteration and no sort among the %d library functions reachable (stored / wire order is kept)", len(clos)), bad...)
	}
	// canary for the map-range detector: GoMapToMapping does range over a map
	if gm := p.Func("data.GoMapToMapping"); gm != nil {
		n := 0
		for _, b := range gm.Blocks {
			for _, in := range b.Instrs {
				if rg, ok := in.(*ssa.Range); ok {
					if _, isMap := rg.X.Type().Underlying().(*types.Map); isMap {
						n++
					}
				}
			}
		}
		if n == 0 {
			r.Fail("C11.M4 canary: the map-iteration detector does not see the range over the Go map in GoMapToMapping")
		}
	}

	// M5
	c11Threshold(p, r)
	// M7
	c11OneStringReader(p, r, "C11.M7")
}

// c11OneStringReader (M7; also C01.R12, C06.G6): every key and value string the mapping reader
// yields on a successful return comes out of the one length-prefixed string reader
// (data.ReadI2PString). A string manufactured by the parser, or cut from the input some other way,
// cannot be told apart when the mapping is written back, so Data() would differ from the bytes
// read — and a signature over them would not verify after a round trip.
func c11OneStringReader(p *an.Prog, r *an.Report, rule string) {
	root := p.Func("data.ReadMappingValues")
	reader := p.Func("data.ReadI2PString")
	if root == nil || reader == nil {
		r.Fail("%s: anchors data.ReadMappingValues / data.ReadI2PString not found", rule)
		return
	}
	isStr := func(t types.Type) bool {
		if arr, ok := t.Underlying().(*types.Array); ok {
			t = arr.Elem()
		}
		_, name := an.NamedOf(t)
		return name == "I2PString"
	}
	flow := an.NewFlow(p)
	var fns []*ssa.Function
	for f := range libClosure(p, root) {
		if strings.HasSuffix(an.FnPkgPath(f), "/data") && f != reader && len(f.Blocks) > 0 {
			fns = append(fns, f)
		}
	}
	sort.Slice(fns, func(i, j int) bool { return an.FnKey(fns[i]) < an.FnKey(fns[j]) })
	n := 0
	var bad []string
	for _, f := range fns {
		if _, inReader := libClosure(p, reader)[f]; inReader {
			continue // the reader's own helpers
		}
		res := f.Signature.Results()
		for k := 0; k < res.Len(); k++ {
			if !isStr(res.At(k).Type()) {
				continue
			}
			for _, ret := range flow.OkReturns(f) {
				if k >= len(ret.Results) {
					continue
				}
				n++
				sl := &an.Slicer{P: p, Root: f, Through: an.AllArgs, MaxDepth: 8,
					StopAt: func(c ssa.CallInstruction, callee *ssa.Function) bool { return callee == reader }}
				for _, l := range sl.Leaves(ret.Results[k]) {
					if l.LenOnly {
						continue
					}
					switch l.Kind {
					case an.LCall:
						if l.Name == an.FnKey(reader) {
							continue
						}
					case an.LFresh:
						continue // the container the strings are put in
					case an.LConst:
						if l.Name == "nil" {
							continue
						}
					}
					bad = append(bad, fmt.Sprintf("%s result %d at %s: origin %s", an.FnKey(f), k, p.Pos(ret.Pos()), l.String()))
				}
			}
		}
	}
	r.Analysed["mapping reader string results"] = n
	if n < 4 {
		r.Fail("%s: only %d string-yielding returns found in the mapping reader (expected >= 4)", rule, n)
	}
	sort.Strings(bad)
	if len(bad) > 8 {
		bad = append(bad[:8], fmt.Sprintf("... and %d more", len(bad)-8))
	}
	r.Check(len(bad) == 0, rule, "mapping-reader/one-string-reader", p.FnPos(root), "every key/value string the mapping reader yields on success comes from data.ReadI2PString", bad...)
}

// c11SizeLimit (M3; also the justification of C14's reviewed uint16(len(payload)) narrowing):
// ValuesToMapping rejects computed sizes above 65,535, encodes that same size, and accumulates it
// from len() of the encoded strings.
func c11SizeLimit(p *an.Prog, r *an.Report, vtm *ssa.Function, rule string) {
	flow := an.NewFlow(p)
	maxv, ok := p.ConstInt("data", "MAX_MAPPING_DATA_SIZE")
	r.Check(ok && maxv == 65535, rule, "data.MAX_MAPPING_DATA_SIZE", "-", "maximum mapping payload is 65,535 bytes", fmt.Sprint(maxv))
	var bad []string
	found := false
	for _, b := range vtm.Blocks {
		iff, ok := b.Instrs[len(b.Instrs)-1].(*ssa.If)
		if !ok {
			continue
		}
		bo, ok := iff.Cond.(*ssa.BinOp)
		if !ok || bo.Op != token.GTR {
			continue
		}
		c, ok := bo.Y.(*ssa.Const)
		if !ok || c.Value == nil || c.Int64() != 65535 {
			continue
		}
		found = true
		// true edge must reach only error returns
		for _, ret := range flow.OkReturns(vtm) {
			if an.ReachAvoiding(b.Succs[0], ret.Block(), nil, nil) && !an.EdgeDominates(b, b.Succs[1], ret.Block()) {
				bad = append(bad, "size > 65535 can still reach the success return at "+p.Pos(ret.Pos()))
			}
			if !b.Dominates(ret.Block()) {
				bad = append(bad, "the size guard does not dominate the success return")
			}
		}
		// the guarded value is the one encoded as the size field
		enc := findCalls(vtm, func(ci ssa.CallInstruction) bool {
			f := ci.Common().StaticCallee()
			return f != nil && f.Name() == "NewIntegerFromInt" && an.InLib(f)
		})
		okEnc := false
		for _, e := range enc {
			if e.Common().Args[0] == bo.X {
				if w, ok := e.Common().Args[1].(*ssa.Const); ok && w.Value != nil && w.Int64() == 2 {
					okEnc = true
				}
			}
		}
		if !okEnc {
			bad = append(bad, "the guarded size is not the value encoded as the 2-byte size field")
		}
	}
	if !found {
		bad = append(bad, "no `size > 65535` rejection found")
	}
	// the guarded size is accumulated from the encoded lengths: every loop-carried addition
	// adds len(<string>) (the bytes the serializer will emit), not a decoded/declared length
	nAcc := 0
	for _, blk := range vtm.Blocks {
		for _, in := range blk.Instrs {
			add, ok := in.(*ssa.BinOp)
			if !ok || add.Op != token.ADD {
				continue
			}
			var acc *ssa.Phi
			var term ssa.Value
			if ph, ok := add.X.(*ssa.Phi); ok {
				acc, term = ph, add.Y
			} else if ph, ok := add.Y.(*ssa.Phi); ok {
				acc, term = ph, add.X
			}
			if acc == nil {
				continue
			}
			feeds := false
			for _, e := range acc.Edges {
				if e == ssa.Value(add) {
					feeds = true
				}
				// nested loops: the inner accumulator feeds the outer phi
				if ph2, ok := e.(*ssa.Phi); ok {
					for _, e2 := range ph2.Edges {
						if e2 == ssa.Value(add) {
							feeds = true
						}
					}
				}
			}
			if !feeds || !isIntegerType(add.Type()) {
				continue
			}
			if c, isC := term.(*ssa.Const); isC && c.Value != nil {
				continue // loop counters
			}
			nAcc++
			call, isCall := term.(*ssa.Call)
			if !isCall || !isBuiltin(call, "len") {
				bad = append(bad, "the size accumulated at "+p.Pos(add.Pos())+" is not len() of the encoded string (a declared or decoded length under-/over-counts the bytes that will be written)")
			}
		}
	}
	if nAcc == 0 {
		bad = append(bad, "no loop-carried size accumulation found in ValuesToMapping")
	}
	r.Check(len(bad) == 0, rule, "ValuesToMapping/size-limit", p.FnPos(vtm), "sizes above 65,535 are rejected and the accepted size is what gets encoded", bad...)
}

// c11Comparator: less(i, j) = Data(values[i][0]) < Data(values[j][0]).
func c11Comparator(p *an.Prog, f *ssa.Function) []string {
	var bad []string
	rets := an.Returns(f)
	if len(rets) != 1 {
		return []string{"comparator has several returns"}
	}
	bo, ok := rets[0].Results[0].(*ssa.BinOp)
	if !ok || bo.Op != token.LSS {
		return []string{"comparator does not return a `<` comparison"}
	}
	if b, ok := bo.X.Type().Underlying().(*types.Basic); !ok || b.Info()&types.IsString == 0 {
		bad = append(bad, "comparator does not compare strings")
	}
	side := func(v ssa.Value, param int, name string) {
		// v = Extract#0(call Data(recv)); recv = *(&(&values[idx])[0])
		e, ok := v.(*ssa.Extract)
		if !ok || e.Index != 0 {
			bad = append(bad, name+" operand is not a decoded string")
			return
		}
		c, ok := e.Tuple.(*ssa.Call)
		if !ok || c.Call.StaticCallee() == nil || c.Call.StaticCallee().Name() != "Data" {
			bad = append(bad, name+" operand is not I2PString.Data()")
			return
		}
		recv := c.Call.Args[0]
		if u, ok := recv.(*ssa.UnOp); ok {
			recv = u.X
		}
		ia, ok := recv.(*ssa.IndexAddr)
		if !ok {
			bad = append(bad, name+" operand is not an element of a pair")
			return
		}
		if k, ok := ia.Index.(*ssa.Const); !ok || k.Value == nil || k.Int64() != 0 {
			bad = append(bad, name+" operand is not the key (element 0) of the pair")
		}
		outer, ok := ia.X.(*ssa.IndexAddr)
		if !ok || outer.Index != ssa.Value(f.Params[param]) {
			bad = append(bad, fmt.Sprintf("%s operand is not the pair at index parameter %d", name, param))
		}
	}
	side(bo.X, 0, "left")
	side(bo.Y, 1, "right")
	return bad
}

// bufferParts: the byte sources that make up buffer v, in wire order. Two idioms are understood:
// an append chain starting from an empty slice, and a buffer allocated at its final size and
// filled by copy() calls in one block whose destination offsets are exactly the running sum of the
// source lengths (so the parts are adjacent, in order, and fill the buffer).
func bufferParts(b *an.Bounds, v ssa.Value, depth int) ([]ssa.Value, string) {
	if depth > 8 {
		return nil, "buffer construction too deep"
	}
	switch x := v.(type) {
	case *ssa.Call:
		if callee := x.Call.StaticCallee(); callee != nil && an.FnPkgPath(callee) == "encoding/binary" && strings.HasPrefix(callee.Name(), "AppendUint") && len(x.Call.Args) == 3 {
			// binary.BigEndian.AppendUintN(buf, v): the encoded integer is the next part
			base, why := bufferParts(b, x.Call.Args[1], depth+1)
			if why != "" {
				return nil, why
			}
			return append(base, x.Call.Args[2]), ""
		}
		if !isBuiltin(x, "append") || len(x.Call.Args) != 2 {
			return nil, "result is not built by append or copy"
		}
		base, why := bufferParts(b, x.Call.Args[0], depth+1)
		if why != "" {
			return nil, why
		}
		return append(base, x.Call.Args[1]), ""
	case *ssa.MakeSlice:
		if c, ok := x.Len.(*ssa.Const); ok && c.Value != nil && c.Int64() == 0 {
			return nil, "" // empty base of an append chain
		}
		if depth > 0 {
			return nil, "bytes precede the size field (the append chain starts from a non-empty buffer)"
		}
		type wr struct {
			off  an.Lin
			src  ssa.Value
			at   int
			call *ssa.Call
		}
		var ws []wr
		var blk *ssa.BasicBlock
		add := func(c *ssa.Call, off an.Lin) string {
			if blk != nil && c.Block() != blk {
				return "the buffer is filled in several blocks"
			}
			blk = c.Block()
			ws = append(ws, wr{off, c.Call.Args[1], an.InstrIndex(c), c})
			return ""
		}
		for _, ref := range *x.Referrers() {
			switch rr := ref.(type) {
			case *ssa.Call:
				if isBuiltin(rr, "copy") && rr.Call.Args[0] == ssa.Value(x) {
					if why := add(rr, an.LinConst(0)); why != "" {
						return nil, why
					}
					continue
				}
				if isBuiltin(rr, "len") || isBuiltin(rr, "cap") {
					continue
				}
				return nil, "the buffer is passed to " + rr.Call.Value.Name()
			case *ssa.Slice:
				if rr.High != nil || rr.Max != nil {
					return nil, "the buffer is written through a bounded window"
				}
				for _, r2 := range *rr.Referrers() {
					c, ok := r2.(*ssa.Call)
					if !ok || !isBuiltin(c, "copy") || c.Call.Args[0] != ssa.Value(rr) {
						return nil, "a window of the buffer is used other than as a copy destination"
					}
					off := an.LinConst(0)
					if rr.Low != nil {
						off = b.LinOf(rr.Low)
					}
					if why := add(c, off); why != "" {
						return nil, why
					}
				}
			case *ssa.Return, *ssa.DebugRef:
			default:
				return nil, fmt.Sprintf("the buffer is used by %T", ref)
			}
		}
		if len(ws) == 0 {
			if c, ok := x.Len.(*ssa.Const); ok && c.Value != nil && c.Int64() == 0 {
				return nil, ""
			}
			return nil, "bytes precede the first part (the buffer is allocated non-empty and never filled)"
		}
		sort.Slice(ws, func(i, j int) bool { return ws[i].at < ws[j].at })
		sum := an.LinConst(0)
		var parts []ssa.Value
		for i, w := range ws {
			// a running offset advanced by the result of an earlier copy: that copy moved
			// len(src) bytes (that it is not cut short is the business of the no-truncation rule)
			for _, prev := range ws[:i] {
				w.off = w.off.Subst(b.LinOf(prev.call), b.LenOf(prev.src))
			}
			if !w.off.Equal(sum) {
				return nil, fmt.Sprintf("a part is copied to offset %s where %s bytes precede it", w.off, sum)
			}
			sum = sum.Add(b.LenOf(w.src), 1)
			parts = append(parts, w.src)
		}
		if !b.LinOf(x.Len).Equal(sum) {
			return nil, fmt.Sprintf("the buffer has %s bytes but the parts copied into it have %s", b.LinOf(x.Len), sum)
		}
		return parts, ""
	}
	return nil, "result is not built by append or copy"
}

// c11SizeField: the result consists of exactly the size bytes followed by the payload, with
// size = len(payload).
func c11SizeField(p *an.Prog, r *an.Report, fn *ssa.Function) {
	var bad []string
	n := 0
	b := an.NewBounds(p)
	for _, ret := range an.Returns(fn) {
		if an.IsNilConst(ret.Results[0]) {
			continue
		}
		n++
		parts, why := bufferParts(b, ret.Results[0], 0)
		if why != "" {
			bad = append(bad, why)
			continue
		}
		if len(parts) < 2 {
			bad = append(bad, "size bytes are not appended immediately before the payload")
			continue
		}
		if len(parts) > 2 {
			bad = append(bad, "bytes precede the size field")
			continue
		}
		payload := parts[1]
		lenOf := map[ssa.Value]bool{}
		collectLenOperands(parts[0], lenOf, 0)
		if !lenOf[payload] {
			bad = append(bad, "the size field is not computed from len() of the payload that follows it")
		}
		if len(lenOf) != 1 {
			bad = append(bad, fmt.Sprintf("size field depends on %d length operands", len(lenOf)))
		}
	}
	r.Check(n > 0 && len(bad) == 0, "C11.M2", "Mapping.Data/size-field", p.FnPos(fn), "the two-byte size field equals len(payload) of the payload appended right after it", bad...)
}

func isBuiltin(c *ssa.Call, name string) bool {
	b, ok := c.Call.Value.(*ssa.Builtin)
	return ok && b.Name() == name
}

// collectLenOperands walks v backwards (within the function and through library encoders that
// pass their argument through) and records the operands of len() calls it depends on.
func collectLenOperands(v ssa.Value, out map[ssa.Value]bool, depth int) {
	if depth > 10 || v == nil {
		return
	}
	switch x := v.(type) {
	case *ssa.Slice:
		collectLenOperands(x.X, out, depth+1)
	case *ssa.Alloc:
		for _, ref := range *x.Referrers() {
			if st, ok := ref.(*ssa.Store); ok && st.Addr == ssa.Value(x) {
				collectLenOperands(st.Val, out, depth+1)
			}
		}
	case *ssa.Convert:
		collectLenOperands(x.X, out, depth+1)
	case *ssa.UnOp:
		collectLenOperands(x.X, out, depth+1)
	case *ssa.Extract:
		collectLenOperands(x.Tuple, out, depth+1)
	case *ssa.Call:
		if isBuiltin(x, "len") {
			out[x.Call.Args[0]] = true
			return
		}
		for _, a := range x.Call.Args {
			collectLenOperands(a, out, depth+1)
		}
	}
}

// c11Threshold (M5 = C01.R6).
func c11Threshold(p *an.Prog, r *an.Report) {
	// reader: predicates func([]byte) bool of package data used by the pair loop
	loop := discoverPairLoop(p)
	if loop == nil {
		r.Fail("C11.M5: the pair-reading loop of the mapping reader was not found (no function in the closure of data.ReadMappingValues with a loop that reads I2PStrings)")
		return
	}
	minPair, facts := minimalPairSize(p)
	if minPair <= 0 {
		r.Ob("C11.M5", "writer/min-pair", "-", an.Undecided, "smallest writable pair could not be derived from serializeOnePair", facts...)
		return
	}
	n := 0
	var thresholds []int64
	for f := range libClosure(p, loop) {
		if len(f.Params) != 1 || f.Params[0].Type().String() != "[]byte" || f.Signature.Results().Len() != 1 {
			continue
		}
		if b, ok := f.Signature.Results().At(0).Type().Underlying().(*types.Basic); !ok || b.Kind() != types.Bool {
			continue
		}
		nonneg := an.IvRange(0, an.PosInf)
		ev := &an.PEval{P: p, Domain: nonneg, Select: selLenOf(f.Params[0]), LoopOK: true}
		outs, err := ev.Run(f, rootArgs(f))
		if err != nil {
			continue
		}
		mustFalse, _, _ := an.RegionWhere(nonneg, outs, func(o an.Outcome) bool { return !o.Panic && o.Results[0].K == an.KBool && !o.Results[0].B })
		if mustFalse.Empty() || !mustFalse.Contains(0) {
			continue
		}
		// threshold T: false exactly on [0,T-1]
		var T int64 = -1
		if len(mustFalse) == 1 && mustFalse[0].Lo == 0 {
			T = mustFalse[0].Hi + 1
		}
		if T < 2 {
			continue // emptiness tests are not pair thresholds
		}
		// helper predicates called by another threshold predicate are covered through it
		if calledByPredicate(p, f, loop) {
			continue
		}
		n++
		thresholds = append(thresholds, T)
		what := fmt.Sprintf("reader stops when fewer than %d bytes remain; the writer's smallest pair is %d bytes", T, minPair)
		fs := facts
		if T > minPair {
			fs = append(fs, fmt.Sprintf("a well-formed final pair of %d..%d bytes (e.g. a one-character key with an empty value) would be dropped without an error", minPair, T-1))
		}
		r.Check(T <= minPair, "C11.M5", "reader-threshold/"+an.FnKey(f), p.FnPos(f), what, fs...)
		// M5c: content-aware refinement. The length-only region above cannot see conditions on the
		// length bytes; the relational engine refutes "the predicate can accept an L-byte remainder"
		// for each short length L a well-formed pair can have (minPair .. minPair+4).
		bnd := an.NewBounds(p)
		var never []string
		for L := minPair; L <= minPair+4; L++ {
			lt := an.LinTerm(an.Term{K: an.TermKeyOf(f.Params[0]), Len: true})
			extra := []an.Fact{{L: lt.Add(an.LinConst(L), -1)}, {L: an.LinConst(L).Add(lt, -1)}}
			if !bnd.ResultFeasible(f, true, extra) {
				never = append(never, fmt.Sprint(L))
			}
		}
		r.Check(len(never) == 0, "C11.M5", "reader-accepts-short-pairs/"+an.FnKey(f), p.FnPos(f),
			fmt.Sprintf("for every remaining length from %d to %d some content makes the reader attempt the pair (a complete short final pair is not dropped)", minPair, minPair+4),
			func() []string {
				if len(never) == 0 {
					return nil
				}
				return []string{"no content of length " + strings.Join(never, ", ") + " bytes is ever accepted: a well-formed final pair of that size is silently dropped"}
			}()...)
	}
	r.Floor("pair_threshold_predicates", n, 1)
	// M5b: when the loop stops on the threshold with bytes left, an error is recorded
	var maxT int64 = 1
	for _, t := range thresholds {
		if t > maxT {
			maxT = t
		}
	}
	nonneg := an.IvRange(0, an.PosInf)
	found := false
	var seen []string
	for _, b := range loop.Blocks {
		for _, in := range b.Instrs {
			c, ok := in.(*ssa.Call)
			if !ok {
				continue
			}
			g := c.Call.StaticCallee()
			if g == nil || !an.InLib(g) || len(g.Blocks) == 0 || g.Signature.Results().Len() != 1 || g.Signature.Results().At(0).Type().String() != "[]error" {
				continue
			}
			bi, ei := -1, -1
			for i, prm := range g.Params {
				switch prm.Type().String() {
				case "[]byte":
					bi = i
				case "[]error":
					ei = i
				}
			}
			if bi < 0 || ei < 0 {
				continue
			}
			// as a function of len(remaining bytes), with an empty error list: may it append?
			ev := &an.PEval{P: p, Domain: nonneg, LoopOK: true, Select: func(ev *an.PEval, v ssa.Value, args []an.AV) bool {
				cc, ok := v.(*ssa.Call)
				if !ok || !isBuiltin(cc, "len") {
					return false
				}
				return len(args) == 1 && args[0].K == an.KObj && args[0].Path == fmt.Sprintf("p%d", bi)
			}}
			outs, err := ev.Run(g, rootArgs(g))
			if err != nil {
				continue
			}
			unchanged := func(o an.Outcome) bool {
				return !o.Panic && o.Results[0].K == an.KObj && o.Results[0].Path == fmt.Sprintf("p%d", ei)
			}
			mustUnchanged, _, _ := an.RegionWhere(nonneg, outs, unchanged)
			mayAppend := nonneg.Minus(mustUnchanged)
			seen = append(seen, fmt.Sprintf("%s may record an error for %s remaining bytes", an.FnKey(g), mayAppend))
			if an.IvRange(1, maxT-1).SubsetOf(mayAppend) && !mayAppend.Contains(0) {
				found = true
			}
		}
	}
	r.Check(found, "C11.M5", "short-tail-reported", p.FnPos(loop), fmt.Sprintf("when the pair loop stops with 1..%d bytes left inside the mapping an error is recorded (bytes are never dropped silently)", maxT-1), seen...)
}

// calledByPredicate: f is only a helper of another []byte->bool predicate in the loop's closure.
func calledByPredicate(p *an.Prog, f, loop *ssa.Function) bool {
	for g := range libClosure(p, loop) {
		if g == f || len(g.Params) != 1 || g.Params[0].Type().String() != "[]byte" {
			continue
		}
		if g.Signature.Results().Len() != 1 || g.Signature.Results().At(0).Type().String() != "bool" {
			continue
		}
		for _, b := range g.Blocks {
			for _, in := range b.Instrs {
				if c, ok := in.(ssa.CallInstruction); ok && c.Common().StaticCallee() == f {
					return true
				}
			}
		}
	}
	return false
}

// minimalPairSize derives 2*len-prefix + 2 delimiters from the pair writer.
func minimalPairSize(p *an.Prog) (int64, []string) {
	w := discoverPairWriter(p)
	if w == nil {
		return -1, []string{"the pair writer of the mapping serializer was not found (no function in the closure of (*Mapping).Data that appends two constant delimiter bytes)"}
	}
	var total int64
	var facts []string
	for _, b := range w.Blocks {
		for _, in := range b.Instrs {
			c, ok := in.(*ssa.Call)
			if !ok || !isBuiltin(c, "append") || len(c.Call.Args) != 2 {
				continue
			}
			arg := c.Call.Args[1]
			// constant single bytes: slice of a 1-element array literal
			if s, ok := arg.(*ssa.Slice); ok {
				if a, ok := s.X.(*ssa.Alloc); ok {
					if arr, ok := an.Deref(a.Type()).Underlying().(*types.Array); ok {
						total += arr.Len()
						facts = append(facts, fmt.Sprintf("%d constant byte(s) at %s", arr.Len(), p.Pos(c.Pos())))
						continue
					}
				}
			}
			// length prefixes: (*Integer).Bytes() of NewIntegerFromInt(_, const size)
			if call, ok := arg.(*ssa.Call); ok && call.Call.StaticCallee() != nil && call.Call.StaticCallee().Name() == "Bytes" {
				recv := call.Call.Args[0]
				if u, ok := recv.(*ssa.UnOp); ok {
					recv = u.X
				}
				if e, ok := recv.(*ssa.Extract); ok {
					if mk, ok := e.Tuple.(*ssa.Call); ok && mk.Call.StaticCallee() != nil && mk.Call.StaticCallee().Name() == "NewIntegerFromInt" {
						if k, ok := mk.Call.Args[1].(*ssa.Const); ok && k.Value != nil {
							total += k.Int64()
							facts = append(facts, fmt.Sprintf("%d-byte length prefix at %s", k.Int64(), p.Pos(c.Pos())))
							continue
						}
					}
				}
			}
			// variable-length parts contribute >= 0
		}
	}
	{
		// the smallest length the relational engine can show for the value returned on success
		// (covers buffers allocated up front and length prefixes built in helpers); both figures
		// are lower bounds of the true minimum, the larger one is used
		b := an.NewBounds(p)
		// the same domain fact the append-chain form relies on: NewIntegerFromInt(_, k) yields a
		// k-byte Integer
		b.Axioms = func(b *an.Bounds, c *ssa.Call, prove func(an.Lin) bool) []an.Fact {
			callee := c.Call.StaticCallee()
			if callee == nil || callee.Name() != "NewIntegerFromInt" || !strings.HasSuffix(an.FnPkgPath(callee), "/data") || len(c.Call.Args) != 2 {
				return nil
			}
			k, ok := c.Call.Args[1].(*ssa.Const)
			if !ok || k.Value == nil {
				return nil
			}
			ln := b.PointeeLenOfResult(c, 0)
			why := "NewIntegerFromInt(_, k) yields k bytes"
			return []an.Fact{{L: ln.Add(an.LinConst(k.Int64()), -1), Why: why}, {L: an.LinConst(k.Int64()).Add(ln, -1), Why: why}}
		}
		lo := int64(an.PosInf)
		for _, ret := range an.NewFlow(p).OkReturns(w) {
			if len(ret.Results) == 0 {
				continue
			}
			blk := ret.Block()
			l, _ := b.LowerBound(b.LenOf(ret.Results[0]), b.FactsAt(blk, len(blk.Instrs)-1))
			if l < lo {
				lo = l
			}
		}
		if lo != an.PosInf && lo > total {
			return lo, []string{fmt.Sprintf("writer minimum: len(result) >= %d on every successful return of %s (relational bound)", lo, w.Name())}
		}
	}
	return total, []string{"writer minimum: " + strings.Join(facts, "; ")}
}

// discoverPairLoop: the function that iterates over the key/value pairs of a mapping being read —
// by name if it is still called parseKeyValuePairs, otherwise the function of package data in the
// closure of ReadMappingValues that contains a loop from which ReadI2PString is reachable.
func discoverPairLoop(p *an.Prog) *ssa.Function {
	if f := p.Func("data.parseKeyValuePairs"); f != nil {
		return f
	}
	root := p.Func("data.ReadMappingValues")
	reader := p.Func("data.ReadI2PString")
	if root == nil || reader == nil {
		return nil
	}
	var cands []*ssa.Function
	for f := range libClosure(p, root) {
		if !strings.HasSuffix(an.FnPkgPath(f), "/data") || len(naturalLoops(f)) == 0 {
			continue
		}
		for _, li := range naturalLoops(f) {
			hit := false
			for blk := range li.body {
				for _, in := range blk.Instrs {
					if c, ok := in.(*ssa.Call); ok {
						if g := c.Call.StaticCallee(); g != nil && an.InLib(g) {
							if _, ok := libClosure(p, g)[reader]; ok || g == reader {
								hit = true
							}
						}
					}
				}
			}
			if hit {
				cands = append(cands, f)
				break
			}
		}
	}
	if len(cands) == 1 {
		return cands[0]
	}
	return nil
}

// discoverPairWriter: the function that writes one key/value pair — by name if it is still called
// serializeOnePair, otherwise the function in the closure of (*Mapping).Data that appends at least
// two single constant bytes (the '=' and ';' delimiters).
func discoverPairWriter(p *an.Prog) *ssa.Function {
	if f := p.Func("data.serializeOnePair"); f != nil {
		return f
	}
	root := p.Func("data.(*Mapping).Data")
	if root == nil {
		return nil
	}
	var cands []*ssa.Function
	for f := range libClosure(p, root) {
		n := 0
		for _, b := range f.Blocks {
			for _, in := range b.Instrs {
				c, ok := in.(*ssa.Call)
				if !ok || !isBuiltin(c, "append") || len(c.Call.Args) != 2 {
					continue
				}
				if sl, ok := c.Call.Args[1].(*ssa.Slice); ok {
					if a, ok := sl.X.(*ssa.Alloc); ok {
						if arr, ok := an.Deref(a.Type()).Underlying().(*types.Array); ok && arr.Len() == 1 {
							n++
						}
					}
				}
			}
		}
		if n >= 2 {
			cands = append(cands, f)
		}
	}
	if len(cands) == 1 {
		return cands[0]
	}
	return nil
}
