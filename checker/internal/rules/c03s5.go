package rules

import (
	"fmt"
	"go/constant"
	"go/token"
	"go/types"
	"sort"
	"strings"

	"golang.org/x/tools/go/ssa"

	"verif/checker/internal/an"
)

// C03.S5 — a declared extent is honoured on every success path.
//
// In a function of the parser closure that returns a remainder, let X be a data.Integer whose
// Int() is taken. If the remainder of some success return depends on X (X, or X.Int(), flows into
// the slice bound or into the sub-parser that produced the remainder), X is a declared extent of
// that parser. Every other success return that X's definition dominates and whose remainder is a
// non-nil value not depending on X skips no declared bytes, which is right only when the declared
// extent is zero: the return must be dominated by the `X.Int() == 0` arm of a branch.
func declaredExtentRule(p *an.Prog, r *an.Report, flow *an.Flow, fns []*ssa.Function) int {
	n := 0
	for _, fn := range fns {
		ri := remainderIndex(fn)
		if ri < 0 || len(fn.Blocks) == 0 {
			continue
		}
		// the Int() calls of fn grouped by the root of their receiver
		type lenCall struct {
			call *ssa.Call
			root ssa.Value
		}
		var calls []lenCall
		roots := map[ssa.Value]bool{}
		var order []ssa.Value
		for _, b := range fn.Blocks {
			for _, in := range b.Instrs {
				call, ok := in.(*ssa.Call)
				if !ok {
					continue
				}
				callee := call.Call.StaticCallee()
				if callee == nil || callee.Name() != "Int" || callee.Signature.Recv() == nil || len(call.Call.Args) == 0 {
					continue
				}
				if !isDataInteger(callee.Signature.Recv().Type()) {
					continue
				}
				root := intRoot(call.Call.Args[0])
				calls = append(calls, lenCall{call, root})
				if !roots[root] {
					roots[root] = true
					order = append(order, root)
				}
			}
		}
		if len(calls) == 0 {
			continue
		}
		oks := flow.OkReturns(fn)
		for _, X := range order {
			isX := func(v ssa.Value) bool {
				if v == X {
					return true
				}
				if c, ok := v.(*ssa.Call); ok {
					for _, lc := range calls {
						if lc.call == c && lc.root == X {
							return true
						}
					}
				}
				return false
			}
			var dep, indep []*ssa.Return
			for _, ret := range oks {
				if ri >= len(ret.Results) {
					continue
				}
				rv := ret.Results[ri]
				if c, ok := an.Canon(rv).(*ssa.Const); ok && c.Value == nil {
					continue
				}
				if dependsOn(rv, isX, map[ssa.Value]bool{}, 0) {
					dep = append(dep, ret)
					continue
				}
				if defDominates(X, ret.Block()) {
					indep = append(indep, ret)
				}
			}
			if len(dep) == 0 {
				continue
			}
			n++
			key := an.FnKey(fn) + "/extent#" + fmt.Sprint(indexOf(order, X))
			var bad []string
			for _, ret := range indep {
				if !zeroGuarded(ret.Block(), isX) {
					bad = append(bad, "success return at "+p.Pos(ret.Pos())+" hands back a remainder that skips no declared bytes although the declared length is not known to be zero there")
				}
			}
			sort.Strings(bad)
			if len(bad) > 0 {
				r.Ob("C03.S5", key, p.FnPos(fn), an.Violated, "a success path ignores the declared extent: its remainder does not depend on the declared length and the path is not the length==0 arm", bad...)
			} else {
				r.Ob("C03.S5", key, p.FnPos(fn), an.Discharged, fmt.Sprintf("%d success return(s) skip by the declared length; %d return(s) that do not are on the length==0 arm", len(dep), len(indep)))
			}
		}
	}
	return n
}

func indexOf(vs []ssa.Value, v ssa.Value) int {
	for i, w := range vs {
		if w == v {
			return i
		}
	}
	return -1
}

func isDataInteger(t types.Type) bool {
	if pt, ok := t.(*types.Pointer); ok {
		t = pt.Elem()
	}
	nt, ok := t.(*types.Named)
	if !ok || nt.Obj().Pkg() == nil {
		return false
	}
	return nt.Obj().Name() == "Integer" && strings.HasSuffix(nt.Obj().Pkg().Path(), "/data")
}

// intRoot strips loads and type changes from the receiver operand of an Int() call.
func intRoot(v ssa.Value) ssa.Value {
	for i := 0; i < 8; i++ {
		switch x := v.(type) {
		case *ssa.UnOp:
			if x.Op == token.MUL {
				v = x.X
				continue
			}
			return v
		case *ssa.ChangeType:
			v = x.X
			continue
		case *ssa.Convert:
			v = x.X
			continue
		}
		return v
	}
	return v
}

// dependsOn: some operand chain from v reaches a value accepted by isX.
func dependsOn(v ssa.Value, isX func(ssa.Value) bool, seen map[ssa.Value]bool, depth int) bool {
	if v == nil || seen[v] || depth > 40 {
		return false
	}
	seen[v] = true
	if isX(v) {
		return true
	}
	switch x := v.(type) {
	case *ssa.Const, *ssa.Parameter, *ssa.Global, *ssa.Function, *ssa.FreeVar:
		return false
	case *ssa.Alloc:
		for _, ref := range *x.Referrers() {
			if st, ok := ref.(*ssa.Store); ok && st.Addr == x {
				if dependsOn(st.Val, isX, seen, depth+1) {
					return true
				}
			}
		}
		return false
	}
	in, ok := v.(ssa.Instruction)
	if !ok {
		return false
	}
	for _, op := range in.Operands(nil) {
		if op != nil && *op != nil && dependsOn(*op, isX, seen, depth+1) {
			return true
		}
	}
	return false
}

func defDominates(X ssa.Value, b *ssa.BasicBlock) bool {
	in, ok := X.(ssa.Instruction)
	if !ok {
		return true // parameter, constant
	}
	db := in.Block()
	return db != nil && (db == b || db.Dominates(b))
}

// zeroGuarded: block b is dominated by the arm of a branch on which X.Int() == 0.
func zeroGuarded(b *ssa.BasicBlock, isX func(ssa.Value) bool) bool {
	for d := b; d != nil; d = d.Idom() {
		if len(d.Preds) != 1 {
			continue
		}
		pred := d.Preds[0]
		if len(pred.Instrs) == 0 {
			continue
		}
		ifi, ok := pred.Instrs[len(pred.Instrs)-1].(*ssa.If)
		if !ok {
			continue
		}
		bin, ok := ifi.Cond.(*ssa.BinOp)
		if !ok {
			continue
		}
		onTrue := pred.Succs[0] == d
		if pred.Succs[0] == pred.Succs[1] {
			continue
		}
		var c *ssa.Const
		var other ssa.Value
		op := bin.Op
		if k, ok := bin.Y.(*ssa.Const); ok {
			c, other = k, bin.X
		} else if k, ok := bin.X.(*ssa.Const); ok {
			c, other = k, bin.Y
			switch op { // mirror
			case token.LSS:
				op = token.GTR
			case token.GTR:
				op = token.LSS
			case token.LEQ:
				op = token.GEQ
			case token.GEQ:
				op = token.LEQ
			}
		}
		if c == nil || c.Value == nil || c.Value.Kind() != constant.Int || !isX(other) {
			continue
		}
		k, exact := constant.Int64Val(c.Value)
		if !exact {
			continue
		}
		if !onTrue { // negate
			switch op {
			case token.EQL:
				op = token.NEQ
			case token.NEQ:
				op = token.EQL
			case token.LSS:
				op = token.GEQ
			case token.GEQ:
				op = token.LSS
			case token.GTR:
				op = token.LEQ
			case token.LEQ:
				op = token.GTR
			}
		}
		// Int() of a wire integer is >= 0 (C12): L == 0, L <= 0, L < 1 each imply L == 0
		if (op == token.EQL && k == 0) || (op == token.LEQ && k == 0) || (op == token.LSS && k == 1) {
			return true
		}
	}
	return false
}
