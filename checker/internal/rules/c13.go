package rules

import (
	b32 "encoding/base32"
	b64 "encoding/base64"
	"fmt"
	"go/constant"
	"go/token"
	"go/types"
	"strings"

	"golang.org/x/tools/go/ssa"

	"verif/checker/internal/an"
)

func init() { Registry["C13"] = C13 }

const (
	i2pBase32Alphabet = "abcdefghijklmnopqrstuvwxyz234567"
	i2pBase64Alphabet = "ABCDEFGHIJKLMNOPQRSTUVWXYZabcdefghijklmnopqrstuvwxyz0123456789-~"
)

type encDesc struct {
	std      string // "encoding/base32" or "encoding/base64"
	alphabet string
	padded   bool
	ok       bool
	why      string
}

// describeEncoding reads how a package-level *Encoding is initialised in the package initialiser.
func describeEncoding(p *an.Prog, g *ssa.Global) encDesc {
	initFn := g.Pkg.Func("init")
	if initFn == nil {
		return encDesc{why: "no package initialiser"}
	}
	var val ssa.Value
	n := 0
	for _, b := range initFn.Blocks {
		for _, in := range b.Instrs {
			if st, ok := in.(*ssa.Store); ok && st.Addr == ssa.Value(g) {
				n++
				val = st.Val
			}
		}
	}
	if n != 1 {
		return encDesc{why: fmt.Sprintf("%d initialising stores", n)}
	}
	d := encDesc{padded: true}
	for i := 0; i < 4; i++ {
		if u, ok := val.(*ssa.UnOp); ok && u.Op == token.MUL {
			val = u.X // value-receiver method on the dereferenced *Encoding
		}
		call, ok := val.(*ssa.Call)
		if !ok {
			return encDesc{why: "initialiser is not a call chain"}
		}
		callee := call.Call.StaticCallee()
		if callee == nil {
			return encDesc{why: "dynamic call in initialiser"}
		}
		pkg := an.FnPkgPath(callee)
		if pkg != "encoding/base32" && pkg != "encoding/base64" {
			return encDesc{why: "initialiser calls " + an.FnKey(callee)}
		}
		d.std = pkg
		switch callee.Name() {
		case "NewEncoding":
			c, ok := call.Call.Args[0].(*ssa.Const)
			if !ok || c.Value == nil || c.Value.Kind() != constant.String {
				return encDesc{why: "alphabet is not a constant"}
			}
			d.alphabet = constant.StringVal(c.Value)
			d.ok = true
			return d
		case "WithPadding":
			c, ok := call.Call.Args[1].(*ssa.Const)
			if !ok || c.Value == nil {
				return encDesc{why: "padding is not a constant"}
			}
			r, _ := constant.Int64Val(c.Value)
			switch r {
			case -1:
				d.padded = false
			case '=':
				d.padded = true
			default:
				return encDesc{why: fmt.Sprintf("non-standard padding rune %d", r)}
			}
			val = call.Call.Args[0]
		default:
			return encDesc{why: "initialiser calls " + callee.Name()}
		}
	}
	return encDesc{why: "initialiser too deep"}
}

// C13 decides D1–D4.
func C13(p *an.Prog, r *an.Report) {
	r.Explanation = "The base32/base64 packages are checked to be pure delegations to Go's encoding/base32 and encoding/base64 configured with exactly the I2P alphabets: the encoding globals' initialisers are read from the package initialiser's SSA (NewEncoding(constant alphabet)[.WithPadding(NoPadding)]), no instruction anywhere in the program stores to them afterwards, every exported codec function consists of length guards plus exactly one call of the matching Encoding method on the matching global with its argument passed through unchanged and its results returned unchanged, and the Safe variants' reject region on len(input) — extracted by interval partitioning — is exactly {0} ∪ (MAX,∞) with MAX the package's exported limit and MAX_DECODE_SIZE = EncodedLen(MAX_ENCODE_SIZE). Round-trip, alphabet-only output, CR/LF skipping and rejection of foreign characters/padding are then properties of the Go standard library encodings (trusted), not of this repository."
	r.Rule = "obligations: alphabets (2), encoding globals (init + never reassigned), one delegation obligation and one guard-region obligation per exported codec function, limit relation per package"
	r.Trusted = []string{"encoding/base32 and encoding/base64 of the Go standard library implement RFC 4648 with a custom alphabet (round trip, strict alphabet, CR/LF skipping, padding validation)", "go/ssa"}
	nfuncs := 0
	for _, short := range []string{"base32", "base64"} {
		sp := p.Pkg(short)
		if sp == nil {
			r.Fail("package %s not found", short)
			continue
		}
		std := "encoding/" + short
		want := i2pBase32Alphabet
		if short == "base64" {
			want = i2pBase64Alphabet
		}
		// D2: encoding globals
		encs := map[*ssa.Global]encDesc{}
		for _, m := range sp.Members {
			g, ok := m.(*ssa.Global)
			if !ok {
				continue
			}
			if pk, name := an.NamedOf(g.Type().(*types.Pointer).Elem()); !(name == "Encoding" && pk == std) {
				continue
			}
			d := describeEncoding(p, g)
			encs[g] = d
			key := short + "." + g.Name()
			r.Check(d.ok && d.std == std && d.alphabet == want, "C13.D1", key+"/alphabet", p.Pos(g.Pos()),
				"encoding global is "+std+".NewEncoding over the I2P alphabet", fmt.Sprintf("alphabet %q padded=%v %s", d.alphabet, d.padded, d.why))
			wantPadded := !strings.Contains(g.Name(), "NoPadding")
			r.Check(d.ok && d.padded == wantPadded, "C13.D2", key+"/padding", p.Pos(g.Pos()),
				"padding configuration matches the global's exported name", fmt.Sprintf("padded=%v", d.padded))
			w := p.GlobalWrites(g)
			var facts []string
			for _, in := range w {
				facts = append(facts, "written at "+p.Pos(in.Pos())+" in "+an.FnKey(in.Parent()))
			}
			r.Check(len(w) == 0, "C13.D2", key+"/never-reassigned", p.Pos(g.Pos()), "no store to the encoding global outside the package initialiser anywhere in the program", facts...)
		}
		if len(encs) == 0 {
			r.Fail("%s: no package-level *%s.Encoding found", short, std)
		}
		// limits
		maxEnc, ok1 := p.ConstInt(short, "MAX_ENCODE_SIZE")
		maxDec, ok2 := p.ConstInt(short, "MAX_DECODE_SIZE")
		if !ok1 || !ok2 {
			r.Fail("%s: exported limits MAX_ENCODE_SIZE/MAX_DECODE_SIZE not found", short)
		} else {
			var el int
			if short == "base32" {
				el = b32.StdEncoding.EncodedLen(int(maxEnc))
			} else {
				el = b64.StdEncoding.EncodedLen(int(maxEnc))
			}
			r.Check(int64(el) == maxDec && maxEnc > 0, "C13.D4", short+"/limits", "-",
				"MAX_DECODE_SIZE equals the encoded length of MAX_ENCODE_SIZE bytes", fmt.Sprintf("MAX_ENCODE_SIZE=%d MAX_DECODE_SIZE=%d EncodedLen=%d", maxEnc, maxDec, el))
		}
		// D3: exported codec functions
		for name, m := range sp.Members {
			fn, ok := m.(*ssa.Function)
			if !ok || !token.IsExported(name) || len(fn.Params) != 1 {
				continue
			}
			dir := ""
			pt := fn.Params[0].Type().String()
			res := fn.Signature.Results()
			if res.Len() == 0 {
				continue
			}
			rt := res.At(0).Type().String()
			switch {
			case pt == "[]byte" && rt == "string":
				dir = "EncodeToString"
			case pt == "string" && rt == "[]byte":
				dir = "DecodeString"
			default:
				continue
			}
			nfuncs++
			c13Func(p, r, short, fn, dir, encs, maxEnc, maxDec)
		}
	}
	r.Floor("exported_codec_functions", nfuncs, 8)
}

func c13Func(p *an.Prog, r *an.Report, short string, fn *ssa.Function, dir string, encs map[*ssa.Global]encDesc, maxEnc, maxDec int64) {
	key := short + "." + fn.Name()
	pos := p.FnPos(fn)
	flow := an.NewFlow(p)
	var codec *ssa.Call
	var bad []string
	// an exported function that only hands its argument (and possibly the encoding) to one
	// unexported helper of the same package and returns that helper's results: the helper is
	// checked in its place, with the wrapper's argument and encoding substituted
	outer := fn
	dataPrm := fn.Params[0]
	recvArg := map[*ssa.Parameter]ssa.Value{}
	if h, call, j := c13SoleHelper(fn); h != nil {
		okRet := true
		for _, ret := range an.Returns(fn) {
			for i, v := range ret.Results {
				if !(v == ssa.Value(call) || isExtractOf(v, call, i)) {
					okRet = false
				}
			}
		}
		if okRet {
			for ai, a := range call.Call.Args {
				if ai < len(h.Params) {
					recvArg[h.Params[ai]] = a
				}
			}
			fn, dataPrm = h, h.Params[j]
		}
	}
	for _, b := range fn.Blocks {
		for _, in := range b.Instrs {
			if an.IsLogPlumbing(in) {
				continue
			}
			switch x := in.(type) {
			case *ssa.Call:
				if bi, ok := x.Call.Value.(*ssa.Builtin); ok && bi.Name() == "len" {
					continue
				}
				if isGuardHelper(fn, x) {
					continue // a length check factored into a same-package helper: part of the guards
				}
				if codec != nil {
					bad = append(bad, "second call at "+p.Pos(x.Pos()))
				}
				codec = x
			case *ssa.If, *ssa.Jump, *ssa.Return, *ssa.BinOp, *ssa.Extract, *ssa.Phi, *ssa.DebugRef:
			case *ssa.UnOp:
				if x.Op != token.MUL {
					bad = append(bad, "operation "+x.String())
				}
			default:
				bad = append(bad, fmt.Sprintf("unexpected instruction %s at %s", in, p.Pos(in.Pos())))
			}
		}
	}
	var g *ssa.Global
	if codec == nil {
		bad = append(bad, "no call of an Encoding method")
	} else {
		callee := codec.Call.StaticCallee()
		if callee == nil || an.FnPkgPath(callee) != "encoding/"+short || callee.Name() != dir || callee.Signature.Recv() == nil {
			bad = append(bad, "delegates to "+fmt.Sprint(codec.Call.Value)+" instead of (*Encoding)."+dir)
		} else {
			recv := codec.Call.Args[0]
			if prm, ok := recv.(*ssa.Parameter); ok {
				if a, ok := recvArg[prm]; ok {
					recv = a // the encoding handed in by the exported wrapper
				}
			}
			if u, ok := recv.(*ssa.UnOp); ok && u.Op == token.MUL {
				g, _ = u.X.(*ssa.Global)
			}
			if g == nil {
				bad = append(bad, "receiver is not a package-level encoding")
			}
			if len(codec.Call.Args) != 2 || codec.Call.Args[1] != ssa.Value(dataPrm) {
				bad = append(bad, "argument is not the parameter passed through unchanged")
			}
		}
		// returns
		for _, ret := range an.Returns(fn) {
			if flow.RetClass(ret) == an.DefNonNil {
				for i, v := range ret.Results {
					if i == an.ErrIndex(fn) {
						continue
					}
					if c, ok := v.(*ssa.Const); !ok || !(c.Value == nil || (c.Value.Kind() == constant.String && constant.StringVal(c.Value) == "")) {
						bad = append(bad, "reject return at "+p.Pos(ret.Pos())+" carries a non-zero value")
					}
				}
				continue
			}
			for i, v := range ret.Results {
				switch {
				case v == ssa.Value(codec):
				case isExtractOf(v, codec, i):
				case an.IsNilConst(v) && i == an.ErrIndex(fn):
				default:
					bad = append(bad, fmt.Sprintf("result %d at %s is not the delegate's result", i, p.Pos(ret.Pos())))
				}
			}
		}
	}
	if g != nil {
		d, known := encs[g]
		if !known || !d.ok {
			bad = append(bad, "uses encoding global "+g.Name()+" which is not a verified I2P encoding")
		} else if wantPadded := !strings.Contains(outer.Name(), "NoPadding"); d.padded != wantPadded {
			bad = append(bad, fmt.Sprintf("uses %s (padded=%v) but the function name promises padded=%v", g.Name(), d.padded, wantPadded))
		}
	}
	r.Check(len(bad) == 0, "C13.D3", key+"/delegation", pos, "exported codec function is guards + one pass-through call of (*Encoding)."+dir+" on an I2P encoding global", bad...)

	// guard region on len(param)
	fn = outer
	prm := fn.Params[0]
	dom := an.IvRange(0, an.PosInf)
	// the parameter handed unchanged to a helper of the same package is the same value inside it
	same := map[ssa.Value]bool{prm: true}
	for round := 0; round < 3; round++ {
		for v := range same {
			q, ok := v.(*ssa.Parameter)
			if !ok {
				continue
			}
			for _, b := range q.Parent().Blocks {
				for _, in := range b.Instrs {
					c, ok := in.(*ssa.Call)
					if !ok {
						continue
					}
					callee := c.Call.StaticCallee()
					if callee == nil || !an.InLib(callee) || an.FnPkgPath(callee) != an.FnPkgPath(outer) || len(callee.Blocks) == 0 {
						continue
					}
					for ai, a := range c.Call.Args {
						if a == v && ai < len(callee.Params) {
							same[callee.Params[ai]] = true
						}
					}
				}
			}
		}
	}
	ev := &an.PEval{P: p, Domain: dom, Select: func(ev *an.PEval, v ssa.Value, args []an.AV) bool {
		c, ok := v.(*ssa.Call)
		if !ok {
			return false
		}
		bi, ok := c.Call.Value.(*ssa.Builtin)
		return ok && bi.Name() == "len" && same[c.Call.Args[0]]
	}, Inline: func(f *ssa.Function) bool { return an.InLib(f) && an.FnPkgPath(f) == an.FnPkgPath(fn) && len(f.Blocks) > 0 },
		OnCall: func(ev *an.PEval, call *ssa.Call, callee *ssa.Function, args []an.AV) (an.AV, bool) {
			return an.AV{}, false
		}}
	outs, err := ev.Run(fn, rootArgs(fn))
	if err != nil {
		r.Ob("C13.D3", key+"/guards", pos, an.Undecided, "guard region could not be extracted: "+err.Error())
		return
	}
	ei := an.ErrIndex(fn)
	// a path rejects when its error result is a sentinel (definitely non-nil) — evaluate through Flow
	rejects := func(o an.Outcome) bool { return ei >= 0 && o.ErrIs(ei) == 2 }
	must, may, _ := an.RegionWhere(dom, outs, rejects)
	want := an.IvSet(nil)
	if strings.Contains(fn.Name(), "Safe") {
		lim := maxEnc
		if dir == "DecodeString" {
			lim = maxDec
		}
		want = an.IvPoint(0).Union(an.IvSet{{Lo: lim + 1, Hi: an.PosInf}})
	}
	// non-safe decode functions may return the delegate's error for any length: only guard
	// rejections (definitely non-nil sentinel) count, so `must` is what matters; `may` must not
	// exceed it by guard paths. Sentinel loads are classified below.
	r.Check(must.Equal(want), "C13.D3", key+"/guards", pos, "length guards reject exactly "+want.String(),
		"must-reject "+must.String(), "may-reject "+may.String())
}

// c13SoleHelper: fn's only call (besides len, logging and guard helpers) goes to an unexported
// function of the same package and passes fn's parameter unchanged as argument j.
func c13SoleHelper(fn *ssa.Function) (*ssa.Function, *ssa.Call, int) {
	var only *ssa.Call
	for _, b := range fn.Blocks {
		for _, in := range b.Instrs {
			c, ok := in.(*ssa.Call)
			if !ok || an.IsLogPlumbing(in) {
				continue
			}
			if bi, ok := c.Call.Value.(*ssa.Builtin); ok && bi.Name() == "len" {
				continue
			}
			if isGuardHelper(fn, c) {
				continue
			}
			if only != nil {
				return nil, nil, 0
			}
			only = c
		}
	}
	if only == nil {
		return nil, nil, 0
	}
	h := only.Call.StaticCallee()
	if h == nil || !an.InLib(h) || an.FnPkgPath(h) != an.FnPkgPath(fn) || len(h.Blocks) == 0 || h.Signature.Recv() != nil || (h.Object() != nil && h.Object().Exported()) {
		return nil, nil, 0
	}
	for j, a := range only.Call.Args {
		if a == ssa.Value(fn.Params[0]) && j < len(h.Params) {
			return h, only, j
		}
	}
	return nil, nil, 0
}

func isExtractOf(v ssa.Value, call *ssa.Call, idx int) bool {
	e, ok := v.(*ssa.Extract)
	return ok && e.Tuple == ssa.Value(call) && e.Index == idx
}


// isGuardHelper: a call to a function of the same package that only inspects integers (lengths)
// and reports an error or a bool: arguments are integer-typed, results are error/bool only, and
// the helper's own body calls nothing but logging, error constructors and other guard helpers.
func isGuardHelper(fn *ssa.Function, c *ssa.Call) bool {
	return guardHelperFn(fn, c.Call.StaticCallee(), 0)
}

// lenOnlyParam: a []byte/string parameter whose only use is as the operand of len().
func lenOnlyParam(prm *ssa.Parameter) bool {
	switch t := prm.Type().Underlying().(type) {
	case *types.Basic:
		if t.Info()&types.IsString == 0 {
			return false
		}
	case *types.Slice:
		if b, ok := t.Elem().Underlying().(*types.Basic); !ok || b.Kind() != types.Uint8 {
			return false
		}
	default:
		return false
	}
	if prm.Referrers() == nil {
		return true
	}
	for _, ref := range *prm.Referrers() {
		switch x := ref.(type) {
		case *ssa.DebugRef:
		case *ssa.Call:
			if bi, ok := x.Call.Value.(*ssa.Builtin); !ok || bi.Name() != "len" {
				return false
			}
		default:
			return false
		}
	}
	return true
}

func guardHelperFn(root, g *ssa.Function, depth int) bool {
	if g == nil || depth > 2 || !an.InLib(g) || an.FnPkgPath(g) != an.FnPkgPath(root) || len(g.Blocks) == 0 || g.Signature.Recv() != nil {
		return false
	}
	for _, prm := range g.Params {
		if !isIntegerType(prm.Type()) && !isErrorType(prm.Type()) && !lenOnlyParam(prm) {
			return false
		}
	}
	res := g.Signature.Results()
	if res.Len() == 0 {
		return false
	}
	for i := 0; i < res.Len(); i++ {
		t := res.At(i).Type()
		if isErrorType(t) {
			continue
		}
		if b, ok := t.Underlying().(*types.Basic); ok && b.Kind() == types.Bool {
			continue
		}
		return false
	}
	for _, blk := range g.Blocks {
		for _, in := range blk.Instrs {
			call, ok := in.(*ssa.Call)
			if !ok || an.IsLogPlumbing(in) {
				continue
			}
			if _, isB := call.Call.Value.(*ssa.Builtin); isB {
				continue
			}
			callee := call.Call.StaticCallee()
			if callee != nil && (an.ErrorCtor(callee) || guardHelperFn(root, callee, depth+1)) {
				continue
			}
			return false
		}
	}
	return true
}
