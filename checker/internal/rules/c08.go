package rules

import (
	"fmt"
	"go/ast"
	"go/types"
	"sort"
	"strings"

	"golang.org/x/tools/go/ssa"

	"verif/checker/internal/an"
)

func init() { Registry["C08"] = C08 }

// structures whose parsed values must not share memory with the input (property text), with the
// sub-paths the property exempts.
var c08Types = map[string][]string{
	"certificate.Certificate":             nil,
	"key_certificate.KeyCertificate":      nil,
	"keys_and_cert.KeysAndCert":           nil,
	"destination.Destination":             nil,
	"router_identity.RouterIdentity":      nil,
	"signature.Signature":                 nil,
	"offline_signature.OfflineSignature":  nil,
	"lease.Lease":                         nil,
	"lease.Lease2":                        nil,
	"lease_set.LeaseSet":                  nil,
	"encrypted_leaseset.EncryptedLeaseSet": nil,
	"lease_set2.LeaseSet2":                {".options"},
	"meta_leaseset.MetaLeaseSet":          {".options", ".entries[].properties", ".entries[]*"},
}

func c08TypeKey(t types.Type) string {
	pkg, name := an.NamedOf(t)
	if !an.IsLibPath(pkg) {
		return ""
	}
	return an.ShortPkg(pkg) + "." + name
}

func C08(p *an.Prog, r *an.Report) {
	r.Explanation = "A context-sensitive, field-sensitive may-alias analysis over SSA (one colour: 'references the input buffer') is run from every exported parser of the structures the property names. The input parameter is seeded; slicing, slice/pointer conversions, interface boxing, stores into fields/elements, loads, phi, append bases, calls (library and third-party bodies analysed per calling context, standard-library packages by a summary table) propagate the colour; conversions to string, copy(), array copies, hashing and encoding do not. On success returns the value result must carry no colour on any access path except the options/properties mappings the property exempts. Accessors documented as returning copies are analysed the same way with the receiver's memory seeded. This decides absence of aliasing for all inputs and key types, which example tests cannot (the outcome depends on the key type)."
	r.Rule = "one obligation per (exported parser entry, value result); one per documented-copy accessor; non-trivial = the entry's closure contains at least one slicing of the input"
	r.Trusted = []string{"go/ssa, VTA call graph for interface calls", "summary table for standard-library packages (no-flow: fmt, strconv, strings, encoding/*, crypto hashes, logger, oops; alias: everything else without a body)", "no unsafe/reflect-based aliasing in the library (checked)"}

	// unsafe / reflect use in the library
	var unsafeUse []string
	for _, pk := range p.LibPkgs {
		for _, imp := range pk.Imports {
			if imp.PkgPath == "unsafe" || imp.PkgPath == "reflect" {
				unsafeUse = append(unsafeUse, an.ShortPkg(pk.PkgPath)+" imports "+imp.PkgPath)
			}
		}
	}
	r.Check(len(unsafeUse) == 0, "C08.base", "no-unsafe-reflect", "-", "library packages import neither unsafe nor reflect (the alias model assumes this)", unsafeUse...)

	var entries []*ssa.Function
	for _, fn := range p.ExportedAPI() {
		if fn.Signature.Recv() != nil || fn.Synthetic != "" || len(fn.Params) == 0 || len(fn.Blocks) == 0 {
			continue
		}
		if fn.Params[0].Type().String() != "[]byte" {
			continue
		}
		res := fn.Signature.Results()
		if res.Len() == 0 {
			continue
		}
		if _, ok := c08Types[c08TypeKey(res.At(0).Type())]; !ok {
			continue
		}
		entries = append(entries, fn)
	}
	r.Floor("parser_entries_checked", len(entries), 18)
	analysed := map[*ssa.Function]bool{}
	for _, fn := range entries {
		tk := c08TypeKey(fn.Signature.Results().At(0).Type())
		ta := &an.Taint{P: p, OkOnly: true}
		var escapes []string
		ta.OnGlobalStore = func(f *ssa.Function, in ssa.Instruction, g *ssa.Global) {
			escapes = append(escapes, fmt.Sprintf("input-derived value stored into package variable %s at %s", g.Name(), p.Pos(in.Pos())))
		}
		seeds := make([]an.PathSet, len(fn.Params))
		seeds[0] = an.PathSet{"": true}
		sum := ta.Run(fn, seeds)
		for f := range ta.Funcs {
			analysed[f] = true
		}
		var bad []string
		var exempted []string
		var paths []string
		for pth := range sum.Results[0] {
			paths = append(paths, pth)
		}
		sort.Strings(paths)
		for _, pth := range paths {
			ex := false
			for _, e := range c08Types[tk] {
				e2 := strings.TrimSuffix(e, "*")
				if strings.HasPrefix(pth, e2) {
					ex = true
				}
			}
			if ex {
				exempted = append(exempted, pth)
				continue
			}
			where := pth
			if where == "" {
				where = "(the value itself)"
			}
			bad = append(bad, "result"+where+" may reference the input buffer")
		}
		bad = append(bad, escapes...)
		facts := bad
		if len(exempted) > 0 {
			facts = append(facts, "exempted by the property: "+strings.Join(exempted, ", "))
		}
		facts = append(facts, fmt.Sprintf("%d functions analysed in this entry's closure", len(ta.Funcs)))
		what := "no memory reachable from the parsed value (minus the exempted mappings) lies in the caller's buffer"
		if len(bad) > 0 {
			what = "the parsed value keeps pointing into the caller's buffer"
		}
		r.Check(len(bad) == 0, "C08.A1", an.FnKey(fn), p.FnPos(fn), what, facts...)
	}
	r.Analysed["functions_in_parser_closures"] = len(analysed)

	// documented-copy accessors
	nacc := 0
	for _, fn := range p.ExportedAPI() {
		if fn.Signature.Recv() == nil || fn.Synthetic != "" || len(fn.Blocks) == 0 || len(fn.Params) != 1 {
			continue
		}
		d := p.Decl(fn)
		if d == nil || !docSaysCopy(d) {
			continue
		}
		res := fn.Signature.Results()
		if res.Len() == 0 || res.At(0).Type().Underlying().String() != "[]byte" {
			continue // the property speaks of byte slices handed out by copy accessors
		}
		nacc++
		ta := &an.Taint{P: p, OkOnly: true}
		sum := ta.Run(fn, []an.PathSet{{"*": true}})
		var bad []string
		for pth := range sum.Results[0] {
			bad = append(bad, "result"+pth+" may reference the receiver's memory")
		}
		sort.Strings(bad)
		r.Check(len(bad) == 0, "C08.A2", an.FnKey(fn), p.FnPos(fn), "accessor documented as returning a copy returns memory that is not the receiver's", bad...)
	}
	r.Floor("documented_copy_accessors", nacc, 4)
}

func carriesRefsType(t types.Type) bool {
	switch t.Underlying().(type) {
	case *types.Slice, *types.Pointer, *types.Map, *types.Interface:
		return true
	}
	return false
}

func docSaysCopy(d *ast.FuncDecl) bool {
	if d.Doc == nil {
		return false
	}
	txt := strings.ToLower(d.Doc.Text())
	for _, k := range []string{"returns a copy", "return a copy", "defensive copy", "copy of the"} {
		if strings.Contains(txt, k) {
			return true
		}
	}
	return false
}
