package rules

import (
	"fmt"
	"go/constant"
	"go/token"
	"go/types"
	"sort"

	"golang.org/x/tools/go/ssa"

	"verif/checker/internal/an"
)

// c01NoPartialReturn (R14): in the closure of every wire-structure serializer, a function that
// builds its []byte result by an append chain may hand back an intermediate buffer of that chain
// (one that another path appends more fields to) only on a failure or field-absent arm: a return
// dominated by `err != nil`, by a nil / empty test of an optional field, or by a flag-mask test.
// A return of the partial buffer selected by the *value* of a field (a type code compared with
// constants, say) drops every later field for inputs the parser accepted with those fields
// present, so Bytes() is shorter than the consumed input for them.
func c01NoPartialReturn(p *an.Prog, r *an.Report, rule string) {
	seenFn := map[*ssa.Function]bool{}
	n, nfn := 0, 0
	for _, wp := range wirePairs(p) {
		if wp.ser == nil {
			continue
		}
		clos := p.Reachable(p.CG(), []*ssa.Function{wp.ser}, func(f *ssa.Function) bool { return an.InLib(f) })
		var fns []*ssa.Function
		for f := range clos {
			if an.InLib(f) && !seenFn[f] {
				fns = append(fns, f)
			}
		}
		sort.Slice(fns, func(i, j int) bool { return an.FnKey(fns[i]) < an.FnKey(fns[j]) })
		for _, fn := range fns {
			seenFn[fn] = true
			if len(fn.Blocks) == 0 || fn.Signature.Results().Len() == 0 || !isByteSliceType(fn.Signature.Results().At(0).Type()) {
				continue
			}
			nfn++
			var bad []string
			k := 0
			for _, ret := range an.Returns(fn) {
				if len(ret.Results) == 0 {
					continue
				}
				v := ret.Results[0]
				if !appendedElsewhere(v) || !isAppendChain(v) {
					continue
				}
				k++
				n++
				if !absentOrFailureArm(v, ret.Block()) {
					bad = append(bad, "return at "+p.Pos(ret.Pos())+" hands back a buffer that another path appends further fields to, and the choice is not an error / nil / empty / flag test")
				}
			}
			if k == 0 {
				continue
			}
			r.Check(len(bad) == 0, rule, an.FnKey(fn)+"/partial-returns", p.FnPos(fn),
				fmt.Sprintf("every return of an intermediate append-chain buffer lies on a failure or field-absent arm (%d such return(s))", k), bad...)
		}
	}
	r.Floor("serializer-closure functions returning []byte", nfn, 10)
	r.Analysed["returns of an intermediate serializer buffer"] = n
}

// appendedElsewhere: v is the first argument of an append call (so it is not the final buffer).
func appendedElsewhere(v ssa.Value) bool {
	refs := v.Referrers()
	if refs == nil {
		return false
	}
	for _, ref := range *refs {
		if c, ok := ref.(*ssa.Call); ok && isBuiltin(c, "append") && len(c.Call.Args) > 0 && c.Call.Args[0] == v {
			return true
		}
	}
	return false
}

// isAppendChain: v itself is the result of an append (an intermediate element of the chain), not
// merely a base buffer such as make([]byte, 0, n) or a field.
func isAppendChain(v ssa.Value) bool {
	c, ok := v.(*ssa.Call)
	return ok && isBuiltin(c, "append")
}

// absentOrFailureArm: every branch at which the paths to the partial return leave the paths that
// append further fields to v tests an error, a nil / empty optional field, a predicate or a flag.
func absentOrFailureArm(v ssa.Value, retBlock *ssa.BasicBlock) bool {
	back := func(from []*ssa.BasicBlock) map[*ssa.BasicBlock]bool {
		out := map[*ssa.BasicBlock]bool{}
		work := append([]*ssa.BasicBlock(nil), from...)
		for len(work) > 0 {
			b := work[len(work)-1]
			work = work[:len(work)-1]
			if out[b] {
				continue
			}
			out[b] = true
			work = append(work, b.Preds...)
		}
		return out
	}
	var ext []*ssa.BasicBlock
	for _, ref := range *v.Referrers() {
		if c, ok := ref.(*ssa.Call); ok && isBuiltin(c, "append") && len(c.Call.Args) > 0 && c.Call.Args[0] == v {
			ext = append(ext, c.Block())
		}
	}
	S := back(ext)
	T := back([]*ssa.BasicBlock{retBlock})
	found := false
	for u := range S {
		for _, w := range u.Succs {
			if S[w] || !T[w] {
				continue
			}
			found = true
			if len(u.Instrs) == 0 {
				return false
			}
			ifi, ok := u.Instrs[len(u.Instrs)-1].(*ssa.If)
			if !ok || !presenceCond(ifi.Cond, 0) {
				return false
			}
		}
	}
	return found
}

// presenceCond: the condition tests an error, a nil pointer/slice/interface, an empty length, a
// boolean predicate call, or a masked flag — never the value of a field against a constant.
func presenceCond(c ssa.Value, depth int) bool {
	if depth > 4 {
		return false
	}
	switch x := c.(type) {
	case *ssa.UnOp:
		if x.Op == token.NOT {
			return presenceCond(x.X, depth+1)
		}
	case *ssa.Call:
		// a boolean predicate (HasOfflineKeys(), IsValid(), …)
		if b, ok := x.Type().Underlying().(*types.Basic); ok && b.Kind() == types.Bool {
			return true
		}
	case *ssa.Extract:
		if b, ok := x.Type().Underlying().(*types.Basic); ok && b.Kind() == types.Bool {
			return true // comma-ok
		}
	case *ssa.Phi:
		for _, e := range x.Edges {
			if _, isC := e.(*ssa.Const); isC {
				continue
			}
			if !presenceCond(e, depth+1) {
				return false
			}
		}
		return true
	case *ssa.BinOp:
		for _, side := range []ssa.Value{x.X, x.Y} {
			other := x.Y
			if side == x.Y {
				other = x.X
			}
			k, ok := side.(*ssa.Const)
			if !ok {
				continue
			}
			if k.Value == nil { // nil test of error / pointer / slice / interface
				return true
			}
			if k.Value.Kind() == constant.Int {
				if c, ok := other.(*ssa.Call); ok && isBuiltin(c, "len") {
					if v, exact := constant.Int64Val(k.Value); exact && v <= 1 {
						return true // len(x) == 0, len(x) < 1, len(x) > 0
					}
				}
				if m, ok := other.(*ssa.BinOp); ok && m.Op == token.AND {
					return true // flags & mask
				}
			}
		}
	}
	return false
}
