package rules

import (
	"fmt"
	"go/types"
	"sort"
	"strings"

	"golang.org/x/tools/go/ssa"

	"verif/checker/internal/an"
)

func init() { Registry["C18"] = C18 }

// c18Mutators: exported API that is documented to modify its receiver (not part of the read-only
// set the property quantifies over). One line of reason each.
var c18Mutators = map[string]string{
	"(*router_info.RouterInfo).AddAddress":           "documented mutator: appends an address",
	"(*certificate.CertificateBuilder).WithType":     "builder: configures the builder it is called on",
	"(*certificate.CertificateBuilder).WithPayload":  "builder: configures the builder it is called on",
	"(*certificate.CertificateBuilder).WithKeyTypes": "builder: configures the builder it is called on",
	"(*session_key.SessionKey).SetBytes":             "documented setter",
	"(*session_tag.SessionTag).SetBytes":             "documented setter",
	"(*session_tag.ECIESSessionTag).SetBytes":        "documented setter",
	"(data.MappingValues).Add":                       "append-style builder: returns the extended slice; like append itself it is a construction step, not a query on a finished value",
	"data.ValuesToMapping":                           "constructor documented to sort the pairs it is given (takes ownership of its argument)",
}

type c18Write struct {
	fn   *ssa.Function
	in   ssa.Instruction
	what string
	tgt  string
}

func C18(p *an.Prog, r *an.Report) {
	r.Explanation = "Effect analysis with the value-flow engine: every exported method of every exported library type (minus a reviewed table of documented mutators/builders) and every exported function is analysed with all memory reachable from its receiver and arguments seeded as 'shared'. Every write instruction in the closure — stores, map updates, copy destinations, in-place appends, arguments mutated by sort/PutUint/rand.Read — whose target may be shared memory, and every store to a package-level variable outside initialisers, is reported. An append onto a shared slice is admitted only when every store to the field it was loaded from, anywhere in the library, assigns a slice with no spare capacity (so append must reallocate). No goroutine is started by the library. If no read-only call writes to memory that another call can see, no interleaving of such calls has a write/read conflict; schedules need not be enumerated. Memory reached through a package-level variable of the library is part of the shared region wherever the loaded value travels."
	r.Rule = "one obligation per read-only entry point (its closure contains no write to shared memory); one per package-level variable (never written after init); one for go statements"
	r.Trusted = []string{"logger, oops, standard library and go-i2p/crypto verifiers are safe for concurrent use", "go/ssa, VTA call graph"}

	// W4: goroutines
	var gos []string
	for _, fn := range p.RepoFns {
		for _, b := range fn.Blocks {
			for _, in := range b.Instrs {
				if _, ok := in.(*ssa.Go); ok {
					gos = append(gos, p.Pos(in.Pos()))
				}
			}
		}
	}
	r.Check(len(gos) == 0, "C18.W4", "no-go-statements", "-", "the library starts no goroutines", gos...)

	// W3: package-level variables never written outside initialisers
	nglob := 0
	for _, pk := range p.LibPkgs {
		sp := p.SSA.Package(pk.Types)
		var names []string
		for name, m := range sp.Members {
			if _, ok := m.(*ssa.Global); ok {
				names = append(names, name)
			}
		}
		sort.Strings(names)
		for _, name := range names {
			g := sp.Members[name].(*ssa.Global)
			if strings.HasPrefix(name, "init$") {
				continue
			}
			nglob++
			w := p.GlobalWrites(g)
			var facts []string
			for _, in := range w {
				if an.InLib(in.Parent()) || !an.IsStdlib(an.FnPkgPath(in.Parent())) {
					facts = append(facts, "written in "+an.FnKey(in.Parent())+" at "+p.Pos(in.Pos()))
				}
			}
			o := r.Check(len(facts) == 0, "C18.W3", an.ShortPkg(pk.PkgPath)+"."+name, p.Pos(g.Pos()), "package-level variable is never written after initialisation", facts...)
			o.Nontrivial = true
		}
	}
	r.Floor("package_level_variables", nglob, 30)

	// W1
	var entries []*ssa.Function
	skipped := 0
	for _, fn := range p.ExportedAPI() {
		if len(fn.Blocks) == 0 {
			continue
		}
		if _, isMut := c18Mutators[an.FnKey(fn)]; isMut || strings.HasPrefix(an.FnKey(fn), "(*certificate.CertificateBuilder).") {
			skipped++ // the builder is a mutable accumulator by design; it is not a parsed/constructed value
			continue
		}
		if fn.Synthetic != "" && !strings.Contains(fn.Synthetic, "wrapper") {
			continue
		}
		entries = append(entries, fn)
	}
	r.Analysed["declared_mutators_skipped"] = skipped
	r.Floor("read_only_entry_points", len(entries), 300)
	fieldExact := map[string]string{} // cache: type.field -> "" ok / reason
	closure := map[*ssa.Function]bool{}
	for _, fn := range entries {
		var writes []c18Write
		ta := &an.Taint{P: p, GlobalsShared: true}
		ta.OnWrite = func(f *ssa.Function, in ssa.Instruction, target an.PathSet, what string) {
			writes = append(writes, c18Write{f, in, what, target.Key()})
		}
		seeds := make([]an.PathSet, len(fn.Params))
		for i, prm := range fn.Params {
			switch prm.Type().Underlying().(type) {
			case *types.Pointer, *types.Slice, *types.Map, *types.Interface, *types.Chan, *types.Signature:
				seeds[i] = an.PathSet{"*": true, "": true}
			case *types.Struct, *types.Array:
				if carriesRefsT(prm.Type()) {
					seeds[i] = an.PathSet{"*": true} // a value copy whose references are shared
				}
			}
		}
		ta.Run(fn, seeds)
		for f := range ta.Funcs {
			closure[f] = true
		}
		var bad []string
		seen := map[string]bool{}
		for _, w := range writes {
			extra := ""
			if strings.HasPrefix(w.what, "append") {
				reason := c18AppendBaseExact(p, w.in, fieldExact)
				if reason == "" {
					continue
				}
				extra = " (" + reason + ")"
			}
			k := fmt.Sprintf("%s at %s in %s%s", w.what, p.Pos(w.in.Pos()), an.FnKey(w.fn), extra)
			if !seen[k] {
				seen[k] = true
				bad = append(bad, k)
			}
		}
		sort.Strings(bad)
		what := "no instruction reachable from this read-only entry point writes to memory reachable from its receiver, arguments or package state"
		if len(bad) > 0 {
			what = "a read-only entry point can write to shared memory (data race under concurrent use)"
		}
		o := r.Check(len(bad) == 0, "C18.W1", an.FnKey(fn), p.FnPos(fn), what, bad...)
		o.Nontrivial = len(ta.Funcs) > 0
	}
	r.Analysed["functions_in_read_only_closures"] = len(closure)
}

func refType(t types.Type) bool {
	switch t.Underlying().(type) {
	case *types.Pointer, *types.Slice, *types.Map, *types.Interface, *types.Chan, *types.Signature:
		return true
	case *types.Struct, *types.Array:
		return carriesRefsT(t)
	}
	return false
}

func carriesRefsT(t types.Type) bool {
	switch u := t.Underlying().(type) {
	case *types.Struct:
		for i := 0; i < u.NumFields(); i++ {
			if refType(u.Field(i).Type()) {
				return true
			}
		}
	case *types.Array:
		return refType(u.Elem())
	}
	return false
}

// c18AppendBaseExact: the base of an in-place-capable append is a value loaded from a struct field
// all of whose stores (library-wide) assign slices without spare capacity. Returns "" when admitted.
func c18AppendBaseExact(p *an.Prog, in ssa.Instruction, cache map[string]string) string {
	call, ok := in.(*ssa.Call)
	if !ok {
		return "not a call"
	}
	// appending onto the result of an append whose own base is exact: the first append had to
	// reallocate, so this base is private memory
	if inner, ok := call.Call.Args[0].(*ssa.Call); ok && isBuiltin(inner, "append") {
		return c18AppendBaseExact(p, inner, cache)
	}
	if ph, ok := call.Call.Args[0].(*ssa.Phi); ok {
		for _, e := range ph.Edges {
			if inner, ok := e.(*ssa.Call); ok && isBuiltin(inner, "append") {
				if r := c18AppendBaseExact(p, inner, cache); r != "" {
					return r
				}
				continue
			}
			return "append base is a merge of values"
		}
		return ""
	}
	sl := &an.Slicer{P: p, Root: call.Parent(), Through: an.AllArgs, MaxDepth: 6}
	leaves := sl.Leaves(call.Call.Args[0])
	if len(leaves) == 0 {
		return "no origin"
	}
	for _, l := range leaves {
		switch l.Kind {
		case an.LFresh, an.LConst:
			continue
		case an.LParam:
			// find the struct field the path ends in
			i := strings.LastIndex(l.Path, ".")
			if i < 0 {
				return "base is a parameter itself"
			}
			field := l.Path[i+1:]
			key := field
			if r, ok := cache[key]; ok {
				if r != "" {
					return r
				}
				continue
			}
			reason := fieldStoresExact(p, field)
			cache[key] = reason
			if reason != "" {
				return reason
			}
		default:
			return "base origin " + l.String()
		}
	}
	return ""
}

// fieldStoresExact checks every store to a field with this name (of slice type) in the library.
func fieldStoresExact(p *an.Prog, field string) string {
	flow := an.NewFlow(p)
	n := 0
	for _, fn := range p.RepoFns {
		alwaysFails := len(an.Returns(fn)) > 0 && len(flow.OkReturns(fn)) == 0 && an.ErrIndex(fn) >= 0
		var okBlocks map[*ssa.BasicBlock]bool
		for _, b := range fn.Blocks {
			for _, in := range b.Instrs {
				st, ok := in.(*ssa.Store)
				if !ok {
					continue
				}
				fa, ok := st.Addr.(*ssa.FieldAddr)
				if !ok || fieldNameOf(fa.X.Type(), fa.Field) != field {
					continue
				}
				if _, isSlice := st.Val.Type().Underlying().(*types.Slice); !isSlice {
					continue
				}
				n++
				if alwaysFails {
					continue // the value only ever accompanies an error
				}
				// the same, store by store: a purely local struct written on a path that can only
				// end in an error return
				if a, isLocal := fa.X.(*ssa.Alloc); isLocal && an.ErrIndex(fn) >= 0 && an.LocalOnlyAlloc(a) {
					if okBlocks == nil {
						okBlocks = flow.BlocksReachingOK(fn)
					}
					if !okBlocks[b] {
						continue
					}
				}
				v := st.Val
				for {
					if ct, ok := v.(*ssa.ChangeType); ok {
						v = ct.X
						continue
					}
					if cv, ok := v.(*ssa.Convert); ok {
						v = cv.X
						continue
					}
					break
				}
				if !an.ExactCap(v) {
					return fmt.Sprintf("field %s is assigned a slice that may have spare capacity at %s", field, p.Pos(st.Pos()))
				}
			}
		}
	}
	if n == 0 {
		return "no store to field " + field + " found"
	}
	return ""
}
