package an

import (
	"go/token"
	"go/types"
	"strings"

	"golang.org/x/tools/go/ssa"
)

// IsLoggerPkg reports whether path is one of the logging packages the library uses. Logging is
// treated as a pure sink by every rule (DESIGN.md, trusted base).
func IsLoggerPkg(path string) bool {
	return path == "github.com/go-i2p/logger" || strings.HasPrefix(path, "github.com/sirupsen/logrus")
}

// IsLogCall reports whether call invokes a logger function or method.
func IsLogCall(call ssa.CallInstruction) bool {
	c := call.Common()
	if f := c.StaticCallee(); f != nil {
		return IsLoggerPkg(FnPkgPath(f))
	}
	if c.IsInvoke() && c.Method.Pkg() != nil {
		return IsLoggerPkg(c.Method.Pkg().Path())
	}
	return false
}

// IsLogPlumbing reports whether an instruction only exists to build the arguments of logger
// calls: the varargs array, interface boxing, logger.Fields maps, loads of the logger handle.
func IsLogPlumbing(in ssa.Instruction) bool {
	switch x := in.(type) {
	case *ssa.Call:
		return IsLogCall(x)
	case *ssa.MakeInterface, *ssa.DebugRef:
		return true
	case *ssa.MakeMap:
		p, n := NamedOf(x.Type())
		return n == "Fields" && IsLoggerPkg(p)
	case *ssa.MapUpdate:
		p, n := NamedOf(x.Map.Type())
		return n == "Fields" && IsLoggerPkg(p)
	case *ssa.Alloc:
		return onlyFeedsLog(x, 0)
	case *ssa.IndexAddr:
		if a, ok := x.X.(*ssa.Alloc); ok {
			return onlyFeedsLog(a, 0)
		}
	case *ssa.Store:
		if ia, ok := x.Addr.(*ssa.IndexAddr); ok {
			if a, ok := ia.X.(*ssa.Alloc); ok {
				return onlyFeedsLog(a, 0)
			}
		}
	case *ssa.Slice:
		if a, ok := x.X.(*ssa.Alloc); ok {
			return onlyFeedsLog(a, 0)
		}
	case *ssa.UnOp:
		if x.Op == token.MUL {
			if g, ok := x.X.(*ssa.Global); ok {
				p, _ := NamedOf(g.Type().(*types.Pointer).Elem())
				return IsLoggerPkg(p)
			}
		}
	}
	return false
}

// onlyFeedsLog: a varargs array whose slices are passed only to logger calls.
func onlyFeedsLog(a *ssa.Alloc, depth int) bool {
	if _, ok := Deref(a.Type()).Underlying().(*types.Array); !ok {
		return false
	}
	for _, ref := range *a.Referrers() {
		switch r := ref.(type) {
		case *ssa.IndexAddr:
			for _, rr := range *r.Referrers() {
				if _, ok := rr.(*ssa.Store); !ok {
					return false
				}
			}
		case *ssa.Slice:
			for _, rr := range *r.Referrers() {
				c, ok := rr.(ssa.CallInstruction)
				if !ok || !IsLogCall(c) {
					return false
				}
			}
		case *ssa.DebugRef:
		default:
			return false
		}
	}
	return true
}
