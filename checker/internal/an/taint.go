package an

import (
	"fmt"
	"go/token"
	"go/types"
	"sort"
	"strings"

	"golang.org/x/tools/go/ssa"
)

// Engine E3: value-flow ("colour") engine. A summary-based, context-sensitive may-alias analysis
// over SSA with one colour: "references memory of the seeded region". Taint is kept per root
// value (allocation, parameter, call result, ...) as a set of access paths; pointer dereference
// is transparent (a pointer is identified with what it points to), fields and elements are
// path components. The heap is flow-insensitive and field-sensitive (depth <= 3).

// PathSet: "" = the value itself references the region; ".f" / "[]" components; "*" = everything
// reachable (wildcard, used when seeding whole objects).
type PathSet map[string]bool

func (s PathSet) Clone() PathSet {
	n := PathSet{}
	for k := range s {
		n[k] = true
	}
	return n
}

func (s PathSet) Key() string {
	if len(s) == 0 {
		return "-"
	}
	var k []string
	for p := range s {
		k = append(k, p)
	}
	sort.Strings(k)
	return strings.Join(k, "|")
}

func (s PathSet) Add(p string) bool {
	p = normPath(p)
	if s[p] {
		return false
	}
	// absorbed by a wildcard prefix?
	for q := range s {
		if base := strings.TrimSuffix(q, "*"); strings.HasSuffix(q, "*") && strings.HasPrefix(p, base) && len(strings.TrimSuffix(p, "*")) > len(base) {
			return false // covered: "σ*" stands for every path strictly below σ
		}
	}
	s[p] = true
	return true
}

func (s PathSet) Union(t PathSet) bool {
	ch := false
	for p := range t {
		if s.Add(p) {
			ch = true
		}
	}
	return ch
}

// Sub returns the paths below prefix: { q | prefix+q ∈ s }, honouring wildcards.
func (s PathSet) Sub(prefix string) PathSet {
	out := PathSet{}
	for p := range s {
		if strings.HasSuffix(p, "*") {
			// "σ*": every reference found strictly below σ points into the region
			base := strings.TrimSuffix(p, "*")
			switch {
			case strings.HasPrefix(prefix, base):
				out["*"] = true
				if len(prefix) > len(base) {
					out[""] = true
				}
			case strings.HasPrefix(base, prefix):
				out[base[len(prefix):]+"*"] = true
			}
			continue
		}
		if strings.HasPrefix(p, prefix) {
			out[p[len(prefix):]] = true
		}
	}
	return out
}

const maxPathDepth = 4

func normPath(p string) string {
	// limit the number of components; deeper paths collapse into a wildcard at the cut
	n := 0
	for i := 0; i < len(p); i++ {
		if p[i] == '.' || p[i] == '[' {
			n++
			if n > maxPathDepth {
				return p[:i] + "*"
			}
		}
	}
	return p
}

// ExtKind says how a call without analysable body behaves.
type ExtKind int

const (
	ExtNoFlow ExtKind = iota // results reference nothing of the arguments
	ExtAlias                 // results may reference whatever the reference arguments do
)

// Taint is one analysis instance.
type Taint struct {
	P *Prog
	// Analyse decides whether a callee's body is analysed (default: non-stdlib functions with a body).
	Analyse func(*ssa.Function) bool
	// External classifies calls whose callee is not analysed.
	External func(call ssa.CallInstruction, callee *ssa.Function) ExtKind
	// OnWrite is called for every write instruction (Store, MapUpdate, copy dst, append base
	// without exact capacity, mutator dst) with the taint of the written location.
	OnWrite func(fn *ssa.Function, in ssa.Instruction, target PathSet, what string)
	// GlobalsShared: everything reached through a package-level variable counts as part of the
	// seeded region (used by the effect analysis: such memory is visible to every caller).
	GlobalsShared bool
	// OnGlobalStore is called when a tainted value is stored into a package-level variable.
	OnGlobalStore func(fn *ssa.Function, in ssa.Instruction, g *ssa.Global)
	OkOnly        bool // only success returns contribute to a summary's results
	flow          *Flow
	memo          map[string]*TSummary
	active        map[string]bool
	Funcs         map[*ssa.Function]bool // functions analysed
	MaxDepth      int
}

// TSummary is the effect of a function under a calling context.
type TSummary struct {
	Results  []PathSet
	ParamOut []PathSet
	FreeOut  []PathSet
}

type tctx struct {
	globalsShared bool
	fn    *ssa.Function
	taint map[ssa.Value]PathSet // per root
	ch    bool
}

func (c *tctx) add(root ssa.Value, p string) {
	s := c.taint[root]
	if s == nil {
		s = PathSet{}
		c.taint[root] = s
	}
	if s.Add(p) {
		c.ch = true
	}
}

// carriesRefs reports whether a type can hold a reference to memory.
func carriesRefs(t types.Type) bool { return carriesRefsD(t, 0) }

func carriesRefsD(t types.Type, d int) bool {
	if d > 6 {
		return true
	}
	switch u := t.Underlying().(type) {
	case *types.Basic:
		return u.Kind() == types.UnsafePointer
	case *types.Pointer, *types.Slice, *types.Map, *types.Chan, *types.Interface, *types.Signature:
		return true
	case *types.Array:
		return carriesRefsD(u.Elem(), d+1)
	case *types.Struct:
		for i := 0; i < u.NumFields(); i++ {
			if carriesRefsD(u.Field(i).Type(), d+1) {
				return true
			}
		}
		return false
	case *types.Tuple:
		for i := 0; i < u.Len(); i++ {
			if carriesRefsD(u.At(i).Type(), d+1) {
				return true
			}
		}
		return false
	}
	return true
}

// valuePath resolves v to (root, path): field/element addressing and loads are path steps or
// transparent; conversions and slicing are transparent.
func valuePath(v ssa.Value) (ssa.Value, string) {
	var comps []string
	for i := 0; i < 64; i++ {
		switch x := v.(type) {
		case *ssa.FieldAddr:
			comps = append(comps, "."+fieldName(x.X.Type(), x.Field))
			v = x.X
		case *ssa.Field:
			comps = append(comps, "."+fieldName(x.X.Type(), x.Field))
			v = x.X
		case *ssa.IndexAddr:
			comps = append(comps, "[]")
			v = x.X
		case *ssa.Index:
			comps = append(comps, "[]")
			v = x.X
		case *ssa.Lookup:
			comps = append(comps, "[]")
			v = x.X
		case *ssa.Extract:
			// v, ok := m[k]: the value component is an element of the map
			if lk, ok := x.Tuple.(*ssa.Lookup); ok && x.Index == 0 {
				comps = append(comps, "[]")
				v = lk.X
				continue
			}
			return v, joinRev(comps)
		case *ssa.UnOp:
			if x.Op != token.MUL {
				return v, joinRev(comps)
			}
			v = x.X
		case *ssa.Slice:
			v = x.X
		case *ssa.ChangeType:
			v = x.X
		case *ssa.ChangeInterface:
			v = x.X
		case *ssa.MakeInterface:
			v = x.X
		case *ssa.SliceToArrayPointer:
			v = x.X
		case *ssa.TypeAssert:
			if x.CommaOk {
				return v, joinRev(comps)
			}
			v = x.X
		case *ssa.Convert:
			// slice<->slice / pointer conversions keep the memory; string conversions copy
			if isMemoryKeeping(x) {
				v = x.X
			} else {
				return v, joinRev(comps)
			}
		default:
			return v, joinRev(comps)
		}
	}
	return v, joinRev(comps)
}

func isMemoryKeeping(c *ssa.Convert) bool {
	from, to := c.X.Type().Underlying(), c.Type().Underlying()
	_, fs := from.(*types.Slice)
	_, ts := to.(*types.Slice)
	_, fp := from.(*types.Pointer)
	_, tp := to.(*types.Pointer)
	if fs && ts || fp && tp {
		return true
	}
	if b, ok := from.(*types.Basic); ok && b.Kind() == types.UnsafePointer {
		return true
	}
	if b, ok := to.(*types.Basic); ok && b.Kind() == types.UnsafePointer {
		return true
	}
	return false
}

func joinRev(c []string) string {
	var b strings.Builder
	for i := len(c) - 1; i >= 0; i-- {
		b.WriteString(c[i])
	}
	return b.String()
}

// of returns the taint of value v in context c.
func (c *tctx) of(v ssa.Value) PathSet {
	if v == nil {
		return PathSet{}
	}
	root, path := valuePath(v)
	out := PathSet{}
	if g, isG := root.(*ssa.Global); isG && c.globalsShared && g.Pkg != nil && IsLibPath(g.Pkg.Pkg.Path()) {
		// memory reached through a package-level variable is shared between all calls
		return PathSet{"*": true, "": true}
	}
	if s := c.taint[root]; s != nil {
		out = s.Sub(path)
		// an address inside a buffer that is itself the region is a pointer into the region
		if path != "" && s[""] && isAddrInto(v) {
			out[""] = true
		}
	}
	if ph, ok := root.(*ssa.Phi); ok {
		_ = ph
	}
	if !carriesRefs(v.Type()) {
		return PathSet{}
	}
	return out
}

func isAddrInto(v ssa.Value) bool {
	switch v.(type) {
	case *ssa.IndexAddr, *ssa.FieldAddr:
		return true
	}
	return false
}

// addAt taints location (v's root, v's path + p).
func (c *tctx) addAt(v ssa.Value, p string, depth int) {
	root, path := valuePath(v)
	c.addRoot(root, path+p, depth)
}

func (c *tctx) addRoot(root ssa.Value, p string, depth int) {
	if depth > 8 {
		return
	}
	c.add(root, p)
	// a phi/extract is a merge of other roots: the objects behind its operands are tainted too
	switch x := root.(type) {
	case *ssa.Phi:
		for _, e := range x.Edges {
			r2, p2 := valuePath(e)
			if r2 != root {
				c.addRoot(r2, p2+p, depth+1)
			}
		}
	}
}

func (t *Taint) init() {
	if t.memo == nil {
		t.memo = map[string]*TSummary{}
		t.active = map[string]bool{}
		t.Funcs = map[*ssa.Function]bool{}
		t.flow = NewFlow(t.P)
	}
	if t.MaxDepth == 0 {
		t.MaxDepth = 12
	}
	if t.Analyse == nil {
		t.Analyse = func(f *ssa.Function) bool { return len(f.Blocks) > 0 && !IsStdlib(FnPkgPath(f)) }
	}
	if t.External == nil {
		t.External = DefaultExternal
	}
}

// IsStdlib: import paths without a dot in the first element are standard library (plus golang.org/x
// is treated as external third-party, i.e. analysed by body).
func IsStdlib(path string) bool {
	if path == "" {
		return true
	}
	first := path
	if i := strings.Index(path, "/"); i >= 0 {
		first = path[:i]
	}
	return !strings.Contains(first, ".")
}

var noFlowPkgs = map[string]bool{
	"fmt": true, "strconv": true, "errors": true, "strings": true, "time": true, "math": true, "math/big": true, "math/bits": true,
	"unicode": true, "unicode/utf8": true, "sort": true, "encoding/binary": true, "encoding/hex": true, "encoding/base32": true,
	"encoding/base64": true, "net": true, "crypto/sha256": true, "crypto/sha512": true, "crypto/sha1": true, "crypto/subtle": true,
	"crypto/rand": true, "crypto/ed25519": true, "crypto/ecdsa": true, "crypto/elliptic": true, "crypto/dsa": true, "crypto/rsa": true,
	"crypto": true, "hash": true, "sync": true, "sync/atomic": true, "os": true, "runtime": true, "log": true, "io": true,
	"github.com/samber/oops": true, "github.com/go-i2p/logger": true, "github.com/sirupsen/logrus": true,
}

// DefaultExternal: logging/formatting/hashing/encoding packages do not retain or return their
// arguments' memory; anything else without an analysed body may.
func DefaultExternal(call ssa.CallInstruction, callee *ssa.Function) ExtKind {
	if callee == nil {
		if call.Common().IsInvoke() && call.Common().Method.Pkg() != nil {
			if noFlowPkgs[call.Common().Method.Pkg().Path()] {
				return ExtNoFlow
			}
		}
		// error.Error(), fmt.Stringer and friends
		if call.Common().IsInvoke() {
			switch call.Common().Method.Name() {
			case "Error", "String":
				return ExtNoFlow
			}
		}
		return ExtAlias
	}
	pkg := FnPkgPath(callee)
	if noFlowPkgs[pkg] || IsLoggerPkg(pkg) {
		return ExtNoFlow
	}
	if pkg == "bytes" {
		switch callee.Name() {
		case "Equal", "Compare", "Contains", "ContainsAny", "Index", "IndexByte", "HasPrefix", "HasSuffix", "Count", "EqualFold", "Clone", "Repeat", "Join", "ToUpper", "ToLower":
			return ExtNoFlow
		}
		return ExtAlias
	}
	return ExtAlias
}

// Run analyses root with the given seed taint per parameter and returns its summary.
func (t *Taint) Run(root *ssa.Function, seeds []PathSet) *TSummary {
	t.init()
	return t.analyse(root, seeds, nil, 0)
}

func ctxKey(fn *ssa.Function, params, free []PathSet) string {
	var b strings.Builder
	fmt.Fprintf(&b, "%p", fn)
	for _, p := range params {
		b.WriteString(";" + p.Key())
	}
	b.WriteString("#")
	for _, p := range free {
		b.WriteString(";" + p.Key())
	}
	return b.String()
}

func (t *Taint) analyse(fn *ssa.Function, params, free []PathSet, depth int) *TSummary {
	key := ctxKey(fn, params, free)
	if s, ok := t.memo[key]; ok {
		return s
	}
	sum := &TSummary{Results: make([]PathSet, fn.Signature.Results().Len()), ParamOut: make([]PathSet, len(fn.Params)), FreeOut: make([]PathSet, len(fn.FreeVars))}
	for i := range sum.Results {
		sum.Results[i] = PathSet{}
	}
	for i := range sum.ParamOut {
		sum.ParamOut[i] = PathSet{}
		if i < len(params) && params[i] != nil {
			sum.ParamOut[i] = params[i].Clone()
		}
	}
	for i := range sum.FreeOut {
		sum.FreeOut[i] = PathSet{}
		if i < len(free) && free[i] != nil {
			sum.FreeOut[i] = free[i].Clone()
		}
	}
	if t.active[key] || depth > t.MaxDepth || len(fn.Blocks) == 0 {
		return sum // recursion / depth cut: parameters pass through unchanged
	}
	t.active[key] = true
	defer delete(t.active, key)
	t.Funcs[fn] = true
	c := &tctx{fn: fn, taint: map[ssa.Value]PathSet{}, globalsShared: t.GlobalsShared}
	for i, p := range fn.Params {
		if i < len(params) && params[i] != nil {
			c.taint[p] = params[i].Clone()
		}
	}
	for i, fv := range fn.FreeVars {
		if i < len(free) && free[i] != nil {
			c.taint[fv] = free[i].Clone()
		}
	}
	// when only successful returns matter, a store into a purely local variable made in a block
	// from which no successful return is reachable cannot influence any result that counts
	var okBlocks map[*ssa.BasicBlock]bool
	if t.OkOnly && ErrIndex(fn) >= 0 {
		okBlocks = t.flow.BlocksReachingOK(fn)
	}
	for iter := 0; iter < 40; iter++ {
		c.ch = false
		for _, b := range fn.Blocks {
			for _, in := range b.Instrs {
				if okBlocks != nil && !okBlocks[b] {
					if st, ok := in.(*ssa.Store); ok {
						if root, _ := valuePath(st.Addr); root != nil {
							if a, ok := root.(*ssa.Alloc); ok && LocalOnlyAlloc(a) {
								continue
							}
						}
					}
				}
				t.step(c, in, depth, iter)
			}
		}
		if !c.ch {
			break
		}
	}
	// results
	rets := Returns(fn)
	for _, ret := range rets {
		if t.OkOnly && t.flow.RetClass(ret) == DefNonNil {
			continue
		}
		for i, rv := range ret.Results {
			sum.Results[i].Union(c.of(rv))
		}
	}
	for i, p := range fn.Params {
		if s := c.taint[p]; s != nil {
			sum.ParamOut[i] = s.Clone()
		}
	}
	for i, fv := range fn.FreeVars {
		if s := c.taint[fv]; s != nil {
			sum.FreeOut[i] = s.Clone()
		}
	}
	// final pass for write hooks (taint is now stable)
	if t.OnWrite != nil {
		for _, b := range fn.Blocks {
			for _, in := range b.Instrs {
				t.reportWrites(c, in)
			}
		}
	}
	t.memo[key] = sum
	return sum
}

func (t *Taint) step(c *tctx, in ssa.Instruction, depth, iter int) {
	switch x := in.(type) {
	case *ssa.Store:
		vt := c.of(x.Val)
		if len(vt) > 0 {
			root, _ := valuePath(x.Addr)
			if g, ok := root.(*ssa.Global); ok && t.OnGlobalStore != nil && iter == 0 {
				t.OnGlobalStore(c.fn, in, g)
			}
			for p := range vt {
				c.addAt(x.Addr, p, 0)
			}
		}
	case *ssa.MapUpdate:
		for p := range c.of(x.Value) {
			c.addAt(x.Map, "[]"+p, 0)
		}
		for p := range c.of(x.Key) {
			c.addAt(x.Map, "[]"+p, 0)
		}
	case *ssa.Send:
		for p := range c.of(x.X) {
			c.addAt(x.Chan, "[]"+p, 0)
		}
	case *ssa.Phi:
		for _, e := range x.Edges {
			for p := range c.of(e) {
				c.add(x, p)
			}
		}
	case *ssa.Extract:
		// taint of tuple components is recorded on the Extract value by the call handling
	case *ssa.MakeClosure:
		for _, b := range x.Bindings {
			for p := range c.of(b) {
				c.add(x, "{}"+p) // closure environment
			}
		}
	case *ssa.Select:
		for _, st := range x.States {
			if st.Send != nil {
				for p := range c.of(st.Send) {
					c.addAt(st.Chan, "[]"+p, 0)
				}
			}
		}
	case *ssa.Go:
		t.call(c, x, depth)
	case *ssa.Defer:
		t.call(c, x, depth)
	case *ssa.Call:
		t.call(c, x, depth)
	case *ssa.Next, *ssa.Range:
		if r, ok := in.(*ssa.Range); ok {
			for p := range c.of(r.X) {
				c.add(r, p)
			}
		}
		if n, ok := in.(*ssa.Next); ok {
			for p := range c.of(n.Iter) {
				c.add(n, strings.TrimPrefix(p, "[]"))
			}
		}
	}
}

func callArgs(call ssa.CallInstruction) []ssa.Value {
	cc := call.Common()
	if cc.IsInvoke() {
		return append([]ssa.Value{cc.Value}, cc.Args...)
	}
	return cc.Args
}

// setResult records the taint of a call's results: on the call value for a single result and on
// each Extract for tuples.
func (c *tctx) setResult(call ssa.CallInstruction, results []PathSet) {
	v := call.Value()
	if v == nil {
		return
	}
	if _, isTuple := v.Type().(*types.Tuple); !isTuple {
		if len(results) > 0 {
			for p := range results[0] {
				c.add(v, p)
			}
		}
		return
	}
	for _, ref := range *v.Referrers() {
		if e, ok := ref.(*ssa.Extract); ok && e.Index < len(results) {
			for p := range results[e.Index] {
				c.add(e, p)
			}
		}
	}
}

func (t *Taint) call(c *tctx, call ssa.CallInstruction, depth int) {
	cc := call.Common()
	args := callArgs(call)
	if bi, ok := cc.Value.(*ssa.Builtin); ok {
		t.builtin(c, call, bi, args)
		return
	}
	if IsLogCall(call) {
		return
	}
	argT := make([]PathSet, len(args))
	any := false
	for i, a := range args {
		argT[i] = c.of(a)
		if len(argT[i]) > 0 {
			any = true
		}
	}
	// closure call: bind free variables
	var callees []*ssa.Function
	var freeT []PathSet
	if mc, ok := cc.Value.(*ssa.MakeClosure); ok {
		callees = []*ssa.Function{mc.Fn.(*ssa.Function)}
		for _, b := range mc.Bindings {
			freeT = append(freeT, c.of(b))
			if len(c.of(b)) > 0 {
				any = true
			}
		}
	} else {
		callees = t.P.Callees(call)
	}
	if !any && t.OnWrite == nil {
		// nothing tainted flows in: with no write hook there is nothing to learn from the callee
		// except fresh results, which are untainted
		return
	}
	handled := false
	for _, callee := range callees {
		if !t.Analyse(callee) {
			continue
		}
		handled = true
		ps := argT
		if len(ps) > len(callee.Params) {
			ps = ps[:len(callee.Params)]
		}
		sum := t.analyse(callee, ps, freeT, depth+1)
		c.setResult(call, sum.Results)
		for i := range ps {
			if i >= len(sum.ParamOut) {
				break
			}
			for p := range sum.ParamOut[i] {
				if !ps[i][p] {
					c.addAt(args[i], p, 0)
				}
			}
		}
		if mc, ok := cc.Value.(*ssa.MakeClosure); ok {
			for i, b := range mc.Bindings {
				if i < len(sum.FreeOut) {
					for p := range sum.FreeOut[i] {
						c.addAt(b, p, 0)
					}
				}
			}
		}
	}
	if handled {
		return
	}
	var callee *ssa.Function
	if len(callees) > 0 {
		callee = callees[0]
	}
	if !any {
		return
	}
	switch t.External(call, callee) {
	case ExtNoFlow:
		return
	case ExtAlias:
		// results may reference whatever the arguments reference
		all := PathSet{}
		for _, a := range argT {
			for p := range a {
				if p == "" || strings.HasSuffix(p, "*") {
					all.Add(p)
				} else {
					all.Add("*")
				}
			}
		}
		n := 1
		if v := call.Value(); v != nil {
			if tup, ok := v.Type().(*types.Tuple); ok {
				n = tup.Len()
			}
		}
		res := make([]PathSet, n)
		for i := range res {
			res[i] = all
		}
		c.setResult(call, res)
	}
}

func (t *Taint) builtin(c *tctx, call ssa.CallInstruction, bi *ssa.Builtin, args []ssa.Value) {
	switch bi.Name() {
	case "append":
		v := call.Value()
		if v == nil || len(args) == 0 {
			return
		}
		for p := range c.of(args[0]) {
			c.add(v, p)
		}
		if len(args) > 1 && elemCarriesRefs(args[1].Type()) {
			for p := range c.of(args[1]) {
				if strings.HasPrefix(p, "[]") || strings.HasSuffix(p, "*") {
					c.add(v, p) // elements carried over (only when elements hold references)
				}
			}
		}
	case "copy":
		if len(args) == 2 && elemCarriesRefs(args[1].Type()) {
			for p := range c.of(args[1]) {
				if strings.HasPrefix(p, "[]") || strings.HasSuffix(p, "*") {
					c.addAt(args[0], p, 0)
				}
			}
		}
	case "min", "max":
	}
}

// reportWrites invokes OnWrite for write instructions with the (stable) taint of the target.
func (t *Taint) reportWrites(c *tctx, in ssa.Instruction) {
	var locTaintP func(addr ssa.Value, extra string) PathSet
	locTaint := func(addr ssa.Value) PathSet { return locTaintP(addr, "") }
	// elements of a slice/map value (copy destination, append base, sorted slice, PutUint target)
	elemTaint := func(v ssa.Value) PathSet { return locTaintP(v, "[]") }
	locTaintP = func(addr ssa.Value, extra string) PathSet {
		root, path := valuePath(addr)
		path += extra
		out := PathSet{}
		if _, isGlobal := root.(*ssa.Global); isGlobal {
			out["package-level variable"] = true
			return out
		}
		s := c.taint[root]
		if s == nil {
			return out
		}
		// The written location (root, path) lies in the region when the path passes *through* a
		// reference that points into the region: some tainted slot τ is a proper prefix of path.
		// Writing the slot that holds such a reference (path == τ) only changes the local holder.
		for p := range s {
			if strings.HasSuffix(p, "*") {
				base := strings.TrimSuffix(p, "*")
				if !strings.HasPrefix(path, base) {
					continue
				}
				// need a slot τ with base < τ < path (component boundaries) of reference type
				for _, tau := range properPrefixes(path) {
					if len(tau) > len(base) && slotIsRef(root.Type(), tau) {
						out[tau+" (shared)"] = true
					}
				}
				continue
			}
			if len(p) < len(path) && strings.HasPrefix(path, p) && pathBoundary(path, len(p)) {
				out[p] = true
			}
		}
		return out
	}
	switch x := in.(type) {
	case *ssa.Store:
		if lt := locTaint(x.Addr); len(lt) > 0 {
			t.OnWrite(c.fn, in, lt, "store")
		}
	case *ssa.MapUpdate:
		if lt := elemTaint(x.Map); len(lt) > 0 {
			t.OnWrite(c.fn, in, lt, "map update")
		}
	case *ssa.Call:
		if bi, ok := x.Call.Value.(*ssa.Builtin); ok {
			switch bi.Name() {
			case "copy":
				if lt := elemTaint(x.Call.Args[0]); len(lt) > 0 {
					t.OnWrite(c.fn, in, lt, "copy destination")
				}
			case "append":
				if lt := elemTaint(x.Call.Args[0]); len(lt) > 0 && !ExactCap(x.Call.Args[0]) {
					t.OnWrite(c.fn, in, lt, "append onto a shared slice with possible spare capacity")
				}
			case "delete", "clear":
				if lt := elemTaint(x.Call.Args[0]); len(lt) > 0 {
					t.OnWrite(c.fn, in, lt, bi.Name())
				}
			}
			return
		}
		// mutators of their argument
		if callee := x.Call.StaticCallee(); callee != nil && !t.Analyse(callee) {
			if k := mutatedArg(callee); k >= 0 {
				args := callArgs(x)
				if k < len(args) {
					if lt := elemTaint(args[k]); len(lt) > 0 {
						t.OnWrite(c.fn, in, lt, "argument mutated by "+FnKey(callee))
					}
				}
			}
		}
	}
}

func pathBoundary(path string, n int) bool {
	return n == len(path) || path[n] == '.' || path[n] == '['
}

// mutatedArg: index (receiver-first) of the argument an external function writes to, or -1.
func mutatedArg(f *ssa.Function) int {
	pkg, name := FnPkgPath(f), f.Name()
	switch {
	case pkg == "encoding/binary" && (strings.HasPrefix(name, "PutUint") || strings.HasPrefix(name, "AppendUint")):
		return 1
	case pkg == "sort" && (name == "Slice" || name == "SliceStable" || name == "Sort" || name == "Stable" || name == "Strings" || name == "Ints"):
		return 0
	case pkg == "slices" && strings.HasPrefix(name, "Sort"):
		return 0
	case pkg == "crypto/rand" && name == "Read":
		return 0
	case pkg == "io" && (name == "ReadFull" || name == "ReadAtLeast"):
		return 1
	}
	return -1
}

// ExactCap reports whether a slice value has cap == len by construction (so append must copy).
func ExactCap(v ssa.Value) bool {
	switch x := v.(type) {
	case *ssa.Slice:
		if x.Max != nil {
			// x[a:b:b]
			return x.Max == x.High
		}
		// full slice of an array allocated for it
		if a, ok := x.X.(*ssa.Alloc); ok && x.Low == nil && x.High == nil {
			_ = a
			return true
		}
		if a, ok := x.X.(*ssa.Alloc); ok && x.Low == nil {
			if arr, ok := Deref(a.Type()).Underlying().(*types.Array); ok {
				if c, ok := x.High.(*ssa.Const); ok && c.Value != nil && c.Int64() == arr.Len() {
					return true
				}
			}
		}
	case *ssa.MakeSlice:
		return x.Len == x.Cap
	case *ssa.Convert:
		// []byte(string) allocates exactly (implementation rounds capacity up: not exact)
		return false
	case *ssa.Const:
		return x.Value == nil // nil slice: append allocates
	}
	return false
}

func elemCarriesRefs(t types.Type) bool {
	switch u := t.Underlying().(type) {
	case *types.Slice:
		return carriesRefs(u.Elem())
	case *types.Array:
		return carriesRefs(u.Elem())
	case *types.Pointer:
		return elemCarriesRefs(u.Elem())
	case *types.Basic:
		return false // string
	}
	return true
}

// properPrefixes lists the proper prefixes of an access path at component boundaries (including "").
func properPrefixes(path string) []string {
	var out []string
	for i := 0; i < len(path); i++ {
		if path[i] == '.' || (path[i] == '[' && (i == 0 || true)) {
			out = append(out, path[:i])
		}
	}
	// de-duplicate
	seen := map[string]bool{}
	var res []string
	for _, p := range out {
		if !seen[p] {
			seen[p] = true
			res = append(res, p)
		}
	}
	return res
}

// slotIsRef reports whether the slot designated by path below a value of type t holds a
// reference (pointer, slice, map, interface, chan, func). Pointers on the way are dereferenced
// transparently, as in valuePath. The empty path designates the root value itself.
func slotIsRef(t types.Type, path string) bool {
	cur := t
	rest := path
	for {
		if rest == "" {
			switch cur.Underlying().(type) {
			case *types.Pointer, *types.Slice, *types.Map, *types.Interface, *types.Chan, *types.Signature:
				return true
			}
			return false
		}
		// transparent deref
		for {
			if pt, ok := cur.Underlying().(*types.Pointer); ok {
				cur = pt.Elem()
				continue
			}
			break
		}
		if strings.HasPrefix(rest, "[]") {
			switch u := cur.Underlying().(type) {
			case *types.Slice:
				cur = u.Elem()
			case *types.Array:
				cur = u.Elem()
			case *types.Map:
				cur = u.Elem()
			default:
				return true // unknown shape: be conservative
			}
			rest = rest[2:]
			continue
		}
		if strings.HasPrefix(rest, ".") {
			name := rest[1:]
			end := len(name)
			for i := 0; i < len(name); i++ {
				if name[i] == '.' || name[i] == '[' {
					end = i
					break
				}
			}
			fname := name[:end]
			st, ok := cur.Underlying().(*types.Struct)
			if !ok {
				return true
			}
			found := false
			for i := 0; i < st.NumFields(); i++ {
				if st.Field(i).Name() == fname {
					cur = st.Field(i).Type()
					found = true
					break
				}
			}
			if !found {
				return true
			}
			rest = rest[1+end:]
			continue
		}
		return true
	}
}
