package an

import (
	"fmt"
	"math"
	"sort"
	"strings"
)

// Iv is a closed interval of int64; MinInt64/MaxInt64 stand for -inf/+inf.
type Iv struct{ Lo, Hi int64 }

// IvSet is a normalised (sorted, disjoint, non-adjacent) union of intervals.
type IvSet []Iv

const (
	NegInf = math.MinInt64
	PosInf = math.MaxInt64
)

func IvAll() IvSet              { return IvSet{{NegInf, PosInf}} }
func IvRange(lo, hi int64) IvSet { return IvSet{{lo, hi}}.norm() }
func IvPoint(v int64) IvSet      { return IvSet{{v, v}} }

func (s IvSet) norm() IvSet {
	var t IvSet
	for _, iv := range s {
		if iv.Lo <= iv.Hi {
			t = append(t, iv)
		}
	}
	sort.Slice(t, func(i, j int) bool { return t[i].Lo < t[j].Lo })
	var out IvSet
	for _, iv := range t {
		if n := len(out); n > 0 && (out[n-1].Hi == PosInf || iv.Lo <= out[n-1].Hi+1) {
			if iv.Hi > out[n-1].Hi {
				out[n-1].Hi = iv.Hi
			}
			continue
		}
		out = append(out, iv)
	}
	return out
}

func (s IvSet) Empty() bool { return len(s) == 0 }

func (s IvSet) isNorm() bool {
	for i := range s {
		if s[i].Lo > s[i].Hi {
			return false
		}
		if i > 0 && (s[i-1].Hi == PosInf || s[i].Lo <= s[i-1].Hi+1) {
			return false
		}
	}
	return true
}

func (s IvSet) Union(t IvSet) IvSet {
	return append(append(IvSet{}, s...), t...).norm()
}

func (s IvSet) Intersect(t IvSet) IvSet {
	// linear merge over normalised (sorted, disjoint) operands
	if !s.isNorm() {
		s = s.norm()
	}
	if !t.isNorm() {
		t = t.norm()
	}
	var out IvSet
	i, j := 0, 0
	for i < len(s) && j < len(t) {
		lo, hi := s[i].Lo, s[i].Hi
		if t[j].Lo > lo {
			lo = t[j].Lo
		}
		if t[j].Hi < hi {
			hi = t[j].Hi
		}
		if lo <= hi {
			out = append(out, Iv{lo, hi})
		}
		if s[i].Hi < t[j].Hi {
			i++
		} else {
			j++
		}
	}
	return out
}

// Complement within (-inf,+inf).
func (s IvSet) Complement() IvSet {
	s = s.norm()
	var out IvSet
	cur := int64(NegInf)
	open := true // cur is a valid start
	for _, iv := range s {
		if iv.Lo > NegInf {
			out = append(out, Iv{cur, iv.Lo - 1})
		}
		if iv.Hi == PosInf {
			open = false
			break
		}
		cur = iv.Hi + 1
	}
	if open {
		out = append(out, Iv{cur, PosInf})
	}
	return out.norm()
}

func (s IvSet) Minus(t IvSet) IvSet { return s.Intersect(t.Complement()) }

func (s IvSet) Contains(v int64) bool {
	for _, iv := range s {
		if v >= iv.Lo && v <= iv.Hi {
			return true
		}
	}
	return false
}

func (s IvSet) Equal(t IvSet) bool {
	s, t = s.norm(), t.norm()
	if len(s) != len(t) {
		return false
	}
	for i := range s {
		if s[i] != t[i] {
			return false
		}
	}
	return true
}

func (s IvSet) SubsetOf(t IvSet) bool { return s.Minus(t).Empty() }

// Single returns the only member when the set is a single point.
func (s IvSet) Single() (int64, bool) {
	if len(s) == 1 && s[0].Lo == s[0].Hi {
		return s[0].Lo, true
	}
	return 0, false
}

// Count returns the number of members (saturating).
func (s IvSet) Count() int64 {
	var n int64
	for _, iv := range s {
		if iv.Lo == NegInf || iv.Hi == PosInf {
			return PosInf
		}
		n += iv.Hi - iv.Lo + 1
	}
	return n
}

func (s IvSet) String() string {
	if len(s) == 0 {
		return "{}"
	}
	var parts []string
	for _, iv := range s {
		lo, hi := fmt.Sprint(iv.Lo), fmt.Sprint(iv.Hi)
		if iv.Lo == NegInf {
			lo = "-inf"
		}
		if iv.Hi == PosInf {
			hi = "+inf"
		}
		if iv.Lo == iv.Hi {
			parts = append(parts, "{"+lo+"}")
		} else {
			parts = append(parts, "["+lo+","+hi+"]")
		}
	}
	return strings.Join(parts, "∪")
}

// CmpRegion returns the set of x for which "x op c" holds.
func CmpRegion(op string, c int64) IvSet {
	switch op {
	case "==":
		return IvPoint(c)
	case "!=":
		return IvPoint(c).Complement()
	case "<":
		if c == NegInf {
			return nil
		}
		return IvSet{{NegInf, c - 1}}
	case "<=":
		return IvSet{{NegInf, c}}
	case ">":
		if c == PosInf {
			return nil
		}
		return IvSet{{c + 1, PosInf}}
	case ">=":
		return IvSet{{c, PosInf}}
	}
	return nil
}
