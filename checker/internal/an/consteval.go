package an

import (
	"fmt"
	"go/ast"
	"go/constant"
	"go/token"
	"go/types"
	"sort"

	"golang.org/x/tools/go/packages"
	"golang.org/x/tools/go/ssa"
)

// ConstTable is a map literal whose keys are integer constants and whose values are constants or
// struct literals of constants (engine E2a).
type ConstTable struct {
	Name    string
	Pos     token.Pos
	Keys    []int64
	Scalar  map[int64]constant.Value            // for non-struct values
	Fields  map[int64]map[string]constant.Value // for struct values: field name -> value (missing = zero)
	ValType types.Type
}

func (t *ConstTable) Has(k int64) bool {
	if t.Scalar != nil {
		_, ok := t.Scalar[k]
		return ok
	}
	_, ok := t.Fields[k]
	return ok
}

func (t *ConstTable) KeySet() IvSet {
	var s IvSet
	for _, k := range t.Keys {
		s = append(s, Iv{k, k})
	}
	return s.norm()
}

// Int returns the integer value stored under key k (field f for struct-valued tables).
func (t *ConstTable) Int(k int64, f string) (int64, bool) {
	var v constant.Value
	if t.Scalar != nil {
		v = t.Scalar[k]
	} else if m, ok := t.Fields[k]; ok {
		v = m[f]
		if v == nil {
			return 0, true // omitted field = zero value
		}
	}
	if v == nil || v.Kind() != constant.Int {
		return 0, false
	}
	i, ok := constant.Int64Val(v)
	return i, ok
}

// TableFromLit evaluates a map composite literal through go/types constant information.
func TableFromLit(name string, lit *ast.CompositeLit, info *types.Info) (*ConstTable, error) {
	tv, ok := info.Types[lit]
	if !ok {
		return nil, fmt.Errorf("%s: no type for literal", name)
	}
	mt, ok := tv.Type.Underlying().(*types.Map)
	if !ok {
		return nil, fmt.Errorf("%s: not a map literal", name)
	}
	t := &ConstTable{Name: name, Pos: lit.Pos(), ValType: mt.Elem()}
	st, isStruct := mt.Elem().Underlying().(*types.Struct)
	if isStruct {
		t.Fields = map[int64]map[string]constant.Value{}
	} else {
		t.Scalar = map[int64]constant.Value{}
	}
	for _, el := range lit.Elts {
		kv, ok := el.(*ast.KeyValueExpr)
		if !ok {
			return nil, fmt.Errorf("%s: element is not key:value", name)
		}
		ktv := info.Types[kv.Key]
		if ktv.Value == nil || ktv.Value.Kind() != constant.Int {
			return nil, fmt.Errorf("%s: non-constant integer key", name)
		}
		k, _ := constant.Int64Val(ktv.Value)
		if t.Has(k) {
			return nil, fmt.Errorf("%s: duplicate key %d", name, k)
		}
		t.Keys = append(t.Keys, k)
		if !isStruct {
			vtv := info.Types[kv.Value]
			if vtv.Value == nil {
				return nil, fmt.Errorf("%s[%d]: non-constant value", name, k)
			}
			t.Scalar[k] = vtv.Value
			continue
		}
		cl, ok := ast.Unparen(kv.Value).(*ast.CompositeLit)
		if !ok {
			return nil, fmt.Errorf("%s[%d]: struct value is not a literal", name, k)
		}
		fields := map[string]constant.Value{}
		for i, fe := range cl.Elts {
			var fname string
			var vexpr ast.Expr
			if fkv, ok := fe.(*ast.KeyValueExpr); ok {
				id, ok := fkv.Key.(*ast.Ident)
				if !ok {
					return nil, fmt.Errorf("%s[%d]: odd field key", name, k)
				}
				fname, vexpr = id.Name, fkv.Value
			} else {
				if i >= st.NumFields() {
					return nil, fmt.Errorf("%s[%d]: too many positional fields", name, k)
				}
				fname, vexpr = st.Field(i).Name(), fe
			}
			vtv := info.Types[vexpr]
			if vtv.Value == nil {
				return nil, fmt.Errorf("%s[%d].%s: non-constant value", name, k, fname)
			}
			fields[fname] = vtv.Value
		}
		t.Fields[k] = fields
	}
	sort.Slice(t.Keys, func(i, j int) bool { return t.Keys[i] < t.Keys[j] })
	return t, nil
}

// GlobalTable extracts the map literal that initialises package-level variable pkg.name.
func (p *Prog) GlobalTable(pkg, name string) (*ConstTable, error) {
	path := ModPath + "/" + pkg
	pk := p.ByPath[path]
	if pk == nil {
		return nil, fmt.Errorf("package %s not loaded", pkg)
	}
	lit := findVarLit(pk, name)
	if lit == nil {
		return nil, fmt.Errorf("%s.%s: no composite-literal initialiser found", pkg, name)
	}
	return TableFromLit(pkg+"."+name, lit, pk.TypesInfo)
}

func findVarLit(pk *packages.Package, name string) *ast.CompositeLit {
	for _, f := range pk.Syntax {
		for _, d := range f.Decls {
			gd, ok := d.(*ast.GenDecl)
			if !ok || gd.Tok != token.VAR {
				continue
			}
			for _, s := range gd.Specs {
				vs := s.(*ast.ValueSpec)
				for i, n := range vs.Names {
					if n.Name == name && i < len(vs.Values) {
						if cl, ok := ast.Unparen(vs.Values[i]).(*ast.CompositeLit); ok {
							return cl
						}
					}
				}
			}
		}
	}
	return nil
}

// LocalTable extracts the literal behind a MakeMap instruction created by a composite literal in
// a function body, and checks that the only updates of that map are the literal's own entries.
func (p *Prog) LocalTable(mm *ssa.MakeMap) (*ConstTable, error) {
	fn := mm.Parent()
	pk := p.PackageOf(fn)
	if pk == nil || fn.Syntax() == nil {
		return nil, fmt.Errorf("no syntax for %s", FnKey(fn))
	}
	var lit *ast.CompositeLit
	ast.Inspect(fn.Syntax(), func(n ast.Node) bool {
		if cl, ok := n.(*ast.CompositeLit); ok && cl.Lbrace == mm.Pos() {
			lit = cl
		}
		return lit == nil
	})
	if lit == nil {
		return nil, fmt.Errorf("%s: MakeMap is not a composite literal", FnKey(fn))
	}
	t, err := TableFromLit(FnKey(fn)+":local-map", lit, pk.TypesInfo)
	if err != nil {
		return nil, err
	}
	updates := 0
	for _, ref := range *mm.Referrers() {
		if _, ok := ref.(*ssa.MapUpdate); ok {
			updates++
		}
	}
	if updates != len(t.Keys) {
		return nil, fmt.Errorf("%s: local map has %d updates but %d literal entries", FnKey(fn), updates, len(t.Keys))
	}
	return t, nil
}

// ConstInt returns the value of a named integer constant pkg.name.
func (p *Prog) ConstInt(pkg, name string) (int64, bool) {
	pk := p.ByPath[ModPath+"/"+pkg]
	if pk == nil {
		return 0, false
	}
	c, ok := pk.Types.Scope().Lookup(name).(*types.Const)
	if !ok || c.Val().Kind() != constant.Int {
		return 0, false
	}
	return constant.Int64Val(c.Val())
}

// ConstString returns the value of a named string constant pkg.name.
func (p *Prog) ConstString(pkg, name string) (string, bool) {
	pk := p.ByPath[ModPath+"/"+pkg]
	if pk == nil {
		return "", false
	}
	c, ok := pk.Types.Scope().Lookup(name).(*types.Const)
	if !ok || c.Val().Kind() != constant.String {
		return "", false
	}
	return constant.StringVal(c.Val()), true
}

// GlobalWrites lists instructions in the whole program, outside package initialisers, that store
// to the package-level variable g or update/delete through a value loaded from it.
func (p *Prog) GlobalWrites(g *ssa.Global) []ssa.Instruction {
	var out []ssa.Instruction
	for fn := range p.All {
		if fn.Name() == "init" && fn.Pkg == g.Pkg && fn.Synthetic != "" {
			continue
		}
		for _, b := range fn.Blocks {
			for _, in := range b.Instrs {
				switch x := in.(type) {
				case *ssa.Store:
					if rootGlobal(x.Addr) == g {
						out = append(out, in)
					}
				case *ssa.MapUpdate:
					if rootGlobal(x.Map) == g {
						out = append(out, in)
					}
				case *ssa.Call:
					if b, ok := x.Call.Value.(*ssa.Builtin); ok && (b.Name() == "delete" || b.Name() == "clear") && len(x.Call.Args) > 0 && rootGlobal(x.Call.Args[0]) == g {
						out = append(out, in)
					}
				}
			}
		}
	}
	return out
}

// rootGlobal follows loads, field/index addressing and conversions back to a global.
func rootGlobal(v ssa.Value) *ssa.Global {
	for i := 0; i < 16; i++ {
		switch x := v.(type) {
		case *ssa.Global:
			return x
		case *ssa.UnOp:
			if x.Op == token.MUL {
				v = x.X
				continue
			}
			return nil
		case *ssa.FieldAddr:
			v = x.X
		case *ssa.IndexAddr:
			v = x.X
		case *ssa.ChangeType:
			v = x.X
		case *ssa.Slice:
			v = x.X
		default:
			return nil
		}
	}
	return nil
}
