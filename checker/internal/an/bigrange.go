package an

import (
	"go/token"
	"go/types"
	"math/big"

	"golang.org/x/tools/go/ssa"
)

// BR is a closed integer interval with arbitrary-precision bounds (type-derived value ranges).
type BR struct{ Lo, Hi *big.Int }

func brInt(lo, hi int64) BR { return BR{big.NewInt(lo), big.NewInt(hi)} }

func (r BR) String() string { return "[" + r.Lo.String() + "," + r.Hi.String() + "]" }

func (r BR) Within(o BR) bool { return r.Lo.Cmp(o.Lo) >= 0 && r.Hi.Cmp(o.Hi) <= 0 }

func (r BR) Union(o BR) BR {
	lo, hi := r.Lo, r.Hi
	if o.Lo.Cmp(lo) < 0 {
		lo = o.Lo
	}
	if o.Hi.Cmp(hi) > 0 {
		hi = o.Hi
	}
	return BR{lo, hi}
}

// TypeBR returns the value range of an integer type (int and uint are 64-bit).
func TypeBR(t types.Type) (BR, bool) {
	b, ok := t.Underlying().(*types.Basic)
	if !ok || b.Info()&types.IsInteger == 0 {
		return BR{}, false
	}
	pow := func(n uint) *big.Int { return new(big.Int).Lsh(big.NewInt(1), n) }
	signed := func(n uint) BR {
		return BR{new(big.Int).Neg(pow(n - 1)), new(big.Int).Sub(pow(n-1), big.NewInt(1))}
	}
	unsigned := func(n uint) BR { return BR{big.NewInt(0), new(big.Int).Sub(pow(n), big.NewInt(1))} }
	switch b.Kind() {
	case types.Int, types.Int64, types.UntypedInt:
		return signed(64), true
	case types.Int32, types.UntypedRune:
		return signed(32), true
	case types.Int16:
		return signed(16), true
	case types.Int8:
		return signed(8), true
	case types.Uint, types.Uint64, types.Uintptr:
		return unsigned(64), true
	case types.Uint32:
		return unsigned(32), true
	case types.Uint16:
		return unsigned(16), true
	case types.Uint8:
		return unsigned(8), true
	}
	return BR{}, false
}

// RangeOf bounds an integer SSA value from types, constants and arithmetic on bounded operands
// (no path conditions). The result is always within the value's type range; Overflow reports
// separately whether an operation can leave that range.
func RangeOf(v ssa.Value) BR { return rangeOf(v, 0) }

func rangeOf(v ssa.Value, depth int) BR {
	tr, ok := TypeBR(v.Type())
	if !ok {
		return brInt(0, 0)
	}
	if depth > 12 {
		return tr
	}
	clamp := func(r BR) BR {
		if r.Within(tr) {
			return r
		}
		return tr
	}
	switch x := v.(type) {
	case *ssa.Const:
		if x.Value != nil {
			if bi, ok := constBig(x); ok {
				return BR{bi, bi}
			}
		}
		return brInt(0, 0)
	case *ssa.Convert:
		if _, ok := TypeBR(x.X.Type()); ok {
			return clamp(rangeOf(x.X, depth+1))
		}
	case *ssa.ChangeType:
		return clamp(rangeOf(x.X, depth+1))
	case *ssa.BinOp:
		if r, ok := exactBinOp(x, depth); ok {
			return clamp(r)
		}
	case *ssa.Call:
		if bi, ok := x.Call.Value.(*ssa.Builtin); ok && (bi.Name() == "len" || bi.Name() == "cap") {
			return BR{big.NewInt(0), tr.Hi}
		}
		// a library accessor that returns a narrower value converted up
		if callee := x.Call.StaticCallee(); callee != nil && InLib(callee) && len(callee.Blocks) > 0 && callee.Signature.Results().Len() == 1 {
			var u *BR
			for _, ret := range Returns(callee) {
				r := rangeOf(ret.Results[0], depth+1)
				if u == nil {
					u = &r
				} else {
					w := u.Union(r)
					u = &w
				}
			}
			if u != nil {
				return clamp(*u)
			}
		}
	case *ssa.Phi:
		var u *BR
		for _, e := range x.Edges {
			if e == ssa.Value(x) {
				continue
			}
			if _, isPhi := e.(*ssa.Phi); isPhi {
				return tr
			}
			if bo, ok := e.(*ssa.BinOp); ok && (bo.X == ssa.Value(x) || bo.Y == ssa.Value(x)) {
				return tr // loop-carried
			}
			r := rangeOf(e, depth+1)
			if u == nil {
				u = &r
			} else {
				w := u.Union(r)
				u = &w
			}
		}
		if u != nil {
			return clamp(*u)
		}
	}
	return tr
}

func constBig(c *ssa.Const) (*big.Int, bool) {
	s := c.Value.ExactString()
	bi, ok := new(big.Int).SetString(s, 10)
	return bi, ok
}

// exactBinOp computes the mathematically exact range of an arithmetic operation on bounded operands.
func exactBinOp(x *ssa.BinOp, depth int) (BR, bool) {
	a, b := rangeOf(x.X, depth+1), rangeOf(x.Y, depth+1)
	switch x.Op {
	case token.ADD:
		return BR{new(big.Int).Add(a.Lo, b.Lo), new(big.Int).Add(a.Hi, b.Hi)}, true
	case token.SUB:
		return BR{new(big.Int).Sub(a.Lo, b.Hi), new(big.Int).Sub(a.Hi, b.Lo)}, true
	case token.MUL:
		c := []*big.Int{new(big.Int).Mul(a.Lo, b.Lo), new(big.Int).Mul(a.Lo, b.Hi), new(big.Int).Mul(a.Hi, b.Lo), new(big.Int).Mul(a.Hi, b.Hi)}
		lo, hi := c[0], c[0]
		for _, v := range c[1:] {
			if v.Cmp(lo) < 0 {
				lo = v
			}
			if v.Cmp(hi) > 0 {
				hi = v
			}
		}
		return BR{lo, hi}, true
	case token.QUO:
		if b.Lo.Sign() > 0 {
			c := []*big.Int{new(big.Int).Quo(a.Lo, b.Lo), new(big.Int).Quo(a.Lo, b.Hi), new(big.Int).Quo(a.Hi, b.Lo), new(big.Int).Quo(a.Hi, b.Hi)}
			lo, hi := c[0], c[0]
			for _, v := range c[1:] {
				if v.Cmp(lo) < 0 {
					lo = v
				}
				if v.Cmp(hi) > 0 {
					hi = v
				}
			}
			return BR{lo, hi}, true
		}
	case token.REM:
		if b.Lo.Sign() > 0 {
			m := new(big.Int).Sub(b.Hi, big.NewInt(1))
			lo := big.NewInt(0)
			if a.Lo.Sign() < 0 {
				lo = new(big.Int).Neg(m)
			}
			return BR{lo, m}, true
		}
	case token.AND:
		if b.Lo.Sign() >= 0 {
			return BR{big.NewInt(0), b.Hi}, true
		}
		if a.Lo.Sign() >= 0 {
			return BR{big.NewInt(0), a.Hi}, true
		}
	case token.SHL:
		if b.Lo.Sign() >= 0 && b.Hi.IsInt64() && b.Hi.Int64() < 256 && a.Lo.Sign() >= 0 {
			return BR{new(big.Int).Lsh(a.Lo, uint(b.Lo.Int64())), new(big.Int).Lsh(a.Hi, uint(b.Hi.Int64()))}, true
		}
	case token.SHR:
		if b.Lo.Sign() >= 0 && b.Hi.IsInt64() && b.Hi.Int64() < 256 {
			if a.Lo.Sign() >= 0 {
				return BR{new(big.Int).Rsh(a.Lo, uint(b.Hi.Int64())), new(big.Int).Rsh(a.Hi, uint(b.Lo.Int64()))}, true
			}
			return a, true
		}
	}
	return BR{}, false
}

// Overflow reports whether the arithmetic instruction can leave the range of its result type
// given the type-derived ranges of its operands. exact is the mathematical range.
func Overflow(in ssa.Instruction) (bad bool, exact BR, typ BR) {
	switch x := in.(type) {
	case *ssa.BinOp:
		switch x.Op {
		case token.ADD, token.SUB, token.MUL, token.SHL:
		default:
			return false, BR{}, BR{}
		}
		tr, ok := TypeBR(x.Type())
		if !ok {
			return false, BR{}, BR{}
		}
		r, ok := exactBinOp(x, 0)
		if !ok {
			return true, tr, tr
		}
		return !r.Within(tr), r, tr
	case *ssa.Convert:
		tr, ok := TypeBR(x.Type())
		if !ok {
			return false, BR{}, BR{}
		}
		if _, ok := TypeBR(x.X.Type()); !ok {
			return false, BR{}, BR{}
		}
		r := rangeOf(x.X, 0)
		return !r.Within(tr), r, tr
	}
	return false, BR{}, BR{}
}
