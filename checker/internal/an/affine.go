package an

import (
	"fmt"
	"go/token"
	"sort"
	"strings"

	"golang.org/x/tools/go/ssa"
)

// Engine E10: affine normal form of integer SSA expressions: const + Σ coef·atom, where atoms are
// len(value) or opaque values (parameters, call results), keyed by a rule-supplied name.

type Affine struct {
	C     int64
	Terms map[string]int64
	OK    bool
}

func (a Affine) String() string {
	if !a.OK {
		return "?"
	}
	var keys []string
	for k, v := range a.Terms {
		if v != 0 {
			keys = append(keys, k)
		}
	}
	sort.Strings(keys)
	var parts []string
	for _, k := range keys {
		c := a.Terms[k]
		switch c {
		case 1:
			parts = append(parts, k)
		case -1:
			parts = append(parts, "-"+k)
		default:
			parts = append(parts, fmt.Sprintf("%d*%s", c, k))
		}
	}
	if a.C != 0 || len(parts) == 0 {
		parts = append(parts, fmt.Sprint(a.C))
	}
	return strings.ReplaceAll(strings.Join(parts, "+"), "+-", "-")
}

func (a Affine) Equal(b Affine) bool { return a.OK && b.OK && a.String() == b.String() }

func affConst(c int64) Affine { return Affine{C: c, Terms: map[string]int64{}, OK: true} }

func affAdd(a, b Affine, sign int64) Affine {
	if !a.OK || !b.OK {
		return Affine{}
	}
	r := Affine{C: a.C + sign*b.C, Terms: map[string]int64{}, OK: true}
	for k, v := range a.Terms {
		r.Terms[k] += v
	}
	for k, v := range b.Terms {
		r.Terms[k] += sign * v
	}
	return r
}

// AffineOf normalises v. atom names an opaque value (return "" to refuse).
func AffineOf(v ssa.Value, atom func(ssa.Value) string) Affine {
	return affineOf(v, atom, 0)
}

func affineOf(v ssa.Value, atom func(ssa.Value) string, depth int) Affine {
	if depth > 16 {
		return Affine{}
	}
	if v == nil {
		return Affine{}
	}
	switch x := v.(type) {
	case *ssa.Const:
		if x.Value != nil {
			return affConst(x.Int64())
		}
	case *ssa.Convert:
		if isIntT(x.X.Type()) && isIntT(x.Type()) {
			return affineOf(x.X, atom, depth+1)
		}
	case *ssa.ChangeType:
		return affineOf(x.X, atom, depth+1)
	case *ssa.BinOp:
		switch x.Op {
		case token.ADD:
			return affAdd(affineOf(x.X, atom, depth+1), affineOf(x.Y, atom, depth+1), 1)
		case token.SUB:
			return affAdd(affineOf(x.X, atom, depth+1), affineOf(x.Y, atom, depth+1), -1)
		case token.MUL:
			a, b := affineOf(x.X, atom, depth+1), affineOf(x.Y, atom, depth+1)
			if a.OK && b.OK {
				if len(nonzero(a.Terms)) == 0 {
					a, b = b, a
				}
				if len(nonzero(b.Terms)) == 0 {
					r := Affine{C: a.C * b.C, Terms: map[string]int64{}, OK: true}
					for k, v := range a.Terms {
						r.Terms[k] = v * b.C
					}
					return r
				}
			}
			return Affine{}
		}
	case *ssa.Call:
		if bi, ok := x.Call.Value.(*ssa.Builtin); ok && bi.Name() == "len" {
			return lenAtom(x.Call.Args[0], atom, depth+1)
		}
	}
	if name := atom(v); name != "" {
		if strings.HasPrefix(name, "=") {
			return DecodeAffine(name)
		}
		return Affine{Terms: map[string]int64{name: 1}, OK: true}
	}
	return Affine{}
}

// Encode renders an affine form so that an atom callback can return it as a substitution
// (the callback returns "=" + encoding instead of an atom name).
func (a Affine) Encode() string {
	if !a.OK {
		return ""
	}
	var parts []string
	parts = append(parts, fmt.Sprint(a.C))
	var keys []string
	for k, v := range a.Terms {
		if v != 0 {
			keys = append(keys, k)
		}
	}
	sort.Strings(keys)
	for _, k := range keys {
		parts = append(parts, fmt.Sprintf("%s:%d", k, a.Terms[k]))
	}
	return "=" + strings.Join(parts, ";")
}

// DecodeAffine parses Encode's output.
func DecodeAffine(s string) Affine {
	s = strings.TrimPrefix(s, "=")
	parts := strings.Split(s, ";")
	a := Affine{Terms: map[string]int64{}, OK: true}
	for i, p := range parts {
		if i == 0 {
			if _, err := fmt.Sscan(p, &a.C); err != nil {
				return Affine{}
			}
			continue
		}
		j := strings.LastIndex(p, ":")
		if j < 0 {
			return Affine{}
		}
		var c int64
		if _, err := fmt.Sscan(p[j+1:], &c); err != nil {
			return Affine{}
		}
		a.Terms[p[:j]] += c
	}
	return a
}

func lenAtom(v ssa.Value, atom func(ssa.Value) string, depth int) Affine {
	if sl, ok := v.(*ssa.Slice); ok {
		_, lo, hi := SliceRange(sl, atom)
		return affAdd(hi, lo, -1)
	}
	if name := atom(v); name != "" {
		return Affine{Terms: map[string]int64{"len(" + name + ")": 1}, OK: true}
	}
	return Affine{}
}

func nonzero(m map[string]int64) []string {
	var s []string
	for k, v := range m {
		if v != 0 {
			s = append(s, k)
		}
	}
	return s
}

func isIntT(t interface{ String() string }) bool {
	switch t.String() {
	case "int", "int8", "int16", "int32", "int64", "uint", "uint8", "uint16", "uint32", "uint64", "uintptr", "byte":
		return true
	}
	return false
}

// SliceRange returns the absolute [lo,hi) of a Slice instruction relative to the root value it
// (transitively) slices, as affine forms, together with that root.
func SliceRange(s *ssa.Slice, atom func(ssa.Value) string) (root ssa.Value, lo, hi Affine) {
	baseLo := affConst(0)
	var baseHi Affine
	root = s.X
	if inner, ok := s.X.(*ssa.Slice); ok {
		var ilo, ihi Affine
		root, ilo, ihi = SliceRange(inner, atom)
		baseLo, baseHi = ilo, ihi
	} else {
		baseHi = lenAtom(s.X, atom, 0)
	}
	lo = baseLo
	if s.Low != nil {
		lo = affAdd(baseLo, affineOf(s.Low, atom, 0), 1)
	}
	hi = baseHi
	if s.High != nil {
		hi = affAdd(baseLo, affineOf(s.High, atom, 0), 1)
	}
	return root, lo, hi
}

// StructFieldAffine evaluates field `field` of the struct value sv as an affine form when the
// struct is an immutable carrier of integers: the result of a library function that builds it with
// a composite literal (possibly through another such function), a by-value parameter that every
// caller supplies with such a value, or a local composite. Parameters of the building functions
// are replaced by the arguments of the very call that built the value (context-sensitive), other
// atoms are resolved by atom. callers lists the static call sites per function.
func StructFieldAffine(sv ssa.Value, field int, atom func(ssa.Value) string, callers map[*ssa.Function][]*ssa.Call, depth int) Affine {
	if depth > 6 || sv == nil {
		return Affine{}
	}
	agree := func(list []Affine) Affine {
		if len(list) == 0 {
			return Affine{}
		}
		for _, a := range list {
			if !a.OK || !a.Equal(list[0]) {
				return Affine{}
			}
		}
		return list[0]
	}
	switch s := sv.(type) {
	case *ssa.Call:
		callee := s.Call.StaticCallee()
		if callee == nil || !InLib(callee) || len(callee.Blocks) == 0 {
			return Affine{}
		}
		// atoms of the callee's frame: its parameters are the arguments of this call
		ctxAtom := func(v ssa.Value) string {
			if prm, ok := v.(*ssa.Parameter); ok && prm.Parent() == callee {
				for i, q := range callee.Params {
					if q == prm && i < len(s.Call.Args) {
						a := affineOf(s.Call.Args[i], atom, depth+1)
						if a.OK {
							return a.Encode()
						}
						return ""
					}
				}
			}
			return atom(v)
		}
		var list []Affine
		for _, ret := range Returns(callee) {
			if len(ret.Results) != 1 {
				return Affine{}
			}
			list = append(list, StructFieldAffine(ret.Results[0], field, ctxAtom, callers, depth+1))
		}
		return agree(list)
	case *ssa.Parameter:
		fn := s.Parent()
		idx := -1
		for i, q := range fn.Params {
			if q == s {
				idx = i
			}
		}
		cs := callers[fn]
		if idx < 0 || len(cs) == 0 {
			return Affine{}
		}
		var list []Affine
		for _, c := range cs {
			if idx >= len(c.Call.Args) {
				return Affine{}
			}
			list = append(list, StructFieldAffine(c.Call.Args[idx], field, atom, callers, depth+1))
		}
		return agree(list)
	case *ssa.UnOp:
		if s.Op != token.MUL {
			return Affine{}
		}
		al, ok := s.X.(*ssa.Alloc)
		if !ok {
			return Affine{}
		}
		return StructFieldOfAlloc(al, field, atom, callers, depth)
	}
	return Affine{}
}

// StructFieldOfAlloc: the same for a struct held in a local variable (al): the field is written
// once through its address, or the whole struct is stored once (from a call, a parameter or another
// local), or the field is left at zero.
func StructFieldOfAlloc(al *ssa.Alloc, field int, atom func(ssa.Value) string, callers map[*ssa.Function][]*ssa.Call, depth int) Affine {
	if depth > 6 || al.Referrers() == nil || !LocalOnlyAlloc(al) {
		return Affine{}
	}
	{
		var vals []ssa.Value
		var whole []ssa.Value
		for _, ref := range *al.Referrers() {
			switch r := ref.(type) {
			case *ssa.FieldAddr:
				if r.Field != field || r.Referrers() == nil {
					continue
				}
				for _, r2 := range *r.Referrers() {
					if st, ok := r2.(*ssa.Store); ok && st.Addr == ssa.Value(r) {
						vals = append(vals, st.Val)
					}
				}
			case *ssa.Store:
				if r.Addr == ssa.Value(al) {
					whole = append(whole, r.Val)
				}
			}
		}
		switch {
		case len(vals) == 1 && len(whole) == 0:
			return affineOf(vals[0], atom, depth+1)
		case len(vals) == 0 && len(whole) == 1:
			return StructFieldAffine(whole[0], field, atom, callers, depth+1)
		case len(vals) == 0 && len(whole) == 0:
			return affConst(0) // field left at its zero value by the composite literal
		}
	}
	return Affine{}
}
