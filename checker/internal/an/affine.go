package an

import (
	"fmt"
	"go/token"
	"sort"
	"strings"

	"golang.org/x/tools/go/ssa"
)

// Engine E10: affine normal form of integer SSA expressions: const + Σ coef·atom, where atoms are
// len(value) or opaque values (parameters, call results), keyed by a rule-supplied name.

type Affine struct {
	C     int64
	Terms map[string]int64
	OK    bool
}

func (a Affine) String() string {
	if !a.OK {
		return "?"
	}
	var keys []string
	for k, v := range a.Terms {
		if v != 0 {
			keys = append(keys, k)
		}
	}
	sort.Strings(keys)
	var parts []string
	for _, k := range keys {
		c := a.Terms[k]
		switch c {
		case 1:
			parts = append(parts, k)
		case -1:
			parts = append(parts, "-"+k)
		default:
			parts = append(parts, fmt.Sprintf("%d*%s", c, k))
		}
	}
	if a.C != 0 || len(parts) == 0 {
		parts = append(parts, fmt.Sprint(a.C))
	}
	return strings.ReplaceAll(strings.Join(parts, "+"), "+-", "-")
}

func (a Affine) Equal(b Affine) bool { return a.OK && b.OK && a.String() == b.String() }

func affConst(c int64) Affine { return Affine{C: c, Terms: map[string]int64{}, OK: true} }

func affAdd(a, b Affine, sign int64) Affine {
	if !a.OK || !b.OK {
		return Affine{}
	}
	r := Affine{C: a.C + sign*b.C, Terms: map[string]int64{}, OK: true}
	for k, v := range a.Terms {
		r.Terms[k] += v
	}
	for k, v := range b.Terms {
		r.Terms[k] += sign * v
	}
	return r
}

// AffineOf normalises v. atom names an opaque value (return "" to refuse).
func AffineOf(v ssa.Value, atom func(ssa.Value) string) Affine {
	return affineOf(v, atom, 0)
}

func affineOf(v ssa.Value, atom func(ssa.Value) string, depth int) Affine {
	if depth > 16 {
		return Affine{}
	}
	if v == nil {
		return Affine{}
	}
	switch x := v.(type) {
	case *ssa.Const:
		if x.Value != nil {
			return affConst(x.Int64())
		}
	case *ssa.Convert:
		if isIntT(x.X.Type()) && isIntT(x.Type()) {
			return affineOf(x.X, atom, depth+1)
		}
	case *ssa.ChangeType:
		return affineOf(x.X, atom, depth+1)
	case *ssa.BinOp:
		switch x.Op {
		case token.ADD:
			return affAdd(affineOf(x.X, atom, depth+1), affineOf(x.Y, atom, depth+1), 1)
		case token.SUB:
			return affAdd(affineOf(x.X, atom, depth+1), affineOf(x.Y, atom, depth+1), -1)
		case token.MUL:
			a, b := affineOf(x.X, atom, depth+1), affineOf(x.Y, atom, depth+1)
			if a.OK && b.OK {
				if len(nonzero(a.Terms)) == 0 {
					a, b = b, a
				}
				if len(nonzero(b.Terms)) == 0 {
					r := Affine{C: a.C * b.C, Terms: map[string]int64{}, OK: true}
					for k, v := range a.Terms {
						r.Terms[k] = v * b.C
					}
					return r
				}
			}
			return Affine{}
		}
	case *ssa.Call:
		if bi, ok := x.Call.Value.(*ssa.Builtin); ok && bi.Name() == "len" {
			return lenAtom(x.Call.Args[0], atom, depth+1)
		}
	}
	if name := atom(v); name != "" {
		if strings.HasPrefix(name, "=") {
			return DecodeAffine(name)
		}
		return Affine{Terms: map[string]int64{name: 1}, OK: true}
	}
	return Affine{}
}

// Encode renders an affine form so that an atom callback can return it as a substitution
// (the callback returns "=" + encoding instead of an atom name).
func (a Affine) Encode() string {
	if !a.OK {
		return ""
	}
	var parts []string
	parts = append(parts, fmt.Sprint(a.C))
	var keys []string
	for k, v := range a.Terms {
		if v != 0 {
			keys = append(keys, k)
		}
	}
	sort.Strings(keys)
	for _, k := range keys {
		parts = append(parts, fmt.Sprintf("%s:%d", k, a.Terms[k]))
	}
	return "=" + strings.Join(parts, ";")
}

// DecodeAffine parses Encode's output.
func DecodeAffine(s string) Affine {
	s = strings.TrimPrefix(s, "=")
	parts := strings.Split(s, ";")
	a := Affine{Terms: map[string]int64{}, OK: true}
	for i, p := range parts {
		if i == 0 {
			if _, err := fmt.Sscan(p, &a.C); err != nil {
				return Affine{}
			}
			continue
		}
		j := strings.LastIndex(p, ":")
		if j < 0 {
			return Affine{}
		}
		var c int64
		if _, err := fmt.Sscan(p[j+1:], &c); err != nil {
			return Affine{}
		}
		a.Terms[p[:j]] += c
	}
	return a
}

func lenAtom(v ssa.Value, atom func(ssa.Value) string, depth int) Affine {
	if sl, ok := v.(*ssa.Slice); ok {
		_, lo, hi := SliceRange(sl, atom)
		return affAdd(hi, lo, -1)
	}
	if name := atom(v); name != "" {
		return Affine{Terms: map[string]int64{"len(" + name + ")": 1}, OK: true}
	}
	return Affine{}
}

func nonzero(m map[string]int64) []string {
	var s []string
	for k, v := range m {
		if v != 0 {
			s = append(s, k)
		}
	}
	return s
}

func isIntT(t interface{ String() string }) bool {
	switch t.String() {
	case "int", "int8", "int16", "int32", "int64", "uint", "uint8", "uint16", "uint32", "uint64", "uintptr", "byte":
		return true
	}
	return false
}

// SliceRange returns the absolute [lo,hi) of a Slice instruction relative to the root value it
// (transitively) slices, as affine forms, together with that root.
func SliceRange(s *ssa.Slice, atom func(ssa.Value) string) (root ssa.Value, lo, hi Affine) {
	baseLo := affConst(0)
	var baseHi Affine
	root = s.X
	if inner, ok := s.X.(*ssa.Slice); ok {
		var ilo, ihi Affine
		root, ilo, ihi = SliceRange(inner, atom)
		baseLo, baseHi = ilo, ihi
	} else {
		baseHi = lenAtom(s.X, atom, 0)
	}
	lo = baseLo
	if s.Low != nil {
		lo = affAdd(baseLo, affineOf(s.Low, atom, 0), 1)
	}
	hi = baseHi
	if s.High != nil {
		hi = affAdd(baseLo, affineOf(s.High, atom, 0), 1)
	}
	return root, lo, hi
}
