package an

import (
	"go/token"

	"golang.org/x/tools/go/ssa"
)

// Canon resolves loads from local cells that have exactly one store in the function (through
// field addressing and whole-struct copies) to the stored SSA value. It is flow-insensitive and
// therefore only trusted for cells with a single store; otherwise v is returned unchanged.
func Canon(v ssa.Value) ssa.Value {
	for i := 0; i < 12; i++ {
		switch x := v.(type) {
		case *ssa.UnOp:
			if x.Op != token.MUL {
				return v
			}
			if w, ok := storedAt(x.X, 0); ok {
				v = w
				continue
			}
			return v
		case *ssa.ChangeType:
			v = x.X
			continue
		default:
			return v
		}
	}
	return v
}

// storedAt returns the unique value stored at address addr.
func storedAt(addr ssa.Value, depth int) (ssa.Value, bool) {
	if depth > 6 {
		return nil, false
	}
	switch a := addr.(type) {
	case *ssa.Alloc:
		var val ssa.Value
		n := 0
		for _, ref := range *a.Referrers() {
			switch r := ref.(type) {
			case *ssa.Store:
				if r.Addr == ssa.Value(a) {
					n++
					val = r.Val
				}
			case *ssa.FieldAddr, *ssa.IndexAddr:
				// partial writes through sub-addresses make the whole value unknown
				if hasStore(r.(ssa.Value)) {
					return nil, false
				}
			}
		}
		if n == 1 {
			return val, true
		}
		return nil, false
	case *ssa.FieldAddr:
		base, ok := a.X.(*ssa.Alloc)
		if !ok {
			return nil, false
		}
		return fieldValue(base, a.Field, depth)
	}
	return nil, false
}

func hasStore(addr ssa.Value) bool {
	refs := addr.Referrers()
	if refs == nil {
		return false
	}
	for _, r := range *refs {
		if st, ok := r.(*ssa.Store); ok && st.Addr == addr {
			return true
		}
	}
	return false
}

// fieldValue: unique value of field f of the struct cell base.
func fieldValue(base *ssa.Alloc, f int, depth int) (ssa.Value, bool) {
	var vals []ssa.Value
	var wholes []ssa.Value
	for _, ref := range *base.Referrers() {
		switch r := ref.(type) {
		case *ssa.FieldAddr:
			if r.Field != f {
				continue
			}
			for _, rr := range *r.Referrers() {
				if st, ok := rr.(*ssa.Store); ok && st.Addr == ssa.Value(r) {
					vals = append(vals, st.Val)
				}
			}
		case *ssa.Store:
			if r.Addr == ssa.Value(base) {
				wholes = append(wholes, r.Val)
			}
		}
	}
	if len(vals)+len(wholes) != 1 {
		return nil, false
	}
	if len(vals) == 1 {
		return vals[0], true
	}
	w := wholes[0]
	if u, ok := w.(*ssa.UnOp); ok && u.Op == token.MUL {
		if b2, ok := u.X.(*ssa.Alloc); ok {
			return fieldValue(b2, f, depth+1)
		}
	}
	return nil, false
}
