// Package an holds the shared analysis engines (DESIGN.md §4).
package an

import (
	"fmt"
	"go/ast"
	"go/token"
	"go/types"
	"os"
	"path/filepath"
	"sort"
	"strings"

	"golang.org/x/tools/go/callgraph"
	"golang.org/x/tools/go/callgraph/cha"
	"golang.org/x/tools/go/callgraph/vta"
	"golang.org/x/tools/go/packages"
	"golang.org/x/tools/go/ssa"
	"golang.org/x/tools/go/ssa/ssautil"
)

// ModPath is the module analysed.
const ModPath = "github.com/go-i2p/common"

// Prog is the loaded, type-checked program in SSA form (engine E1).
type Prog struct {
	Dir      string
	Fset     *token.FileSet
	Initial  []*packages.Package
	ByPath   map[string]*packages.Package // every package, transitively
	SSA      *ssa.Program
	All      map[*ssa.Function]bool
	RepoFns  []*ssa.Function          // functions (incl. anonymous) whose package is in the module, non-fuzz
	LibPkgs  []*packages.Package      // module packages excluding fuzz/* and the root
	cg       *callgraph.Graph
	cgCHA    *callgraph.Graph
	fnByObj  map[*types.Func]*ssa.Function
	declByFn map[*ssa.Function]*ast.FuncDecl
}

// Load loads ./... of dir with full syntax and builds SSA for the whole program.
func Load(dir string, env []string) (*Prog, error) {
	cfg := &packages.Config{
		Mode:  packages.LoadAllSyntax,
		Dir:   dir,
		Tests: false,
		Env:   append(os.Environ(), env...),
	}
	pkgs, err := packages.Load(cfg, "./...")
	if err != nil {
		return nil, fmt.Errorf("load: %w", err)
	}
	if len(pkgs) == 0 {
		return nil, fmt.Errorf("load: no packages in %s", dir)
	}
	p := &Prog{Dir: dir, Initial: pkgs, ByPath: map[string]*packages.Package{}}
	var errs []string
	packages.Visit(pkgs, nil, func(pk *packages.Package) {
		p.ByPath[pk.PkgPath] = pk
		for _, e := range pk.Errors {
			errs = append(errs, pk.PkgPath+": "+e.Error())
		}
	})
	if len(errs) > 0 {
		sort.Strings(errs)
		if len(errs) > 10 {
			errs = errs[:10]
		}
		return nil, fmt.Errorf("load: type/parse errors (the tree must compile):\n  %s", strings.Join(errs, "\n  "))
	}
	p.Fset = pkgs[0].Fset
	prog, _ := ssautil.AllPackages(pkgs, ssa.InstantiateGenerics)
	prog.Build()
	p.SSA = prog
	p.All = ssautil.AllFunctions(prog)
	p.fnByObj = map[*types.Func]*ssa.Function{}
	for fn := range p.All {
		if fn.Pkg == nil && fn.Parent() == nil && fn.Object() == nil {
			continue
		}
		if InLib(fn) {
			p.RepoFns = append(p.RepoFns, fn)
		}
		if o, ok := fn.Object().(*types.Func); ok && fn.Synthetic == "" {
			p.fnByObj[o] = fn
		}
	}
	sort.Slice(p.RepoFns, func(i, j int) bool { return FnKey(p.RepoFns[i]) < FnKey(p.RepoFns[j]) })
	for _, pk := range pkgs {
		if IsLibPath(pk.PkgPath) {
			p.LibPkgs = append(p.LibPkgs, pk)
		}
	}
	sort.Slice(p.LibPkgs, func(i, j int) bool { return p.LibPkgs[i].PkgPath < p.LibPkgs[j].PkgPath })
	return p, nil
}

// IsLibPath reports whether the import path is a library package of the module (not fuzz/*, not the root).
func IsLibPath(path string) bool {
	if !strings.HasPrefix(path, ModPath+"/") {
		return false
	}
	rest := strings.TrimPrefix(path, ModPath+"/")
	return !strings.HasPrefix(rest, "fuzz/") && rest != "fuzz"
}

// IsRepoPath reports whether the import path belongs to the module at all.
func IsRepoPath(path string) bool {
	return path == ModPath || strings.HasPrefix(path, ModPath+"/")
}

// FnPkgPath returns the package path of fn (through its parent for closures, through the
// receiver for synthetic wrappers).
func FnPkgPath(fn *ssa.Function) string {
	for f := fn; f != nil; f = f.Parent() {
		if f.Pkg != nil {
			return f.Pkg.Pkg.Path()
		}
		if o := f.Object(); o != nil && o.Pkg() != nil {
			return o.Pkg().Path()
		}
		if f.Origin() != nil && f.Origin() != f {
			return FnPkgPath(f.Origin())
		}
	}
	return ""
}

// InLib reports whether fn belongs to a library package of the module.
func InLib(fn *ssa.Function) bool { return IsLibPath(FnPkgPath(fn)) }

// ShortPkg strips the module prefix.
func ShortPkg(path string) string {
	if path == ModPath {
		return "."
	}
	return strings.TrimPrefix(path, ModPath+"/")
}

// FnKey is a stable name for a function: shortpkg.(Recv).Name or shortpkg.Name, $n for closures.
func FnKey(fn *ssa.Function) string {
	if fn == nil {
		return "<nil>"
	}
	s := fn.RelString(nil)
	s = strings.ReplaceAll(s, ModPath+"/", "")
	return s
}

// Pos formats a position relative to the repo directory.
func (p *Prog) Pos(pos token.Pos) string {
	if !pos.IsValid() {
		return "-"
	}
	pp := p.Fset.Position(pos)
	f := pp.Filename
	if rel, err := filepath.Rel(p.Dir, f); err == nil && !strings.HasPrefix(rel, "..") {
		f = rel
	} else if i := strings.Index(f, "/pkg/mod/"); i >= 0 {
		f = f[i+len("/pkg/mod/"):]
	}
	return fmt.Sprintf("%s:%d", f, pp.Line)
}

// FnPos is the position of the function declaration.
func (p *Prog) FnPos(fn *ssa.Function) string {
	for f := fn; f != nil; f = f.Parent() {
		if f.Pos().IsValid() {
			return p.Pos(f.Pos())
		}
	}
	return "-"
}

// Pkg returns the SSA package for a short name such as "data" or a full path.
func (p *Prog) Pkg(name string) *ssa.Package {
	path := name
	if !strings.Contains(name, ".") {
		path = ModPath + "/" + name
	}
	pk := p.ByPath[path]
	if pk == nil || pk.Types == nil {
		return nil
	}
	return p.SSA.Package(pk.Types)
}

// Func looks up a package-level function "pkg.Name" or method "pkg.(T).Name" / "pkg.(*T).Name".
func (p *Prog) Func(spec string) *ssa.Function {
	i := strings.Index(spec, ".")
	if i < 0 {
		return nil
	}
	pk := p.Pkg(spec[:i])
	if pk == nil {
		return nil
	}
	rest := spec[i+1:]
	if strings.HasPrefix(rest, "(") {
		j := strings.Index(rest, ")")
		if j < 0 {
			return nil
		}
		tn := rest[1:j]
		ptr := strings.HasPrefix(tn, "*")
		tn = strings.TrimPrefix(tn, "*")
		mn := strings.TrimPrefix(rest[j+1:], ".")
		obj := pk.Pkg.Scope().Lookup(tn)
		if obj == nil {
			return nil
		}
		var T types.Type = obj.Type()
		if ptr {
			T = types.NewPointer(T)
		}
		sel := p.SSA.MethodSets.MethodSet(T).Lookup(pk.Pkg, mn)
		if sel == nil {
			// try pointer method set when asked for value
			sel = p.SSA.MethodSets.MethodSet(types.NewPointer(obj.Type())).Lookup(pk.Pkg, mn)
			if sel == nil {
				return nil
			}
		}
		return p.SSA.MethodValue(sel)
	}
	return pk.Func(rest)
}

// FuncOf returns the SSA function of a types.Func declared in source.
func (p *Prog) FuncOf(o *types.Func) *ssa.Function {
	if o == nil {
		return nil
	}
	if f := p.fnByObj[o]; f != nil {
		return f
	}
	return p.SSA.FuncValue(o)
}

// CG returns the VTA call graph (built on first use).
func (p *Prog) CG() *callgraph.Graph {
	if p.cg == nil {
		p.cg = vta.CallGraph(p.All, cha.CallGraph(p.SSA))
	}
	return p.cg
}

// CHA returns the CHA call graph (a superset of VTA), built on first use.
func (p *Prog) CHA() *callgraph.Graph {
	if p.cgCHA == nil {
		p.cgCHA = cha.CallGraph(p.SSA)
	}
	return p.cgCHA
}

// Callees returns the possible callees of a call instruction: the static callee, or the VTA targets.
func (p *Prog) Callees(call ssa.CallInstruction) []*ssa.Function {
	if f := call.Common().StaticCallee(); f != nil {
		return []*ssa.Function{f}
	}
	n := p.CG().Nodes[call.Parent()]
	if n == nil {
		return nil
	}
	var out []*ssa.Function
	seen := map[*ssa.Function]bool{}
	for _, e := range n.Out {
		if e.Site == call && !seen[e.Callee.Func] {
			seen[e.Callee.Func] = true
			out = append(out, e.Callee.Func)
		}
	}
	sort.Slice(out, func(i, j int) bool { return FnKey(out[i]) < FnKey(out[j]) })
	return out
}

// Reachable returns every function reachable from the roots over the given graph, following
// static callees, call-graph edges, and closures created inside reached functions.
func (p *Prog) Reachable(g *callgraph.Graph, roots []*ssa.Function, follow func(*ssa.Function) bool) map[*ssa.Function][]*ssa.Function {
	// result maps function -> one path (as predecessor chain) for diagnostics
	pred := map[*ssa.Function]*ssa.Function{}
	seen := map[*ssa.Function]bool{}
	var work []*ssa.Function
	push := func(f, from *ssa.Function) {
		if f == nil || seen[f] {
			return
		}
		seen[f] = true
		pred[f] = from
		work = append(work, f)
	}
	for _, r := range roots {
		push(r, nil)
	}
	for len(work) > 0 {
		f := work[len(work)-1]
		work = work[:len(work)-1]
		if follow != nil && !follow(f) {
			continue
		}
		if n := g.Nodes[f]; n != nil {
			for _, e := range n.Out {
				push(e.Callee.Func, f)
			}
		}
		for _, b := range f.Blocks {
			for _, in := range b.Instrs {
				if mc, ok := in.(*ssa.MakeClosure); ok {
					if cf, ok := mc.Fn.(*ssa.Function); ok {
						push(cf, f)
					}
				}
			}
		}
		for _, af := range f.AnonFuncs {
			push(af, f)
		}
	}
	out := map[*ssa.Function][]*ssa.Function{}
	for f := range seen {
		var path []*ssa.Function
		for x := f; x != nil; x = pred[x] {
			path = append([]*ssa.Function{x}, path...)
		}
		out[f] = path
	}
	return out
}

// PathString renders a call path.
func PathString(path []*ssa.Function) string {
	var s []string
	for _, f := range path {
		s = append(s, FnKey(f))
	}
	return strings.Join(s, " -> ")
}

// Decl returns the AST declaration of a source function, if any.
func (p *Prog) Decl(fn *ssa.Function) *ast.FuncDecl {
	if d, ok := fn.Syntax().(*ast.FuncDecl); ok {
		return d
	}
	return nil
}

// TypesPkgOf returns the packages.Package that declares fn.
func (p *Prog) PackageOf(fn *ssa.Function) *packages.Package {
	return p.ByPath[FnPkgPath(fn)]
}

// ExportedAPI lists exported package-level functions and exported methods of exported named
// types in library packages.
func (p *Prog) ExportedAPI() []*ssa.Function {
	var out []*ssa.Function
	seen := map[*ssa.Function]bool{}
	for _, pk := range p.LibPkgs {
		sp := p.SSA.Package(pk.Types)
		if sp == nil {
			continue
		}
		scope := pk.Types.Scope()
		for _, name := range scope.Names() {
			obj := scope.Lookup(name)
			if !obj.Exported() {
				continue
			}
			switch o := obj.(type) {
			case *types.Func:
				if f := sp.Func(name); f != nil && !seen[f] {
					seen[f] = true
					out = append(out, f)
				}
			case *types.TypeName:
				if o.IsAlias() {
					continue
				}
				for _, T := range []types.Type{o.Type(), types.NewPointer(o.Type())} {
					ms := p.SSA.MethodSets.MethodSet(T)
					for i := 0; i < ms.Len(); i++ {
						sel := ms.At(i)
						if !sel.Obj().Exported() {
							continue
						}
						f := p.SSA.MethodValue(sel)
						if f != nil && !seen[f] {
							seen[f] = true
							out = append(out, f)
						}
					}
				}
			}
		}
	}
	sort.Slice(out, func(i, j int) bool { return FnKey(out[i]) < FnKey(out[j]) })
	return out
}
