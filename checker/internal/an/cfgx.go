package an

import (
	"go/token"
	"go/types"

	"golang.org/x/tools/go/ssa"
)

// Engine E5: CFG utilities and the shared classification of error results (DESIGN.md §2.6).

type NilClass int

const (
	MaybeNil NilClass = iota
	DefNil
	DefNonNil
)

func (c NilClass) String() string {
	return [...]string{"maybe", "nil", "non-nil"}[c]
}

// Flow caches per-program summaries used by the classification.
type Flow struct {
	P        *Prog
	alwaysNN map[*ssa.Function]int // 0 unknown, 1 computing, 2 always non-nil, 3 not
}

func NewFlow(p *Prog) *Flow { return &Flow{P: p, alwaysNN: map[*ssa.Function]int{}} }

// IsNilConst reports whether v is the nil constant.
func IsNilConst(v ssa.Value) bool {
	c, ok := v.(*ssa.Const)
	return ok && c.Value == nil && isNillable(c.Type())
}

// ErrorCtor reports whether fn always returns a non-nil error (constructor of errors).
func ErrorCtor(fn *ssa.Function) bool {
	if fn == nil {
		return false
	}
	switch FnPkgPath(fn) {
	case "github.com/samber/oops":
		return fn.Name() == "Errorf" || fn.Name() == "New"
	case "errors":
		return fn.Name() == "New"
	case "fmt":
		return fn.Name() == "Errorf"
	}
	return false
}

// ClassAt classifies value v (pointer/interface typed) at the program point "start of block at",
// using nil-tests that dominate the block.
func (f *Flow) ClassAt(v ssa.Value, at *ssa.BasicBlock) NilClass {
	return f.classAt(v, at, 0)
}

func (f *Flow) classAt(v ssa.Value, at *ssa.BasicBlock, depth int) NilClass {
	if depth > 8 {
		return MaybeNil
	}
	if IsNilConst(v) {
		return DefNil
	}
	switch x := v.(type) {
	case *ssa.MakeInterface:
		// an interface holding a pointer may hold a nil pointer but is itself non-nil
		return DefNonNil
	case *ssa.Alloc, *ssa.MakeSlice, *ssa.MakeMap, *ssa.MakeClosure, *ssa.Function, *ssa.Global, *ssa.FieldAddr, *ssa.IndexAddr:
		return DefNonNil
	case *ssa.Call:
		if callee := x.Call.StaticCallee(); callee != nil {
			if ErrorCtor(callee) {
				return DefNonNil
			}
			if callee.Signature.Results().Len() == 1 && f.AlwaysNonNil(callee, 0) {
				return DefNonNil
			}
			// a library helper that hands one of its parameters back unchanged on every return
			// (e.g. "log the failure and return the same error")
			if i, ok := PassThroughParam(callee); ok && i < len(x.Call.Args) {
				if c := f.classAt(x.Call.Args[i], at, depth+1); c != MaybeNil {
					return c
				}
			}
			// oops.Wrapf(err, ...) is non-nil iff err is; classify through the cause
			if FnPkgPath(callee) == "github.com/samber/oops" && (callee.Name() == "Wrapf" || callee.Name() == "Wrap") && len(x.Call.Args) > 0 {
				if c := f.classAt(x.Call.Args[0], at, depth+1); c != MaybeNil {
					return c
				}
			}
		}
	case *ssa.Extract:
		if call, ok := x.Tuple.(*ssa.Call); ok {
			if callee := call.Call.StaticCallee(); callee != nil && f.AlwaysNonNil(callee, x.Index) {
				return DefNonNil
			}
		}
	case *ssa.UnOp:
		if x.Op == token.MUL {
			if g, ok := x.X.(*ssa.Global); ok && f.sentinelError(g) {
				return DefNonNil
			}
		}
	case *ssa.Phi:
		var acc NilClass = -1
		for i, e := range x.Edges {
			pred := x.Block().Preds[i]
			c := f.classOnEdge(e, pred, x.Block(), depth+1)
			if acc == -1 {
				acc = c
			} else if acc != c {
				acc = MaybeNil
			}
		}
		if acc > 0 {
			// a dominating test on the phi itself may still refine it below
			if acc != MaybeNil {
				return acc
			}
		}
	case *ssa.ChangeInterface:
		return f.classAt(x.X, at, depth+1)
	case *ssa.ChangeType:
		return f.classAt(x.X, at, depth+1)
	}
	// dominating nil tests on v
	if at != nil {
		if c := f.domTest(v, at); c != MaybeNil {
			return c
		}
	}
	return MaybeNil
}

// classOnEdge classifies e as seen when control flows pred -> succ.
func (f *Flow) classOnEdge(e ssa.Value, pred, succ *ssa.BasicBlock, depth int) NilClass {
	if c := f.edgeTest(e, pred, succ); c != MaybeNil {
		return c
	}
	return f.classAt(e, pred, depth)
}

// edgeTest: pred ends in If on (e ==/!= nil) and succ is one of its successors.
func (f *Flow) edgeTest(v ssa.Value, pred, succ *ssa.BasicBlock) NilClass {
	if len(pred.Instrs) == 0 {
		return MaybeNil
	}
	iff, ok := pred.Instrs[len(pred.Instrs)-1].(*ssa.If)
	if !ok || pred.Succs[0] == pred.Succs[1] {
		return MaybeNil
	}
	tv, neg, ok := NilTest(iff.Cond)
	if !ok || tv != v {
		return MaybeNil
	}
	// neg: cond is "v != nil"
	onTrue := succ == pred.Succs[0]
	if neg == onTrue {
		return DefNonNil
	}
	return DefNil
}

// NilTest decomposes "x == nil" / "x != nil" (neg=true for !=).
func NilTest(cond ssa.Value) (v ssa.Value, neg bool, ok bool) {
	b, isB := cond.(*ssa.BinOp)
	if !isB || (b.Op != token.EQL && b.Op != token.NEQ) {
		return nil, false, false
	}
	switch {
	case IsNilConst(b.Y):
		v = b.X
	case IsNilConst(b.X):
		v = b.Y
	default:
		return nil, false, false
	}
	return v, b.Op == token.NEQ, true
}

// domTest looks for an If on v that dominates `at` through exactly one of its edges.
func (f *Flow) domTest(v ssa.Value, at *ssa.BasicBlock) NilClass {
	for b := at; b != nil; b = b.Idom() {
		d := b.Idom()
		if d == nil {
			break
		}
		if len(d.Instrs) == 0 {
			continue
		}
		iff, ok := d.Instrs[len(d.Instrs)-1].(*ssa.If)
		if !ok {
			continue
		}
		tv, neg, ok := NilTest(iff.Cond)
		if !ok || tv != v || d.Succs[0] == d.Succs[1] {
			continue
		}
		// which successor leads (exclusively) to b?
		ts, fs := d.Succs[0], d.Succs[1]
		viaT := EdgeDominates(d, ts, at)
		viaF := EdgeDominates(d, fs, at)
		if viaT == viaF {
			continue
		}
		if viaT == neg {
			return DefNonNil
		}
		return DefNil
	}
	return MaybeNil
}

// EdgeDominates reports whether every path from the entry to `at` uses the edge from->to.
// It holds when `to` dominates `at` and `to` has `from` as its only predecessor... or, more
// generally, when `at` is unreachable once the edge is removed.
func EdgeDominates(from, to, at *ssa.BasicBlock) bool {
	fn := from.Parent()
	seen := map[*ssa.BasicBlock]bool{}
	var work []*ssa.BasicBlock
	work = append(work, fn.Blocks[0])
	seen[fn.Blocks[0]] = true
	for len(work) > 0 {
		b := work[len(work)-1]
		work = work[:len(work)-1]
		if b == at {
			return false
		}
		for _, s := range b.Succs {
			if b == from && s == to {
				continue
			}
			if !seen[s] {
				seen[s] = true
				work = append(work, s)
			}
		}
	}
	return true
}

// sentinelError: package-level error variable initialised by an error constructor and never reassigned.
func (f *Flow) sentinelError(g *ssa.Global) bool {
	if !isErrorT(g.Type().(*types.Pointer).Elem()) {
		return false
	}
	initFn := g.Pkg.Func("init")
	if initFn == nil {
		return false
	}
	stores := 0
	good := false
	for _, b := range initFn.Blocks {
		for _, in := range b.Instrs {
			if st, ok := in.(*ssa.Store); ok && st.Addr == ssa.Value(g) {
				stores++
				if f.classAt(st.Val, nil, 0) == DefNonNil {
					good = true
				}
			}
		}
	}
	if stores != 1 || !good {
		return false
	}
	return len(f.P.GlobalWrites(g)) == 0
}

func isErrorT(t types.Type) bool {
	return types.Identical(t, types.Universe.Lookup("error").Type())
}

// AlwaysNonNil reports whether result idx of fn is definitely non-nil on every return.
func (f *Flow) AlwaysNonNil(fn *ssa.Function, idx int) bool {
	if len(fn.Blocks) == 0 {
		return false
	}
	if idx != 0 {
		return false
	}
	switch f.alwaysNN[fn] {
	case 1, 3:
		return false
	case 2:
		return true
	}
	f.alwaysNN[fn] = 1
	ok := true
	n := 0
	for _, b := range fn.Blocks {
		if ret, isRet := b.Instrs[len(b.Instrs)-1].(*ssa.Return); isRet {
			n++
			if idx >= len(ret.Results) || f.classAt(ret.Results[idx], b, 0) != DefNonNil {
				ok = false
			}
		}
	}
	if n == 0 {
		ok = false
	}
	if ok {
		f.alwaysNN[fn] = 2
	} else {
		f.alwaysNN[fn] = 3
	}
	return ok
}

// Returns lists the Return instructions of fn.
func Returns(fn *ssa.Function) []*ssa.Return {
	var out []*ssa.Return
	for _, b := range fn.Blocks {
		if len(b.Instrs) == 0 {
			continue
		}
		if r, ok := b.Instrs[len(b.Instrs)-1].(*ssa.Return); ok {
			out = append(out, r)
		}
	}
	return out
}

// ErrIndex returns the index of the last result when it is of type error or []error, else -1.
func ErrIndex(fn *ssa.Function) int {
	res := fn.Signature.Results()
	if n := res.Len(); n > 0 {
		t := res.At(n - 1).Type()
		if isErrorT(t) {
			return n - 1
		}
		if s, ok := t.Underlying().(*types.Slice); ok && isErrorT(s.Elem()) {
			return n - 1
		}
	}
	return -1
}

// RetClass classifies the error operand of a return (DefNil for functions without error result).
func (f *Flow) RetClass(ret *ssa.Return) NilClass {
	fn := ret.Parent()
	i := ErrIndex(fn)
	if i < 0 {
		return DefNil
	}
	if i >= len(ret.Results) {
		return MaybeNil
	}
	return f.ClassAt(ret.Results[i], ret.Block())
}

// PassThroughParam: fn is a library function with a single result that is, on every return, the
// same parameter (index returned).
func PassThroughParam(fn *ssa.Function) (int, bool) {
	if fn == nil || !InLib(fn) || len(fn.Blocks) == 0 || fn.Signature.Results().Len() != 1 {
		return 0, false
	}
	idx := -1
	for _, ret := range Returns(fn) {
		prm, ok := ret.Results[0].(*ssa.Parameter)
		if !ok {
			return 0, false
		}
		k := -1
		for i, q := range fn.Params {
			if q == prm {
				k = i
			}
		}
		if k < 0 || (idx >= 0 && idx != k) {
			return 0, false
		}
		idx = k
	}
	return idx, idx >= 0
}

// OkReturns lists the returns whose error is not definitely non-nil.
func (f *Flow) OkReturns(fn *ssa.Function) []*ssa.Return {
	var out []*ssa.Return
	for _, r := range Returns(fn) {
		if f.RetClass(r) != DefNonNil {
			out = append(out, r)
		}
	}
	return out
}

// BlocksReachingOK: the blocks of fn from which a return that may succeed is reachable. Code in
// any other block only ever runs on the way to a return whose error is definitely non-nil.
func (f *Flow) BlocksReachingOK(fn *ssa.Function) map[*ssa.BasicBlock]bool {
	out := map[*ssa.BasicBlock]bool{}
	var work []*ssa.BasicBlock
	for _, r := range f.OkReturns(fn) {
		work = append(work, r.Block())
	}
	for len(work) > 0 {
		b := work[len(work)-1]
		work = work[:len(work)-1]
		if out[b] {
			continue
		}
		out[b] = true
		work = append(work, b.Preds...)
	}
	return out
}

// LocalOnlyAlloc: the address of the allocation is used only to read and write it (directly or
// through field/element addresses): it is never passed to a call, stored, captured or returned, so
// nothing outside the function can observe what is stored in it except through loaded values.
func LocalOnlyAlloc(a *ssa.Alloc) bool {
	var ok func(addr ssa.Value, d int) bool
	ok = func(addr ssa.Value, d int) bool {
		if d > 4 || addr.Referrers() == nil {
			return false
		}
		for _, ref := range *addr.Referrers() {
			switch x := ref.(type) {
			case *ssa.DebugRef:
			case *ssa.Store:
				if x.Val == addr {
					return false
				}
			case *ssa.UnOp:
				if x.Op != token.MUL {
					return false
				}
			case *ssa.FieldAddr:
				if !ok(x, d+1) {
					return false
				}
			case *ssa.IndexAddr:
				if !ok(x, d+1) {
					return false
				}
			default:
				return false
			}
		}
		return true
	}
	return ok(a, 0)
}

// Edge is a CFG edge.
type Edge struct{ From, To *ssa.BasicBlock }

// ReachAvoiding reports whether `to` is reachable from `from` (block granularity, from itself
// counts as reached) without using any edge in cut and without entering any block in avoid.
func ReachAvoiding(from, to *ssa.BasicBlock, cut map[Edge]bool, avoid map[*ssa.BasicBlock]bool) bool {
	if avoid[from] {
		return false
	}
	seen := map[*ssa.BasicBlock]bool{from: true}
	work := []*ssa.BasicBlock{from}
	for len(work) > 0 {
		b := work[len(work)-1]
		work = work[:len(work)-1]
		if b == to {
			return true
		}
		for _, s := range b.Succs {
			if cut[Edge{b, s}] || avoid[s] || seen[s] {
				continue
			}
			seen[s] = true
			work = append(work, s)
		}
	}
	return false
}

// CheckedEdges returns, for an error value e (result of a call), the CFG edges taken when e is
// nil at an If that tests e. ok=false when e is never tested.
func CheckedNilEdges(e ssa.Value) (edges []Edge, errEdges []Edge) {
	refs := e.Referrers()
	if refs == nil {
		return
	}
	for _, r := range *refs {
		b, ok := r.(*ssa.BinOp)
		if !ok {
			continue
		}
		tv, neg, ok := NilTest(b)
		if !ok || tv != e {
			continue
		}
		for _, rr := range *b.Referrers() {
			iff, ok := rr.(*ssa.If)
			if !ok {
				continue
			}
			blk := iff.Block()
			if neg { // e != nil: true = error, false = nil
				edges = append(edges, Edge{blk, blk.Succs[1]})
				errEdges = append(errEdges, Edge{blk, blk.Succs[0]})
			} else {
				edges = append(edges, Edge{blk, blk.Succs[0]})
				errEdges = append(errEdges, Edge{blk, blk.Succs[1]})
			}
		}
	}
	return
}

// InstrIndex returns the index of in within its block.
func InstrIndex(in ssa.Instruction) int {
	for i, x := range in.Block().Instrs {
		if x == in {
			return i
		}
	}
	return -1
}

// Deref strips a pointer.
func Deref(t types.Type) types.Type {
	if p, ok := t.Underlying().(*types.Pointer); ok {
		return p.Elem()
	}
	return t
}

// NamedOf returns package path and name of a (pointer to) named type.
func NamedOf(t types.Type) (pkg, name string) {
	t = Deref(t)
	if n, ok := t.(*types.Named); ok && n.Obj().Pkg() != nil {
		return n.Obj().Pkg().Path(), n.Obj().Name()
	}
	return "", ""
}

// IsLibNamed reports whether t is (a pointer to) the named type shortpkg.name of the library.
func IsLibNamed(t types.Type, shortpkg, name string) bool {
	p, n := NamedOf(t)
	return n == name && p == ModPath+"/"+shortpkg
}
