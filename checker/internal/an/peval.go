package an

import (
	"fmt"
	"go/constant"
	"go/token"
	"go/types"
	"sort"
	"strings"

	"golang.org/x/tools/go/ssa"
)

// Engine E2b: guard-region extraction. A function is explored path by path over its SSA control
// flow graph while one designated integer quantity q is tracked as a union of intervals. Branches
// on "q op const" (and on lookups of q in constant tables) split the set; branches on anything the
// evaluator cannot fold are followed both ways without refining q. Nothing is executed: the
// result is, per path, the set of q for which the path is feasible and the abstract results.

type AVKind int

const (
	KUnk AVKind = iota
	KInt
	KBool
	KStr
	KQ      // the designated quantity plus Off
	KNil    // nil pointer/interface/slice
	KNonNil // definitely non-nil
	KObj    // symbolic object identified by an access path ("p0", "p0.SpkType")
	KStruct // struct of abstract values
	KTuple
	KMap // constant table
	KPtr // pointer to a local cell
	KFunc
	KQCmp // boolean "q S I" (S is the comparison operator, I the constant), possibly negated via flipped S
	KQMask // integer q & I (q within 0..65535)
	KPos   // an integer known to be >= 1 (length of a slice something was appended to)
)

// AV is an abstract value.
type AV struct {
	K      AVKind
	I      int64
	B      bool
	S      string
	Path   string
	Elems  []AV
	Tab    *ConstTable
	Cell   *int // index into path-local store
	Sel    []FieldSel // for KPtr: field path inside the cell
	Fn     *ssa.Function
	Reg    IvSet  // KQCmp: explicit truth region of q (used for masked comparisons); KQMask: unused
	Tag    string // free-form provenance tag (e.g. callee name for NonNil errors)
}

func (a AV) String() string {
	switch a.K {
	case KInt:
		return fmt.Sprint(a.I)
	case KBool:
		return fmt.Sprint(a.B)
	case KStr:
		return fmt.Sprintf("%q", a.S)
	case KQ:
		if a.I != 0 {
			return fmt.Sprintf("q%+d", a.I)
		}
		return "q"
	case KNil:
		return "nil"
	case KNonNil:
		return "nonnil"
	case KObj:
		return "obj(" + a.Path + ")"
	case KStruct, KTuple:
		var s []string
		for _, e := range a.Elems {
			s = append(s, e.String())
		}
		return "(" + strings.Join(s, ",") + ")"
	case KMap:
		return "table(" + a.Tab.Name + ")"
	case KPtr:
		return "ptr"
	case KFunc:
		return "func"
	case KQCmp:
		return fmt.Sprintf("(q%s%d)", a.S, a.I)
	}
	return "?"
}

// FieldSel names one struct field step of a pointer into a local cell.
type FieldSel struct {
	Idx  int
	Name string
	N    int
}

func loadSel(cur AV, sel []FieldSel) AV {
	for _, f := range sel {
		switch cur.K {
		case KStruct:
			if f.Idx < len(cur.Elems) {
				cur = cur.Elems[f.Idx]
			} else {
				return AV{}
			}
		case KObj:
			cur = AV{K: KObj, Path: cur.Path + "." + f.Name}
		default:
			return AV{}
		}
	}
	return cur
}

func storeSel(cur AV, sel []FieldSel, v AV) AV {
	if len(sel) == 0 {
		return v
	}
	f := sel[0]
	if cur.K != KStruct || len(cur.Elems) != f.N {
		old := cur
		cur = AV{K: KStruct, Elems: make([]AV, f.N)}
		_ = old
	} else {
		cur = AV{K: KStruct, Elems: append([]AV(nil), cur.Elems...)}
	}
	if f.Idx < len(cur.Elems) {
		cur.Elems[f.Idx] = storeSel(cur.Elems[f.Idx], sel[1:], v)
	}
	return cur
}

// Outcome is one explored path of the root function.
type Outcome struct {
	Q       IvSet
	Results []AV
	Panic   bool
	Trail   []string // decisions taken, for diagnostics
	Notes   []string // notes recorded by the rule's OnCall hook along this path
	Store   []AV     // the path-local store at the return (cells that KPtr results point into)
	RetPos  token.Pos // position of the root function's return taken
}

// HasNote reports whether the path recorded the note.
func (o Outcome) HasNote(n string) bool {
	for _, x := range o.Notes {
		if x == n {
			return true
		}
	}
	return false
}

// QSelector decides whether the SSA value v, just defined with abstract operands args, is the
// designated quantity. depth 0 = root function.
type QSelector func(ev *PEval, v ssa.Value, args []AV) bool

// PEval configures an extraction.
type PEval struct {
	P         *Prog
	Select    QSelector
	Domain    IvSet // initial set for q
	MaxDepth  int
	MaxPaths  int
	Inline    func(*ssa.Function) bool // which callees to explore (default: library functions)
	InlineIf  func(callee *ssa.Function, args []AV) bool // optional additional condition on the abstract arguments
	NoInlineInHavoc bool // after a loop was re-entered, treat library calls as opaque
	Unroll    int  // exact loop iterations explored before havoc mode (default 1)
	OnCall    func(ev *PEval, call *ssa.Call, callee *ssa.Function, args []AV) (AV, bool)
	AssumeNonNil func(path string) bool // symbolic objects assumed non-nil
	MaxSteps  int  // budget of instructions evaluated over all paths (default 2,000,000)
	steps     int
	InitStore []AV // initial contents of the path-local store (cells that root arguments may point to)
	Trap      func(in ssa.Instruction, what string, trail []string) // called when an instruction must panic on this path (nil dereference, index into empty slice, write to nil map, explicit panic)
	Watch     func(in ssa.Instruction, q IvSet) // called for every instruction reached, with the feasible q
	LoopOK    bool // when true, loops are tolerated: on re-entry the path continues in havoc mode (no refinement, unknown phis) and is cut with unknown results on the third visit
	Truncated bool // set when a path was cut
	paths     int
	cur       *pstate
	flow      *Flow
	Err       error
	tables    map[*ssa.Global]*ConstTable
	Visited   map[*ssa.Function]bool
	RootDepth int
}

type pstate struct {
	retPos token.Pos
	havocLoop map[*ssa.BasicBlock]bool // blocks of the loop whose re-entry switched havoc mode on
	dead  bool     // the path hit a trap (nil dereference etc.) and ends here
	notes []string // rule-defined path notes (see PEval.Note)
	havoc bool // a loop was re-entered on this path: branches are followed both ways unrefined, phis are unknown
	q     IvSet
	env   *envNode
	store []AV
	trail []string
}

// envNode is a persistent map: a chain of small overlays. Forking a state is O(1).
type envNode struct {
	m      map[ssa.Value]AV
	parent *envNode
	depth  int
}

func (e *envNode) get(v ssa.Value) (AV, bool) {
	for n := e; n != nil; n = n.parent {
		if a, ok := n.m[v]; ok {
			return a, true
		}
	}
	return AV{}, false
}

func (s *pstate) set(v ssa.Value, a AV) { s.env.m[v] = a }

func (s *pstate) fork() *pstate {
	// freeze the current overlay: both continuations get a fresh child
	parent := s.env
	if parent.depth > 64 {
		// flatten long chains
		flat := map[ssa.Value]AV{}
		var chain []*envNode
		for n := parent; n != nil; n = n.parent {
			chain = append(chain, n)
		}
		for i := len(chain) - 1; i >= 0; i-- {
			for k, v := range chain[i].m {
				flat[k] = v
			}
		}
		parent = &envNode{m: flat}
	}
	s.env = &envNode{m: map[ssa.Value]AV{}, parent: parent, depth: parent.depth + 1}
	n := &pstate{retPos: s.retPos, notes: append([]string(nil), s.notes...), havoc: s.havoc, havocLoop: s.havocLoop, q: s.q, env: &envNode{m: map[ssa.Value]AV{}, parent: parent, depth: parent.depth + 1}, store: append([]AV(nil), s.store...), trail: append([]string(nil), s.trail...)}
	return n
}

type frame struct {
	fn      *ssa.Function
	args    []AV
	depth   int
	visited map[*ssa.BasicBlock]int
}

// cont is called with the state and the function results at every return of a frame.
type cont func(s *pstate, results []AV, panicked bool)

// Run explores fn with the given abstract arguments and returns one Outcome per path.
func (ev *PEval) Run(fn *ssa.Function, args []AV) ([]Outcome, error) {
	if ev.MaxDepth == 0 {
		ev.MaxDepth = 6
	}
	if ev.MaxPaths == 0 {
		ev.MaxPaths = 50000
	}
	if ev.Domain == nil {
		ev.Domain = IvAll()
	}
	if ev.Inline == nil {
		ev.Inline = func(f *ssa.Function) bool { return InLib(f) && len(f.Blocks) > 0 }
	}
	ev.tables = map[*ssa.Global]*ConstTable{}
	ev.Visited = map[*ssa.Function]bool{}
	ev.paths = 0
	ev.steps = 0
	if ev.MaxSteps == 0 {
		ev.MaxSteps = 2000000
	}
	ev.Err = nil
	var outs []Outcome
	s := &pstate{q: ev.Domain, env: &envNode{m: map[ssa.Value]AV{}}, store: append([]AV(nil), ev.InitStore...)}
	ev.call(s, fn, args, 0, func(s *pstate, res []AV, pan bool) {
		outs = append(outs, Outcome{Q: s.q, Results: res, Panic: pan, Trail: s.trail, Notes: s.notes, Store: s.store, RetPos: s.retPos})
	})
	if ev.Err != nil {
		return nil, ev.Err
	}
	return outs, nil
}

// Note records a note on the path currently being evaluated (valid inside OnCall).
func (ev *PEval) Note(n string) {
	if ev.cur != nil {
		ev.cur.notes = append(ev.cur.notes, n)
	}
}

// HasNote reports whether the current path already carries the note (valid inside OnCall).
func (ev *PEval) HasNote(n string) bool {
	if ev.cur == nil {
		return false
	}
	for _, x := range ev.cur.notes {
		if x == n {
			return true
		}
	}
	return false
}

func (ev *PEval) fail(format string, a ...any) {
	if ev.Err == nil {
		ev.Err = fmt.Errorf(format, a...)
	}
}

func (ev *PEval) call(s *pstate, fn *ssa.Function, args []AV, depth int, k cont) {
	if ev.Err != nil {
		return
	}
	if len(fn.Blocks) == 0 {
		ev.fail("no body for %s", FnKey(fn))
		return
	}
	ev.Visited[fn] = true
	fr := &frame{fn: fn, args: args, depth: depth, visited: map[*ssa.BasicBlock]int{}}
	// bind parameters (a fresh env scope is not needed: SSA values are unique per function, but a
	// function may be inlined twice on one path, so parameters are rebound each time)
	for i, p := range fn.Params {
		var a AV
		if i < len(args) {
			a = args[i]
		}
		if ev.Select != nil && ev.Select(ev, p, []AV{a, {K: KInt, I: int64(depth)}}) {
			a = AV{K: KQ}
		}
		s.env.m[p] = a
	}
	ev.block(s, fr, fn.Blocks[0], nil, 0, k)
}

func (ev *PEval) block(s *pstate, fr *frame, b *ssa.BasicBlock, pred *ssa.BasicBlock, start int, k cont) {
	if ev.Err != nil {
		return
	}
	if start == 0 {
		unroll := ev.Unroll
		if unroll < 1 {
			unroll = 1
		}
		if fr.visited[b] >= unroll+1 || (fr.visited[b] == 1 && !ev.LoopOK) {
			if ev.LoopOK {
				ev.paths++
				ev.Truncated = true
				n := fr.fn.Signature.Results().Len()
				if s.havoc && s.havocLoop != nil && loopParent(s.havocLoop) == fr.fn {
					s.havoc = false
					s.havocLoop = nil
				}
				k(s, make([]AV, n), false)
				return
			}
			ev.fail("loop at %s in %s (region extraction needs loop-free flow in q)", b.Comment, FnKey(fr.fn))
			return
		}
		if fr.visited[b] == unroll && !s.havoc {
			s.havoc = true
			s.havocLoop = naturalLoop(b)
		} else if s.havoc && s.havocLoop != nil && !s.havocLoop[b] && b.Parent() == loopParent(s.havocLoop) {
			// control left the loop that caused havoc mode: branch conditions are exact again
			// (values that depended on loop-carried phis stay unknown)
			s.havoc = false
			s.havocLoop = nil
		}
		fr.visited[b]++
		defer func() { fr.visited[b]-- }()
	}
	for idx := start; idx < len(b.Instrs); idx++ {
		in := b.Instrs[idx]
		ev.steps++
		if ev.steps > ev.MaxSteps {
			ev.fail("evaluation budget of %d steps exceeded in %s", ev.MaxSteps, FnKey(fr.fn))
			return
		}
		if ev.Watch != nil {
			ev.Watch(in, s.q)
		}
		switch x := in.(type) {
		case *ssa.Phi:
			if s.havoc {
				s.env.m[x] = AV{}
				continue
			}
			for i, p := range b.Preds {
				if p == pred {
					s.env.m[x] = ev.val(s, x.Edges[i])
				}
			}
		case *ssa.If:
			c := ev.val(s, x.Cond)
			tb, fb := b.Succs[0], b.Succs[1]
			if c.K == KBool {
				if c.B {
					ev.block(s, fr, tb, b, 0, k)
				} else {
					ev.block(s, fr, fb, b, 0, k)
				}
				return
			}
			if s.havoc {
				// inside a re-entered loop q is not refined (constraints of different iterations
				// would be conjoined); nil tests on values of this iteration still are
				if ts, fs, ok := ev.splitNil(s, x.Cond); ok {
					ev.block(ts, fr, tb, b, 0, k)
					ev.block(fs, fr, fb, b, 0, k)
					return
				}
				ts := s.fork()
				ev.block(ts, fr, tb, b, 0, k)
				ev.block(s, fr, fb, b, 0, k)
				return
			}
			var ts, fs *pstate
			ok := false
			if c.K == KQCmp {
				ts, fs = ev.splitCmp(s, c)
				ok = true
			} else {
				ts, fs, ok = ev.split(s, x.Cond)
			}
			if !ok {
				ts, fs = s.fork(), s
				ts.trail = append(ts.trail, ev.P.Pos(x.Cond.Pos())+":?T")
				fs.trail = append(fs.trail, ev.P.Pos(x.Cond.Pos())+":?F")
			}
			if ts != nil && !ts.q.Empty() {
				ev.block(ts, fr, tb, b, 0, k)
			}
			if fs != nil && !fs.q.Empty() {
				ev.block(fs, fr, fb, b, 0, k)
			}
			return
		case *ssa.Jump:
			ev.block(s, fr, b.Succs[0], b, 0, k)
			return
		case *ssa.Return:
			ev.paths++
			if ev.paths > ev.MaxPaths {
				ev.fail("more than %d paths", ev.MaxPaths)
				return
			}
			res := make([]AV, len(x.Results))
			for i, r := range x.Results {
				res[i] = ev.val(s, r)
			}
			if fr.depth == 0 {
				s.retPos = x.Pos()
			}
			if s.havoc && s.havocLoop != nil && loopParent(s.havocLoop) == fr.fn {
				// returning from the function whose loop switched havoc mode on
				s.havoc = false
				s.havocLoop = nil
			}
			ev.emit(s, res, k)
			return
		case *ssa.Panic:
			if ev.Trap != nil {
				ev.Trap(x, "explicit panic", s.trail)
			}
			ev.paths++
			k(s, nil, true)
			return
		case *ssa.Call:
			if ev.doCall(s, fr, b, pred, idx, x, k) {
				return // continuation handled the rest of the block
			}
		case *ssa.Lookup:
			if ev.doLookup(s, fr, b, pred, idx, x, k) {
				return
			}
		case *ssa.Store:
			a := ev.val(s, x.Addr)
			if a.K == KPtr {
				s.store[*a.Cell] = storeSel(s.store[*a.Cell], a.Sel, ev.val(s, x.Val))
			} else if a.K == KNil && ev.Trap != nil {
				ev.trap(s, x, "store through nil pointer")
			}
		case *ssa.MapUpdate:
			if ev.Trap != nil && ev.val(s, x.Map).K == KNil {
				ev.trap(s, x, "assignment to entry in nil map")
			}
		case ssa.Value:
			s.env.m[x] = ev.instr(s, fr, x)
		default:
			// Defer, Go, RunDefers, Send, DebugRef: no abstract effect tracked
		}
		if s.dead {
			ev.paths++
			k(s, nil, true)
			return
		}
	}
}

func (ev *PEval) trap(s *pstate, in ssa.Instruction, what string) {
	if ev.Trap != nil {
		ev.Trap(in, what, s.trail)
	}
	s.dead = true
}

// emit delivers function results, forking on symbolic comparison results so that every outcome
// carries plain booleans.
func (ev *PEval) emit(s *pstate, res []AV, k cont) {
	for i, a := range res {
		if a.K == KQCmp {
			ts, fs := ev.splitCmp(s, a)
			if !ts.q.Empty() {
				r2 := append([]AV(nil), res...)
				r2[i] = AV{K: KBool, B: true}
				ev.emit(ts, r2, k)
			}
			if !fs.q.Empty() {
				r2 := append([]AV(nil), res...)
				r2[i] = AV{K: KBool, B: false}
				ev.emit(fs, r2, k)
			}
			return
		}
	}
	k(s, res, false)
}

// splitNil refines only nil tests (x == nil / x != nil) on values of unknown nil-ness.
func (ev *PEval) splitNil(s *pstate, cond ssa.Value) (*pstate, *pstate, bool) {
	bo, ok := cond.(*ssa.BinOp)
	if !ok {
		if u, ok := cond.(*ssa.UnOp); ok && u.Op == token.NOT {
			t, f, ok := ev.splitNil(s, u.X)
			return f, t, ok
		}
		return nil, nil, false
	}
	x, y := ev.val(s, bo.X), ev.val(s, bo.Y)
	op := bo.Op.String()
	if (op == "==" || op == "!=") && (x.K == KNil || y.K == KNil) {
		return ev.split(s, cond)
	}
	return nil, nil, false
}

// split refines q along a comparison; returns (trueState, falseState, ok).
func (ev *PEval) split(s *pstate, cond ssa.Value) (*pstate, *pstate, bool) {
	bo, ok := cond.(*ssa.BinOp)
	if !ok {
		if u, ok := cond.(*ssa.UnOp); ok && u.Op == token.NOT {
			t, f, ok := ev.split(s, u.X)
			return f, t, ok
		}
		return nil, nil, false
	}
	x, y := ev.val(s, bo.X), ev.val(s, bo.Y)
	op := bo.Op.String()
	// nil comparisons: refine the tested value
	if (op == "==" || op == "!=") && (x.K == KNil || y.K == KNil) {
		other, ov := bo.X, x
		if x.K == KNil {
			other, ov = bo.Y, y
		}
		if ev.nn(ov) == 0 {
			ts, fs := s.fork(), s.fork()
			if op == "==" {
				ts.env.m[other] = AV{K: KNil}
				fs.env.m[other] = AV{K: KNonNil}
			} else {
				ts.env.m[other] = AV{K: KNonNil}
				fs.env.m[other] = AV{K: KNil}
			}
			return ts, fs, true
		}
		return nil, nil, false
	}
	if x.K == KInt && y.K == KQ {
		x, y = y, x
		op = flipOp(op)
	}
	if x.K != KQ || y.K != KInt {
		return nil, nil, false
	}
	switch op {
	case "==", "!=", "<", "<=", ">", ">=":
	default:
		return nil, nil, false
	}
	// q + off op c  <=>  q op c - off
	c := y.I - x.I
	reg := CmpRegion(op, c)
	ts, fs := s.fork(), s.fork()
	ts.q = s.q.Intersect(reg)
	fs.q = s.q.Minus(reg)
	tr := fmt.Sprintf("q%s%d", op, c)
	ts.trail = append(ts.trail, tr)
	fs.trail = append(fs.trail, "!("+tr+")")
	return ts, fs, true
}

func negOp(op string) string {
	switch op {
	case "==":
		return "!="
	case "!=":
		return "=="
	case "<":
		return ">="
	case "<=":
		return ">"
	case ">":
		return "<="
	case ">=":
		return "<"
	}
	return op
}

// splitCmp refines q along a symbolic comparison value.
func (ev *PEval) splitCmp(s *pstate, c AV) (*pstate, *pstate) {
	reg := c.Reg
	if reg == nil {
		reg = CmpRegion(c.S, c.I)
	}
	ts, fs := s.fork(), s.fork()
	ts.q = s.q.Intersect(reg)
	fs.q = s.q.Minus(reg)
	tr := fmt.Sprintf("q%s%d", c.S, c.I)
	ts.trail = append(ts.trail, tr)
	fs.trail = append(fs.trail, "!("+tr+")")
	return ts, fs
}

func flipOp(op string) string {
	switch op {
	case "<":
		return ">"
	case "<=":
		return ">="
	case ">":
		return "<"
	case ">=":
		return "<="
	}
	return op
}

// val returns the abstract value of an operand.
func (ev *PEval) val(s *pstate, v ssa.Value) AV {
	if a, ok := s.env.get(v); ok {
		return a
	}
	switch x := v.(type) {
	case *ssa.Const:
		if x.Value == nil {
			if isNillable(x.Type()) {
				return AV{K: KNil}
			}
			return zeroAV(x.Type())
		}
		switch x.Value.Kind() {
		case constant.Int:
			if i, ok := constant.Int64Val(x.Value); ok {
				return AV{K: KInt, I: i}
			}
			if constant.Sign(x.Value) > 0 {
				return AV{K: KInt, I: PosInf} // above MaxInt64: only ever compared against
			}
		case constant.Bool:
			return AV{K: KBool, B: constant.BoolVal(x.Value)}
		case constant.String:
			return AV{K: KStr, S: constant.StringVal(x.Value)}
		}
		return AV{}
	case *ssa.Global:
		return AV{K: KObj, Path: "global:" + x.Pkg.Pkg.Path() + "." + x.Name()}
	case *ssa.Function:
		return AV{K: KFunc, Fn: x}
	case *ssa.FreeVar:
		return AV{}
	}
	return AV{}
}

func isNillable(t types.Type) bool {
	switch t.Underlying().(type) {
	case *types.Pointer, *types.Interface, *types.Slice, *types.Map, *types.Chan, *types.Signature:
		return true
	}
	return false
}

func zeroAV(t types.Type) AV {
	switch u := t.Underlying().(type) {
	case *types.Basic:
		switch {
		case u.Info()&types.IsInteger != 0:
			return AV{K: KInt}
		case u.Info()&types.IsBoolean != 0:
			return AV{K: KBool}
		case u.Info()&types.IsString != 0:
			return AV{K: KStr}
		}
	case *types.Struct:
		el := make([]AV, u.NumFields())
		for i := range el {
			el[i] = zeroAV(u.Field(i).Type())
		}
		return AV{K: KStruct, Elems: el}
	}
	if isNillable(t) {
		return AV{K: KNil}
	}
	return AV{}
}

func (ev *PEval) table(g *ssa.Global) *ConstTable {
	if t, ok := ev.tables[g]; ok {
		return t
	}
	var t *ConstTable
	if _, ok := g.Type().(*types.Pointer).Elem().Underlying().(*types.Map); ok && IsRepoPath(g.Pkg.Pkg.Path()) {
		pk := ev.P.ByPath[g.Pkg.Pkg.Path()]
		if lit := findVarLit(pk, g.Name()); lit != nil {
			if tt, err := TableFromLit(ShortPkg(g.Pkg.Pkg.Path())+"."+g.Name(), lit, pk.TypesInfo); err == nil {
				t = tt
			}
		}
	}
	ev.tables[g] = t
	return t
}

func tableEntryAV(t *ConstTable, k int64) AV {
	if t.Scalar != nil {
		return constAV(t.Scalar[k])
	}
	st := t.ValType.Underlying().(*types.Struct)
	el := make([]AV, st.NumFields())
	for i := range el {
		if v, ok := t.Fields[k][st.Field(i).Name()]; ok {
			el[i] = constAV(v)
		} else {
			el[i] = zeroAV(st.Field(i).Type())
		}
	}
	return AV{K: KStruct, Elems: el}
}

func constAV(v constant.Value) AV {
	if v == nil {
		return AV{}
	}
	switch v.Kind() {
	case constant.Int:
		if i, ok := constant.Int64Val(v); ok {
			return AV{K: KInt, I: i}
		}
	case constant.Bool:
		return AV{K: KBool, B: constant.BoolVal(v)}
	case constant.String:
		return AV{K: KStr, S: constant.StringVal(v)}
	}
	return AV{}
}

// doLookup handles v, ok := table[q]; returns true when it took over control flow.
func (ev *PEval) doLookup(s *pstate, fr *frame, b, pred *ssa.BasicBlock, idx int, x *ssa.Lookup, k cont) bool {
	m := ev.val(s, x.X)
	key := ev.val(s, x.Index)
	if m.K != KMap {
		s.env.m[x] = AV{}
		return false
	}
	t := m.Tab
	mk := func(found bool, kk int64) AV {
		var v AV
		if found {
			v = tableEntryAV(t, kk)
		} else {
			v = zeroAV(t.ValType)
		}
		if x.CommaOk {
			return AV{K: KTuple, Elems: []AV{v, {K: KBool, B: found}}}
		}
		return v
	}
	switch key.K {
	case KInt:
		s.env.m[x] = mk(t.Has(key.I), key.I)
		return false
	case KQ:
		// split q over the table's keys
		for _, kk := range t.Keys {
			qq := s.q.Intersect(IvPoint(kk - key.I))
			if qq.Empty() {
				continue
			}
			ns := s.fork()
			ns.q = qq
			ns.env.m[x] = mk(true, kk)
			ns.trail = append(ns.trail, fmt.Sprintf("%s[%d]", t.Name, kk))
			ev.block(ns, fr, b, pred, idx+1, k)
		}
		var shifted IvSet
		for _, kk := range t.Keys {
			shifted = append(shifted, Iv{kk - key.I, kk - key.I})
		}
		rest := s.q.Minus(shifted.norm())
		if !rest.Empty() {
			ns := s.fork()
			ns.q = rest
			ns.env.m[x] = mk(false, 0)
			ns.trail = append(ns.trail, "∉"+t.Name)
			ev.block(ns, fr, b, pred, idx+1, k)
		}
		return true
	}
	s.env.m[x] = AV{}
	return false
}

// doCall evaluates a call; returns true when it took over control flow (inlined callee forks).
func (ev *PEval) doCall(s *pstate, fr *frame, b, pred *ssa.BasicBlock, idx int, x *ssa.Call, k cont) bool {
	args := make([]AV, 0, len(x.Call.Args)+1)
	if x.Call.IsInvoke() {
		args = append(args, ev.val(s, x.Call.Value))
	}
	for _, a := range x.Call.Args {
		args = append(args, ev.val(s, a))
	}
	if ev.Select != nil && ev.Select(ev, x, args) {
		s.env.m[x] = AV{K: KQ}
		return false
	}
	if bi, ok := x.Call.Value.(*ssa.Builtin); ok {
		s.env.m[x] = ev.builtin(bi, args)
		return false
	}
	if ev.Trap != nil {
		if x.Call.IsInvoke() && len(args) > 0 && args[0].K == KNil {
			ev.trap(s, x, "method call on nil interface value")
			return false
		}
		if !x.Call.IsInvoke() && x.Call.StaticCallee() == nil && ev.val(s, x.Call.Value).K == KNil {
			ev.trap(s, x, "call of nil function value")
			return false
		}
	}
	callee := x.Call.StaticCallee()
	if callee == nil {
		if fv := ev.val(s, x.Call.Value); fv.K == KFunc {
			callee = fv.Fn
		}
	}
	if ev.OnCall != nil {
		ev.cur = s
		if av, ok := ev.OnCall(ev, x, callee, args); ok {
			s.env.m[x] = av
			return false
		}
	}
	if callee != nil {
		if av, ok := knownExternal(callee, x, args); ok {
			s.env.m[x] = av
			return false
		}
		if ev.Inline(callee) && fr.depth < ev.MaxDepth && (ev.InlineIf == nil || ev.InlineIf(callee, args)) && !(ev.NoInlineInHavoc && s.havoc) {
			// closures: bind free variables as unknown
			ev.call(s, callee, args, fr.depth+1, func(ns *pstate, res []AV, pan bool) {
				if pan {
					k(ns, nil, true)
					return
				}
				var rv AV
				switch len(res) {
				case 0:
				case 1:
					rv = res[0]
				default:
					rv = AV{K: KTuple, Elems: res}
				}
				ns.env.m[x] = rv
				// continue the caller block; visited bookkeeping of the caller frame is
				// path-local because exploration is depth-first.
				ev.block(ns, fr, b, pred, idx+1, k)
			})
			return true
		}
	}
	// a call through a function value (e.g. a constructor taken from a lookup table): every
	// function the call graph admits at this site is evaluated as an alternative
	if callee == nil && !x.Call.IsInvoke() && ev.P != nil && fr.depth < ev.MaxDepth && !(ev.NoInlineInHavoc && s.havoc) {
		var targets []*ssa.Function
		if n := ev.P.CG().Nodes[fr.fn]; n != nil {
			seenT := map[*ssa.Function]bool{}
			for _, e := range n.Out {
				if e.Site == ssa.CallInstruction(x) && e.Callee != nil && e.Callee.Func != nil && !seenT[e.Callee.Func] {
					seenT[e.Callee.Func] = true
					targets = append(targets, e.Callee.Func)
				}
			}
		}
		ok := len(targets) > 0 && len(targets) <= 12
		for _, t := range targets {
			if len(t.Blocks) == 0 || !ev.Inline(t) || (ev.InlineIf != nil && !ev.InlineIf(t, args)) {
				ok = false
			}
		}
		if ok {
			sort.Slice(targets, func(i, j int) bool { return FnKey(targets[i]) < FnKey(targets[j]) })
			for _, t := range targets {
				ns := s.fork()
				ev.call(ns, t, args, fr.depth+1, func(ns2 *pstate, res []AV, pan bool) {
					if pan {
						k(ns2, nil, true)
						return
					}
					var rv AV
					switch len(res) {
					case 0:
					case 1:
						rv = res[0]
					default:
						rv = AV{K: KTuple, Elems: res}
					}
					ns2.env.m[x] = rv
					ev.block(ns2, fr, b, pred, idx+1, k)
				})
			}
			return true
		}
	}
	s.env.m[x] = unknownResult(x.Type())
	return false
}

func unknownResult(t types.Type) AV {
	if tup, ok := t.(*types.Tuple); ok {
		return AV{K: KTuple, Elems: make([]AV, tup.Len())}
	}
	return AV{}
}

// knownExternal summarises error constructors as definitely non-nil.
func knownExternal(callee *ssa.Function, call *ssa.Call, args []AV) (AV, bool) {
	pkg := FnPkgPath(callee)
	name := callee.Name()
	nonnil := false
	switch pkg {
	case "github.com/samber/oops":
		switch name {
		case "Errorf", "New", "Wrapf", "Wrap", "Join":
			// Wrap/Wrapf return nil for a nil cause; only Errorf/New are unconditional
			nonnil = name == "Errorf" || name == "New"
			causeIdx := 0
			if callee.Signature.Recv() != nil {
				causeIdx = 1 // builder method: receiver first
			}
			if (name == "Wrapf" || name == "Wrap") && len(args) > causeIdx {
				switch nilness(args[causeIdx]) {
				case 2:
					nonnil = true
				case 1:
					return AV{K: KNil}, true
				}
			}
		}
	case "errors":
		nonnil = name == "New"
	case "fmt":
		nonnil = name == "Errorf"
	}
	if nonnil {
		return AV{K: KNonNil, Tag: pkg + "." + name}, true
	}
	return AV{}, false
}

func (ev *PEval) builtin(b *ssa.Builtin, args []AV) AV {
	switch b.Name() {
	case "len":
		if len(args) == 1 {
			switch args[0].K {
			case KStr:
				return AV{K: KInt, I: int64(len(args[0].S))}
			case KNil:
				return AV{K: KInt}
			}
			if args[0].Tag == "nonempty" {
				return AV{K: KPos}
			}
		}
	case "append":
		// appending at least one element yields a non-empty slice
		if len(args) == 2 && args[1].Tag == "varargs1" {
			return AV{K: KNonNil, Tag: "nonempty"}
		}
		if len(args) >= 1 && args[0].Tag == "nonempty" {
			return AV{K: KNonNil, Tag: "nonempty"}
		}
	}
	return AV{}
}

func (ev *PEval) instr(s *pstate, fr *frame, v ssa.Value) AV {
	var ops []AV
	if in, ok := v.(ssa.Instruction); ok {
		for _, o := range in.Operands(nil) {
			if *o != nil {
				ops = append(ops, ev.val(s, *o))
			}
		}
	}
	if ev.Select != nil && ev.Select(ev, v, ops) {
		return AV{K: KQ}
	}
	switch x := v.(type) {
	case *ssa.Alloc:
		s.store = append(s.store, zeroAV(x.Type().(*types.Pointer).Elem()))
		i := len(s.store) - 1
		return AV{K: KPtr, Cell: &i}
	case *ssa.UnOp:
		a := ev.val(s, x.X)
		switch x.Op {
		case token.MUL:
			if a.Tag == "errs-elem-addr" {
				return AV{K: KNonNil, Tag: "err-elem"}
			}
			switch a.K {
			case KNil:
				ev.trap(s, x, "nil pointer dereference")
				return AV{}
			case KPtr:
				return loadSel(s.store[*a.Cell], a.Sel)
			case KObj:
				if strings.HasPrefix(a.Path, "global:") {
					if g, ok := x.X.(*ssa.Global); ok {
						if t := ev.table(g); t != nil {
							return AV{K: KMap, Tab: t}
						}
						if ev.flow == nil {
							ev.flow = NewFlow(ev.P)
						}
						if ev.flow.sentinelError(g) {
							return AV{K: KNonNil, Tag: "sentinel " + g.Name()}
						}
					}
				}
				return AV{K: KObj, Path: a.Path}
			}
			return AV{}
		case token.NOT:
			if a.K == KBool {
				return AV{K: KBool, B: !a.B}
			}
			if a.K == KQCmp {
				if a.Reg != nil {
					return AV{K: KQCmp, S: a.S, I: a.I, Reg: IvRange(0, 65535).Minus(a.Reg)}
				}
				return AV{K: KQCmp, S: negOp(a.S), I: a.I}
			}
		case token.SUB:
			if a.K == KInt {
				return AV{K: KInt, I: -a.I}
			}
		}
		return AV{}
	case *ssa.BinOp:
		return ev.binop(x.Op, ev.val(s, x.X), ev.val(s, x.Y), x.Type())
	case *ssa.ChangeType:
		return ev.val(s, x.X)
	case *ssa.Convert:
		return ev.convert(s, ev.val(s, x.X), x.X.Type(), x.Type())
	case *ssa.MakeInterface:
		a := ev.val(s, x.X)
		if a.K == KNil {
			// a nil pointer in an interface is a non-nil interface
			if _, isIface := x.X.Type().Underlying().(*types.Interface); !isIface {
				return AV{K: KNonNil, Tag: a.Tag}
			}
		}
		return a
	case *ssa.ChangeInterface:
		return ev.val(s, x.X)
	case *ssa.TypeAssert:
		a := ev.val(s, x.X)
		if x.CommaOk {
			if a.K == KNil {
				return AV{K: KTuple, Elems: []AV{zeroAV(x.AssertedType), {K: KBool, B: false}}}
			}
			return AV{K: KTuple, Elems: []AV{a, {}}}
		}
		if a.K == KNil && ev.Trap != nil {
			ev.trap(s, x, "type assertion on nil interface")
			return AV{}
		}
		return a
	case *ssa.Extract:
		t := ev.val(s, x.Tuple)
		if t.K == KTuple && x.Index < len(t.Elems) {
			return t.Elems[x.Index]
		}
		return AV{}
	case *ssa.Field:
		a := ev.val(s, x.X)
		switch a.K {
		case KStruct:
			if x.Field < len(a.Elems) {
				return a.Elems[x.Field]
			}
		case KObj:
			return AV{K: KObj, Path: a.Path + "." + fieldName(x.X.Type(), x.Field)}
		}
		return AV{}
	case *ssa.FieldAddr:
		a := ev.val(s, x.X)
		if a.K == KNil {
			ev.trap(s, x, "field access through nil pointer")
			return AV{}
		}
		if a.K == KObj {
			return AV{K: KObj, Path: a.Path + "." + fieldName(x.X.Type(), x.Field)}
		}
		if a.K == KPtr {
			n := 0
			if pt, ok := x.X.Type().Underlying().(*types.Pointer); ok {
				if st, ok := pt.Elem().Underlying().(*types.Struct); ok {
					n = st.NumFields()
				}
			}
			sel := append(append([]FieldSel(nil), a.Sel...), FieldSel{x.Field, fieldName(x.X.Type(), x.Field), n})
			return AV{K: KPtr, Cell: a.Cell, Sel: sel}
		}
		return AV{}
	case *ssa.MakeMap:
		if t, err := ev.P.LocalTable(x); err == nil {
			return AV{K: KMap, Tab: t}
		}
		return AV{K: KNonNil}
	case *ssa.MakeSlice, *ssa.MakeChan, *ssa.MakeClosure:
		if mc, ok := x.(*ssa.MakeClosure); ok {
			if f, ok := mc.Fn.(*ssa.Function); ok {
				return AV{K: KFunc, Fn: f}
			}
		}
		return AV{K: KNonNil}
	case *ssa.Slice:
		if al, ok := x.X.(*ssa.Alloc); ok && x.Low == nil && x.High == nil {
			if arr, ok := al.Type().Underlying().(*types.Pointer).Elem().Underlying().(*types.Array); ok && arr.Len() >= 1 {
				return AV{K: KNonNil, Tag: "varargs1"}
			}
		}
		a := ev.val(s, x.X)
		if a.K == KNil {
			// slicing a nil slice is fine only for [0:0]; through a nil array pointer it always panics
			if _, isPtr := x.X.Type().Underlying().(*types.Pointer); isPtr {
				ev.trap(s, x, "slice of nil array pointer")
				return AV{}
			}
			bad := false
			for _, b := range []ssa.Value{x.Low, x.High, x.Max} {
				if b == nil {
					continue
				}
				bv := ev.val(s, b)
				if bv.K == KInt && bv.I != 0 {
					bad = true
				}
			}
			if bad {
				ev.trap(s, x, "slice bounds out of range on an empty slice")
				return AV{}
			}
			return AV{K: KNil}
		}
		return AV{}
	case *ssa.IndexAddr:
		a := ev.val(s, x.X)
		if a.K == KNil {
			ev.trap(s, x, "index into nil/empty slice or nil array pointer")
		}
		if sl, ok := x.X.Type().Underlying().(*types.Slice); ok && isErrorT(sl.Elem()) {
			return AV{K: KNonNil, Tag: "errs-elem-addr"} // elements of an error list are non-nil errors (convention)
		}
		return AV{}
	case *ssa.Index:
		return AV{}
	}
	return AV{}
}

func fieldName(t types.Type, i int) string {
	if p, ok := t.Underlying().(*types.Pointer); ok {
		t = p.Elem()
	}
	if st, ok := t.Underlying().(*types.Struct); ok && i < st.NumFields() {
		return st.Field(i).Name()
	}
	return fmt.Sprintf("f%d", i)
}

func (ev *PEval) binop(op token.Token, x, y AV, t types.Type) AV {
	if x.K == KInt && y.K == KInt && (x.I == PosInf || y.I == PosInf) {
		switch op {
		case token.EQL, token.NEQ, token.LSS, token.LEQ, token.GTR, token.GEQ:
		default:
			return AV{}
		}
	}
	if x.K == KInt && y.K == KInt {
		switch op {
		case token.ADD:
			return AV{K: KInt, I: x.I + y.I}
		case token.SUB:
			return AV{K: KInt, I: x.I - y.I}
		case token.MUL:
			return AV{K: KInt, I: x.I * y.I}
		case token.QUO:
			if y.I != 0 {
				return AV{K: KInt, I: x.I / y.I}
			}
		case token.REM:
			if y.I != 0 {
				return AV{K: KInt, I: x.I % y.I}
			}
		case token.AND:
			return AV{K: KInt, I: x.I & y.I}
		case token.OR:
			return AV{K: KInt, I: x.I | y.I}
		case token.SHL:
			if y.I >= 0 && y.I < 63 {
				return AV{K: KInt, I: x.I << uint(y.I)}
			}
		case token.SHR:
			if y.I >= 0 && y.I < 64 {
				return AV{K: KInt, I: x.I >> uint(y.I)}
			}
		case token.EQL:
			return AV{K: KBool, B: x.I == y.I}
		case token.NEQ:
			return AV{K: KBool, B: x.I != y.I}
		case token.LSS:
			return AV{K: KBool, B: x.I < y.I}
		case token.LEQ:
			return AV{K: KBool, B: x.I <= y.I}
		case token.GTR:
			return AV{K: KBool, B: x.I > y.I}
		case token.GEQ:
			return AV{K: KBool, B: x.I >= y.I}
		}
		return AV{}
	}
	if x.K == KPos && y.K == KInt {
		switch op {
		case token.GTR:
			if y.I <= 0 {
				return AV{K: KBool, B: true}
			}
		case token.GEQ:
			if y.I <= 1 {
				return AV{K: KBool, B: true}
			}
		case token.NEQ:
			if y.I <= 0 {
				return AV{K: KBool, B: true}
			}
		case token.EQL:
			if y.I <= 0 {
				return AV{K: KBool, B: false}
			}
		case token.LSS:
			if y.I <= 1 {
				return AV{K: KBool, B: false}
			}
		case token.LEQ:
			if y.I <= 0 {
				return AV{K: KBool, B: false}
			}
		}
		return AV{}
	}
	if x.K == KInt && y.K == KQ && op == token.AND {
		x, y = y, x
	}
	if x.K == KQ && x.I == 0 && y.K == KInt && op == token.AND && y.I >= 0 && y.I <= 65535 {
		return AV{K: KQMask, I: y.I}
	}
	if x.K == KInt && y.K == KQMask {
		x, y = y, x
	}
	if x.K == KQMask && y.K == KInt && (op == token.EQL || op == token.NEQ) {
		var reg IvSet
		for q := int64(0); q <= 65535; q++ {
			if (q&x.I == y.I) == (op == token.EQL) {
				if n := len(reg); n > 0 && reg[n-1].Hi == q-1 {
					reg[n-1].Hi = q
				} else {
					reg = append(reg, Iv{q, q})
				}
			}
		}
		return AV{K: KQCmp, S: "mask", I: x.I, Reg: reg}
	}
	if x.K == KQ && y.K == KInt {
		switch op {
		case token.ADD:
			return AV{K: KQ, I: x.I + y.I}
		case token.SUB:
			return AV{K: KQ, I: x.I - y.I}
		case token.EQL, token.NEQ, token.LSS, token.LEQ, token.GTR, token.GEQ:
			return AV{K: KQCmp, S: op.String(), I: y.I - x.I}
		}
	}
	if x.K == KInt && y.K == KQ {
		switch op {
		case token.EQL, token.NEQ, token.LSS, token.LEQ, token.GTR, token.GEQ:
			return AV{K: KQCmp, S: flipOp(op.String()), I: x.I - y.I}
		}
	}
	if x.K == KInt && y.K == KQ && op == token.ADD {
		return AV{K: KQ, I: x.I + y.I}
	}
	if x.K == KBool && y.K == KBool {
		switch op {
		case token.EQL:
			return AV{K: KBool, B: x.B == y.B}
		case token.NEQ:
			return AV{K: KBool, B: x.B != y.B}
		}
	}
	if x.K == KStr && y.K == KStr {
		switch op {
		case token.EQL:
			return AV{K: KBool, B: x.S == y.S}
		case token.NEQ:
			return AV{K: KBool, B: x.S != y.S}
		case token.ADD:
			return AV{K: KStr, S: x.S + y.S}
		}
	}
	// nil comparisons
	if op == token.EQL || op == token.NEQ {
		xn, yn := ev.nn(x), ev.nn(y)
		if xn != 0 && yn != 0 && (xn == 1 || yn == 1) {
			eq := xn == 1 && yn == 1
			if xn != yn {
				eq = false
			}
			if op == token.NEQ {
				eq = !eq
			}
			return AV{K: KBool, B: eq}
		}
	}
	return AV{}
}

func (ev *PEval) nn(a AV) int {
	if a.K == KObj && ev.AssumeNonNil != nil && ev.AssumeNonNil(a.Path) {
		return 2
	}
	return nilness(a)
}

// nilness: 1 = nil, 2 = non-nil, 0 = unknown.
func nilness(a AV) int {
	switch a.K {
	case KNil:
		return 1
	case KNonNil, KMap, KPtr, KFunc:
		return 2
	}
	return 0
}

func typeRange(t types.Type) (IvSet, bool) {
	b, ok := t.Underlying().(*types.Basic)
	if !ok {
		return nil, false
	}
	switch b.Kind() {
	case types.Int, types.Int64:
		return IvAll(), true
	case types.Int32:
		return IvRange(-1<<31, 1<<31-1), true
	case types.Int16:
		return IvRange(-1<<15, 1<<15-1), true
	case types.Int8:
		return IvRange(-128, 127), true
	case types.Uint8:
		return IvRange(0, 255), true
	case types.Uint16:
		return IvRange(0, 65535), true
	case types.Uint32:
		return IvRange(0, 1<<32-1), true
	case types.Uint, types.Uint64, types.Uintptr:
		return IvRange(0, PosInf), true // upper half not representable; callers treat as such
	}
	return nil, false
}

func (ev *PEval) convert(s *pstate, a AV, from, to types.Type) AV {
	switch a.K {
	case KInt:
		if r, ok := typeRange(to); ok {
			if r.Contains(a.I) {
				return a
			}
			return AV{}
		}
		return AV{}
	case KQ:
		// identity when every feasible q (plus offset) fits the target type
		if r, ok := typeRange(to); ok {
			shift := IvSet{}
			for _, iv := range s.q {
				lo, hi := iv.Lo, iv.Hi
				if lo != NegInf {
					lo += a.I
				}
				if hi != PosInf {
					hi += a.I
				}
				shift = append(shift, Iv{lo, hi})
			}
			if shift.norm().SubsetOf(r) {
				return a
			}
		}
		return AV{}
	case KStr:
		return AV{}
	}
	return AV{}
}

// ---- summarising outcomes ---------------------------------------------------------------------

// Pieces splits the domain into elementary intervals on which the set of feasible outcomes is
// constant, and returns for each the indices of the outcomes feasible there.
func Pieces(domain IvSet, outs []Outcome) ([]Iv, [][]int) {
	cuts := map[int64]bool{}
	add := func(s IvSet) {
		for _, iv := range s {
			cuts[iv.Lo] = true
			if iv.Hi != PosInf {
				cuts[iv.Hi+1] = true
			}
		}
	}
	add(domain)
	for _, o := range outs {
		add(o.Q)
	}
	var pts []int64
	for c := range cuts {
		pts = append(pts, c)
	}
	sort.Slice(pts, func(i, j int) bool { return pts[i] < pts[j] })
	var ivs []Iv
	var idx [][]int
	for i, lo := range pts {
		hi := int64(PosInf)
		if i+1 < len(pts) {
			hi = pts[i+1] - 1
		}
		if !domain.Contains(lo) {
			continue
		}
		var in []int
		for j, o := range outs {
			if o.Q.Contains(lo) {
				in = append(in, j)
			}
		}
		ivs = append(ivs, Iv{lo, hi})
		idx = append(idx, in)
	}
	return ivs, idx
}

// RegionWhere returns the sets of q for which every / some feasible outcome satisfies pred.
// q values with no feasible outcome at all are returned in none.
func RegionWhere(domain IvSet, outs []Outcome, pred func(Outcome) bool) (must, may, none IvSet) {
	ivs, idx := Pieces(domain, outs)
	for i, iv := range ivs {
		if len(idx[i]) == 0 {
			none = append(none, iv)
			continue
		}
		all, some := true, false
		for _, j := range idx[i] {
			if pred(outs[j]) {
				some = true
			} else {
				all = false
			}
		}
		if all {
			must = append(must, iv)
		}
		if some {
			may = append(may, iv)
		}
	}
	return must.norm(), may.norm(), none.norm()
}

// ErrIs reports the nil-state of result i of an outcome: 1 nil, 2 non-nil, 0 unknown.
func (o Outcome) ErrIs(i int) int {
	if o.Panic || i >= len(o.Results) {
		return 0
	}
	return nilness(o.Results[i])
}

// PiecewiseInt describes result i as a piecewise-constant function: for each elementary interval
// the set of constant values the result may take ("?" when some feasible outcome is not a constant).
type PWPiece struct {
	Iv   Iv
	Vals []string
}

func Piecewise(domain IvSet, outs []Outcome, render func(Outcome) string) []PWPiece {
	ivs, idx := Pieces(domain, outs)
	var out []PWPiece
	for i, iv := range ivs {
		set := map[string]bool{}
		for _, j := range idx[i] {
			set[render(outs[j])] = true
		}
		var vals []string
		for v := range set {
			vals = append(vals, v)
		}
		sort.Strings(vals)
		if n := len(out); n > 0 && out[n-1].Iv.Hi+1 == iv.Lo && strings.Join(out[n-1].Vals, "|") == strings.Join(vals, "|") {
			out[n-1].Iv.Hi = iv.Hi
			continue
		}
		out = append(out, PWPiece{iv, vals})
	}
	return out
}

func PWString(pw []PWPiece) string {
	var s []string
	for _, p := range pw {
		s = append(s, IvSet{p.Iv}.String()+"→"+strings.Join(p.Vals, "|"))
	}
	return strings.Join(s, " ")
}

// PWAt returns the value set of the piece containing v.
func PWAt(pw []PWPiece, v int64) []string {
	for _, p := range pw {
		if v >= p.Iv.Lo && v <= p.Iv.Hi {
			return p.Vals
		}
	}
	return nil
}

// ZeroAV exposes the abstract zero value of a type.
func ZeroAV(t types.Type) AV { return zeroAV(t) }

// PtrToCell returns an abstract pointer to cell i of the initial store.
func PtrToCell(i int) AV { return AV{K: KPtr, Cell: &i} }

// LoadCell dereferences an abstract pointer against a store snapshot.
func LoadCell(store []AV, p AV) (AV, bool) {
	if p.K != KPtr || p.Cell == nil || *p.Cell >= len(store) {
		return AV{}, false
	}
	return loadSel(store[*p.Cell], p.Sel), true
}

// naturalLoop returns the blocks of the natural loop(s) with header h.
func naturalLoop(h *ssa.BasicBlock) map[*ssa.BasicBlock]bool {
	loop := map[*ssa.BasicBlock]bool{h: true}
	var work []*ssa.BasicBlock
	for _, p := range h.Preds {
		if h.Dominates(p) {
			if !loop[p] {
				loop[p] = true
				work = append(work, p)
			}
		}
	}
	for len(work) > 0 {
		b := work[len(work)-1]
		work = work[:len(work)-1]
		for _, p := range b.Preds {
			if !loop[p] {
				loop[p] = true
				work = append(work, p)
			}
		}
	}
	return loop
}

func loopParent(l map[*ssa.BasicBlock]bool) *ssa.Function {
	for b := range l {
		return b.Parent()
	}
	return nil
}
