package an

import (
	"fmt"
	"go/constant"
	"go/token"
	"go/types"
	"sort"
	"strings"

	"golang.org/x/tools/go/ssa"
)

// Engine E6: provenance slicer. Leaves(v) computes, by a backward def-use walk that crosses
// library calls (callee returns with parameters mapped back to the call's arguments), the set of
// origins a value is computed from.

type LeafKind string

const (
	LParam  LeafKind = "param"  // parameter of the root function, with the field path read from it
	LGlobal LeafKind = "global" // package-level variable
	LConst  LeafKind = "const"
	LCall   LeafKind = "call"  // result of a call that is not followed (external, dynamic)
	LFresh  LeafKind = "fresh" // freshly allocated memory with no content source found
	LFree   LeafKind = "freevar"
	LOther  LeafKind = "other"
)

type Leaf struct {
	Kind   LeafKind
	Param  int    // LParam: index in the root function
	Path   string // LParam/LGlobal: ".field.field" path read on the way (outermost first)
	Name   string // LGlobal: pkg.var; LCall: callee key; LConst: exact value
	Via    []string // library functions crossed (innermost last), for diagnostics
	Sliced bool   // a Slice with explicit bounds was applied on the way
	V      ssa.Value
	Hops    int   // number of cursor advances x[lo:] (lo != 0) between the origin and the value (minimum over trails)
	Off     int64 // constant low bound of the window x[lo:hi] nearest to the value, -1 when none/non-constant
	Marks   map[string]bool // codec markers (binary.Uint32, binary.PutUint16, ...) seen on any trail to this origin
	LenOnly bool    // reached only through len()/cap(): the length, not the content, flows
	Args   [][]Leaf // for calls cut by StopAt: the origins of each argument (receiver first)
}

func (l Leaf) String() string {
	s := ""
	switch l.Kind {
	case LParam:
		s = fmt.Sprintf("p%d%s", l.Param, l.Path)
	case LGlobal:
		s = "global " + l.Name + l.Path
	case LConst:
		s = "const " + l.Name
	case LCall:
		s = "call " + l.Name
	default:
		s = string(l.Kind)
		if l.V != nil {
			s += " " + l.V.Name()
		}
	}
	if l.Sliced {
		s += " [sliced]"
	}
	if l.LenOnly {
		s += " [len]"
	}
	return s
}

// Slicer configuration.
type Slicer struct {
	P        *Prog
	Root     *ssa.Function
	MaxDepth int
	// Through decides how to treat a call that is not a library function with a body:
	// return the argument indices the result derives from (nil = opaque leaf).
	Through func(call ssa.CallInstruction, callee *ssa.Function) []int
	// TrackExternal: external callees to record on the trail ("ext:<callee>") when the slice passes
	// through them (opt-in; used to detect transformations of a value on its way to a sink)
	TrackExternal func(callee *ssa.Function) bool
	// StopAt lets a rule cut the walk at a call (returns true = make it a leaf).
	StopAt func(call ssa.CallInstruction, callee *ssa.Function) bool
	seen   map[sliceKey]bool
	out    map[string]Leaf
	hops   int      // cursor advances crossed on the current walk
	win    []int64  // constant low bounds of window slices crossed (outermost first)
	trail  []string // library functions entered on the current walk (outermost first)
	inLen  int      // >0 while walking the operand of len()/cap()
}

type sliceKey struct {
	v   ssa.Value
	ctx string
}

type sctx struct {
	call   ssa.CallInstruction // call in the parent through which we entered this function
	parent *sctx
	fn     *ssa.Function
	depth  int
}

func (c *sctx) key() string {
	var s []string
	for x := c; x != nil; x = x.parent {
		if x.call != nil {
			s = append(s, fmt.Sprint(x.call.Pos()))
		}
	}
	return strings.Join(s, "/")
}

func (c *sctx) via() []string {
	var s []string
	for x := c; x != nil && x.parent != nil; x = x.parent {
		s = append([]string{FnKey(x.fn)}, s...)
	}
	return s
}

// Leaves returns the origins of v (a value of the root function).
func (sl *Slicer) Leaves(v ssa.Value) []Leaf {
	if sl.MaxDepth == 0 {
		sl.MaxDepth = 8
	}
	sl.seen = map[sliceKey]bool{}
	sl.out = map[string]Leaf{}
	sl.walk(v, &sctx{fn: sl.Root}, "", false)
	var keys []string
	for k := range sl.out {
		keys = append(keys, k)
	}
	sort.Strings(keys)
	var res []Leaf
	for _, k := range keys {
		res = append(res, sl.out[k])
	}
	return res
}

func (sl *Slicer) emit(l Leaf, c *sctx) {
	l.Via = append([]string(nil), sl.trail...)
	l.LenOnly = sl.inLen > 0
	l.Hops = sl.hops
	l.Off = -1
	if len(sl.win) > 0 {
		l.Off = sl.win[0]
	}
	l.Marks = map[string]bool{}
	for _, t := range sl.trail {
		if strings.HasPrefix(t, "binary.") {
			l.Marks[t] = true
		}
	}
	k := l.String()
	old, ok := sl.out[k]
	if !ok {
		sl.out[k] = l
		return
	}
	// merge: shortest trail, earliest cursor position, union of codec markers
	for m := range old.Marks {
		l.Marks[m] = true
	}
	if len(old.Via) <= len(l.Via) {
		l.Via = old.Via
		l.V = old.V
	}
	if old.Hops < l.Hops || (old.Hops == l.Hops && old.Off >= 0 && (l.Off < 0 || old.Off < l.Off)) {
		l.Hops, l.Off = old.Hops, old.Off
	}
	if len(old.Args) > 0 && len(l.Args) == 0 {
		l.Args = old.Args
	}
	sl.out[k] = l
}

// walk follows v backwards. path accumulates field names read *after* this point (so that a
// parameter leaf reports the access path), sliced records explicit slicing.
func (sl *Slicer) walk(v ssa.Value, c *sctx, path string, sliced bool) {
	if v == nil {
		return
	}
	k := sliceKey{v, c.key() + "|" + path}
	if sl.inLen > 0 {
		k.ctx += "|len"
	}
	if sliced {
		k.ctx += "|sliced" // a value reached both whole and through a window yields both origins
	}
	if sl.seen[k] {
		return
	}
	sl.seen[k] = true
	sl.storesThrough(v, c, path, sliced)
	switch x := v.(type) {
	case *ssa.Const:
		name := "nil"
		if x.Value != nil {
			name = x.Value.ExactString()
			if x.Value.Kind() == constant.String {
				name = constant.StringVal(x.Value)
			}
		}
		sl.emit(Leaf{Kind: LConst, Name: name, V: v, Sliced: sliced}, c)
	case *ssa.Parameter:
		idx := -1
		for i, p := range c.fn.Params {
			if p == x {
				idx = i
			}
		}
		if c.parent == nil {
			sl.emit(Leaf{Kind: LParam, Param: idx, Path: path, V: v, Sliced: sliced}, c)
			return
		}
		// map back to the argument at the call site
		args := c.call.Common().Args
		if c.call.Common().IsInvoke() {
			args = append([]ssa.Value{c.call.Common().Value}, args...)
		}
		if idx >= 0 && idx < len(args) {
			sl.walk(args[idx], c.parent, path, sliced)
		}
	case *ssa.FreeVar:
		// closure: bind through MakeClosure in the parent function when we entered via a call
		sl.emit(Leaf{Kind: LFree, V: v, Sliced: sliced}, c)
	case *ssa.Global:
		sl.emit(Leaf{Kind: LGlobal, Name: ShortPkg(x.Pkg.Pkg.Path()) + "." + x.Name(), Path: path, V: v, Sliced: sliced}, c)
	case *ssa.Function:
		sl.emit(Leaf{Kind: LOther, V: v}, c)
	case *ssa.Phi:
		for _, e := range x.Edges {
			sl.walk(e, c, path, sliced)
		}
	case *ssa.Extract:
		sl.walkTuple(x.Tuple, x.Index, c, path, sliced)
	case *ssa.ChangeType:
		sl.walk(x.X, c, path, sliced)
	case *ssa.Convert:
		sl.walk(x.X, c, path, sliced)
	case *ssa.ChangeInterface:
		sl.walk(x.X, c, path, sliced)
	case *ssa.MakeInterface:
		sl.walk(x.X, c, path, sliced)
	case *ssa.TypeAssert:
		sl.walk(x.X, c, path, sliced)
	case *ssa.SliceToArrayPointer:
		sl.walk(x.X, c, path, sliced)
	case *ssa.Slice:
		adv := false
		if x.Low != nil {
			if k, ok := x.Low.(*ssa.Const); !ok || k.Value == nil || k.Int64() != 0 {
				adv = x.High == nil
			}
		}
		pushed := false
		if x.High != nil && narrowingSlice(x) {
			lo := int64(0)
			okc := true
			if x.Low != nil {
				if k, ok := x.Low.(*ssa.Const); ok && k.Value != nil {
					lo = k.Int64()
				} else {
					okc = false
				}
			}
			if okc {
				sl.win = append(sl.win, lo)
				pushed = true
			}
		}
		if adv {
			sl.hops++
		}
		sl.walk(x.X, c, path, sliced || narrowingSlice(x))
		if adv {
			sl.hops--
		}
		if pushed {
			sl.win = sl.win[:len(sl.win)-1]
		}
	case *ssa.BinOp:
		sl.walk(x.X, c, path, sliced)
		sl.walk(x.Y, c, path, sliced)
	case *ssa.UnOp:
		if x.Op == token.MUL {
			sl.walkLoad(x.X, c, path, sliced)
			return
		}
		sl.walk(x.X, c, path, sliced)
	case *ssa.Field:
		sl.walk(x.X, c, "."+fieldName(x.X.Type(), x.Field)+path, sliced)
	case *ssa.FieldAddr:
		// address used as a value (e.g. passed as pointer): origin is the containing object
		sl.walk(x.X, c, "."+fieldName(x.X.Type(), x.Field)+path, sliced)
	case *ssa.Index:
		sl.walk(x.X, c, path, sliced)
	case *ssa.IndexAddr:
		sl.walk(x.X, c, path, sliced)
	case *ssa.Lookup:
		sl.walk(x.X, c, path, sliced)
	case *ssa.Alloc:
		sl.walkCell(x, c, path, sliced)
	case *ssa.MakeSlice, *ssa.MakeMap:
		sl.walkCell(v, c, path, sliced)
	case *ssa.MakeClosure:
		sl.emit(Leaf{Kind: LOther, V: v}, c)
	case *ssa.Call:
		sl.walkTuple(x, -1, c, path, sliced)
	default:
		sl.emit(Leaf{Kind: LOther, V: v, Sliced: sliced}, c)
	}
}

// walkLoad: value loaded from address addr.
func (sl *Slicer) walkLoad(addr ssa.Value, c *sctx, path string, sliced bool) {
	switch a := addr.(type) {
	case *ssa.FieldAddr:
		fpath := "." + fieldName(a.X.Type(), a.Field) + path
		// field of a local struct: follow the stores into that field / whole-struct stores
		if base, ok := a.X.(*ssa.Alloc); ok {
			n := 0
			for _, ref := range *base.Referrers() {
				switch r := ref.(type) {
				case *ssa.FieldAddr:
					if r.Field != a.Field {
						continue
					}
					for _, rr := range *r.Referrers() {
						if st, ok := rr.(*ssa.Store); ok && st.Addr == ssa.Value(r) {
							n++
							sl.walk(st.Val, c, path, sliced)
						}
					}
				case *ssa.Store:
					if r.Addr == ssa.Value(base) {
						n++
						sl.walk(r.Val, c, fpath, sliced)
					}
				}
			}
			if n > 0 {
				return
			}
		}
		sl.walk(a.X, c, fpath, sliced)
	case *ssa.IndexAddr:
		sl.walk(a.X, c, path, sliced)
	case *ssa.Alloc:
		sl.walkCell(a, c, path, sliced)
	case *ssa.Global:
		sl.walk(a, c, path, sliced)
	default:
		sl.walk(addr, c, path, sliced)
	}
}

// walkCell: contents of a local cell / fresh slice: everything stored or copied into it. When
// path selects a field of a struct cell (".f..."), only stores into that field (and whole-struct
// stores) are followed and the path component is consumed.
func (sl *Slicer) walkCell(cell ssa.Value, c *sctx, path string, sliced bool) {
	n := 0
	wantField := ""
	rest := path
	if strings.HasPrefix(path, ".") {
		if _, isStruct := Deref(cell.Type()).Underlying().(*types.Struct); isStruct {
			wantField = path[1:]
			rest = ""
			if i := strings.Index(wantField, "."); i >= 0 {
				rest = wantField[i:]
				wantField = wantField[:i]
			}
		}
	}
	var visit func(addr ssa.Value, depth int, p string)
	visit = func(addr ssa.Value, depth int, p string) {
		if depth > 4 {
			return
		}
		refs := addr.Referrers()
		if refs == nil {
			return
		}
		for _, ref := range *refs {
			switch r := ref.(type) {
			case *ssa.Store:
				if r.Addr == addr {
					n++
					sl.walk(r.Val, c, p, sliced)
				}
			case *ssa.IndexAddr:
				if r.X == addr {
					visit(r, depth+1, p)
				}
			case *ssa.FieldAddr:
				if r.X == addr {
					if depth == 0 && wantField != "" {
						if fieldName(r.X.Type(), r.Field) != wantField {
							continue
						}
						visit(r, depth+1, rest)
						continue
					}
					visit(r, depth+1, p)
				}
			case *ssa.Slice:
				if r.X == addr {
					visit(r, depth+1, p)
				}
			case *ssa.MapUpdate:
				if r.Map == addr {
					n++
					sl.walk(r.Value, c, p, sliced)
				}
			case *ssa.Call:
				if bi, ok := r.Call.Value.(*ssa.Builtin); ok && bi.Name() == "copy" && len(r.Call.Args) == 2 && r.Call.Args[0] == addr {
					n++
					sl.walk(r.Call.Args[1], c, p, sliced)
				}
				// the cell's address is handed to a library function that fills it in
				if depth == 0 {
					if callee := r.Call.StaticCallee(); callee != nil && InLib(callee) && len(callee.Blocks) > 0 && c.depth < sl.MaxDepth {
						for ai, a := range r.Call.Args {
							if a == addr && ai < len(callee.Params) {
								if sl.storesViaParam(r, callee, ai, wantField, rest, path, c, sliced, 0) {
									n++
								}
							}
						}
					}
				}
				if callee := r.Call.StaticCallee(); callee != nil && len(r.Call.Args) >= 2 {
					if FnPkgPath(callee) == "encoding/binary" && strings.HasPrefix(callee.Name(), "PutUint") && r.Call.Args[1] == addr {
						n++
						sl.trail = append(sl.trail, "binary."+callee.Name())
						sl.walk(r.Call.Args[2], c, p, sliced)
						sl.trail = sl.trail[:len(sl.trail)-1]
					}
				}
			}
		}
	}
	visit(cell, 0, path)
	if n == 0 {
		sl.emit(Leaf{Kind: LFresh, V: cell, Sliced: sliced}, c)
	}
}

// walkTuple: result idx (or the single result when idx < 0) of a call.
func (sl *Slicer) walkTuple(t ssa.Value, idx int, c *sctx, path string, sliced bool) {
	call, ok := t.(*ssa.Call)
	if !ok {
		// e.g. Lookup/TypeAssert commaok, Next
		switch x := t.(type) {
		case *ssa.Lookup:
			if idx <= 0 {
				sl.walk(x.X, c, path, sliced)
			}
		case *ssa.TypeAssert:
			if idx <= 0 {
				sl.walk(x.X, c, path, sliced)
			}
		case *ssa.Next:
			sl.walk(x.Iter, c, path, sliced)
		case *ssa.UnOp:
			sl.walk(x.X, c, path, sliced)
		default:
			sl.emit(Leaf{Kind: LOther, V: t}, c)
		}
		return
	}
	if bi, ok := call.Call.Value.(*ssa.Builtin); ok {
		switch bi.Name() {
		case "append":
			for _, a := range call.Call.Args {
				sl.walk(a, c, path, sliced)
			}
		case "len", "cap":
			sl.inLen++
			for _, a := range call.Call.Args {
				sl.walkLen(a, c, path, sliced)
			}
			sl.inLen--
		case "min", "max":
			for _, a := range call.Call.Args {
				sl.walk(a, c, path, sliced)
			}
		default:
			sl.emit(Leaf{Kind: LCall, Name: "builtin " + bi.Name(), V: t}, c)
		}
		return
	}
	callee := call.Call.StaticCallee()
	if sl.StopAt != nil && sl.StopAt(call, callee) {
		name := "dynamic"
		if callee != nil {
			name = FnKey(callee)
		} else if call.Call.IsInvoke() {
			name = "invoke " + call.Call.Method.Name()
		}
		lf := Leaf{Kind: LCall, Name: name, V: t, Sliced: sliced}
		args := call.Call.Args
		if call.Call.IsInvoke() {
			args = append([]ssa.Value{call.Call.Value}, args...)
		}
		for _, a := range args {
			sub := &Slicer{P: sl.P, Root: sl.Root, MaxDepth: sl.MaxDepth, Through: sl.Through, StopAt: sl.StopAt, TrackExternal: sl.TrackExternal, seen: map[sliceKey]bool{}, out: map[string]Leaf{}}
			sub.walk(a, c, "", false)
			var ls []Leaf
			var keys []string
			for k := range sub.out {
				keys = append(keys, k)
			}
			sort.Strings(keys)
			for _, k := range keys {
				ls = append(ls, sub.out[k])
			}
			lf.Args = append(lf.Args, ls)
		}
		sl.emit(lf, c)
		return
	}
	if callee != nil && InLib(callee) && len(callee.Blocks) > 0 && c.depth < sl.MaxDepth {
		nc := &sctx{call: call, parent: c, fn: callee, depth: c.depth + 1}
		sl.trail = append(sl.trail, FnKey(callee))
		defer func() { sl.trail = sl.trail[:len(sl.trail)-1] }()
		for _, ret := range Returns(callee) {
			if idx < 0 {
				for _, rv := range ret.Results {
					sl.walk(rv, nc, path, sliced)
				}
			} else if idx < len(ret.Results) {
				sl.walk(ret.Results[idx], nc, path, sliced)
			}
		}
		return
	}
	if callee != nil && FnPkgPath(callee) == "encoding/binary" && strings.HasPrefix(callee.Name(), "AppendUint") {
		// AppendUintN(buf, v) = append(buf, <N-bit big-endian v>...): the same encoder as PutUintN
		args := call.Call.Args
		if len(args) == 3 {
			sl.walk(args[1], c, path, sliced)
			sl.trail = append(sl.trail, "binary.Put"+strings.TrimPrefix(callee.Name(), "Append"))
			sl.walk(args[2], c, path, sliced)
			sl.trail = sl.trail[:len(sl.trail)-1]
			return
		}
	}
	if callee != nil && FnPkgPath(callee) == "encoding/binary" && strings.HasPrefix(callee.Name(), "Uint") {
		// decoding primitive: record it on the trail and continue into the bytes it reads
		sl.trail = append(sl.trail, "binary."+callee.Name())
		defer func() { sl.trail = sl.trail[:len(sl.trail)-1] }()
	}
	if sl.TrackExternal != nil && callee != nil && sl.TrackExternal(callee) {
		sl.trail = append(sl.trail, "ext:"+FnKey(callee))
		defer func() { sl.trail = sl.trail[:len(sl.trail)-1] }()
	}
	if sl.Through != nil {
		if idxs := sl.Through(call, callee); idxs != nil {
			args := call.Call.Args
			if call.Call.IsInvoke() {
				args = append([]ssa.Value{call.Call.Value}, args...)
			}
			for _, i := range idxs {
				if i < len(args) {
					sl.walk(args[i], c, path, sliced)
				}
			}
			return
		}
	}
	name := "dynamic"
	if callee != nil {
		name = FnKey(callee)
	} else if call.Call.IsInvoke() {
		name = "invoke " + types.TypeString(call.Call.Value.Type(), nil) + "." + call.Call.Method.Name()
	}
	sl.emit(Leaf{Kind: LCall, Name: name, V: t, Sliced: sliced}, c)
}

// AllArgs is a Through function: the result derives from every argument (and the receiver).
func AllArgs(call ssa.CallInstruction, callee *ssa.Function) []int {
	n := len(call.Common().Args)
	if call.Common().IsInvoke() {
		n++
	}
	out := make([]int, n)
	for i := range out {
		out[i] = i
	}
	return out
}

// LeafStrings renders leaves.
func LeafStrings(ls []Leaf) []string {
	var s []string
	for _, l := range ls {
		s = append(s, l.String())
	}
	return s
}

// LeavesInContext slices v, a value of the function reached from Root through the given chain
// of calls (outermost first), so that parameters map back to the arguments along the chain.
func (sl *Slicer) LeavesInContext(chain []ssa.CallInstruction, v ssa.Value) []Leaf {
	if sl.MaxDepth == 0 {
		sl.MaxDepth = 8
	}
	sl.seen = map[sliceKey]bool{}
	sl.out = map[string]Leaf{}
	c := &sctx{fn: sl.Root}
	for _, call := range chain {
		callee := call.Common().StaticCallee()
		c = &sctx{call: call, parent: c, fn: callee, depth: c.depth + 1}
	}
	sl.walk(v, c, "", false)
	var keys []string
	for k := range sl.out {
		keys = append(keys, k)
	}
	sort.Strings(keys)
	var res []Leaf
	for _, k := range keys {
		res = append(res, sl.out[k])
	}
	return res
}

// narrowingSlice reports whether a slice expression can drop elements of its operand:
// x[:], x[0:], x[:len(x)] and arr[:N] over a *[N]T are not narrowing.
func narrowingSlice(x *ssa.Slice) bool {
	if x.Low != nil {
		if c, ok := x.Low.(*ssa.Const); !ok || c.Value == nil || c.Int64() != 0 {
			return true
		}
	}
	if x.High == nil {
		return false
	}
	if c, ok := x.High.(*ssa.Const); ok && c.Value != nil {
		if pt, ok := x.X.Type().Underlying().(*types.Pointer); ok {
			if arr, ok := pt.Elem().Underlying().(*types.Array); ok && arr.Len() == c.Int64() {
				return false
			}
		}
		return true
	}
	if call, ok := x.High.(*ssa.Call); ok {
		if bi, ok := call.Call.Value.(*ssa.Builtin); ok && bi.Name() == "len" && call.Call.Args[0] == x.X {
			return false
		}
	}
	return true
}

// LeavesOfField returns the origins of field path (".signature") of the struct v points to / holds.
func (sl *Slicer) LeavesOfField(v ssa.Value, path string) []Leaf {
	if sl.MaxDepth == 0 {
		sl.MaxDepth = 8
	}
	sl.seen = map[sliceKey]bool{}
	sl.out = map[string]Leaf{}
	sl.walk(v, &sctx{fn: sl.Root}, path, false)
	var keys []string
	for k := range sl.out {
		keys = append(keys, k)
	}
	sort.Strings(keys)
	var res []Leaf
	for _, k := range keys {
		res = append(res, sl.out[k])
	}
	return res
}

// storesThrough: when a field of the struct that pointer v designates is wanted (path ".f..."),
// stores made through v in the current function (v.f = x) are origins too. This covers values
// that were allocated in a callee and completed by the caller.
func (sl *Slicer) storesThrough(v ssa.Value, c *sctx, path string, sliced bool) {
	if !strings.HasPrefix(path, ".") {
		return
	}
	if _, ok := v.Type().Underlying().(*types.Pointer); !ok {
		return
	}
	if _, ok := Deref(v.Type()).Underlying().(*types.Struct); !ok {
		return
	}
	if _, isAlloc := v.(*ssa.Alloc); isAlloc {
		return // handled field-sensitively by walkCell
	}
	refs := v.Referrers()
	if refs == nil {
		return
	}
	want := path[1:]
	rest := ""
	if i := strings.Index(want, "."); i >= 0 {
		rest = want[i:]
		want = want[:i]
	}
	for _, ref := range *refs {
		fa, ok := ref.(*ssa.FieldAddr)
		if !ok || fa.X != v || fieldName(fa.X.Type(), fa.Field) != want {
			continue
		}
		for _, rr := range *fa.Referrers() {
			if st, ok := rr.(*ssa.Store); ok && st.Addr == ssa.Value(fa) {
				sl.walk(st.Val, c, rest, sliced)
			}
		}
	}
}

// walkLen walks the operand of len()/cap() with a separate visited-key space so that a value seen
// for its length is still visited for its content later.
func (sl *Slicer) walkLen(v ssa.Value, c *sctx, path string, sliced bool) {
	sl.walk(v, c, path, sliced)
}

// storesViaParam follows stores a callee makes through its pointer parameter pi into the cell the
// caller passed (obj.f = v inside helper(obj, ...)), and through further helpers it passes it to.
func (sl *Slicer) storesViaParam(call *ssa.Call, callee *ssa.Function, pi int, wantField, rest, fullPath string, c *sctx, sliced bool, depth int) bool {
	if depth > 5 {
		return false
	}
	found := false
	nc := &sctx{call: call, parent: c, fn: callee, depth: c.depth + 1}
	prm := callee.Params[pi]
	refs := prm.Referrers()
	if refs == nil {
		return false
	}
	sl.trail = append(sl.trail, FnKey(callee))
	defer func() { sl.trail = sl.trail[:len(sl.trail)-1] }()
	for _, ref := range *refs {
		switch r := ref.(type) {
		case *ssa.FieldAddr:
			if r.X != ssa.Value(prm) {
				continue
			}
			if wantField != "" && fieldName(r.X.Type(), r.Field) != wantField {
				continue
			}
			p := rest
			if wantField == "" {
				p = fullPath
			}
			var visit func(addr ssa.Value, d int)
			visit = func(addr ssa.Value, d int) {
				if d > 3 || addr.Referrers() == nil {
					return
				}
				for _, rr := range *addr.Referrers() {
					switch w := rr.(type) {
					case *ssa.Store:
						if w.Addr == addr {
							found = true
							sl.walk(w.Val, nc, p, sliced)
						}
					case *ssa.IndexAddr:
						if w.X == addr {
							visit(w, d+1)
						}
					case *ssa.Slice:
						if w.X == addr {
							visit(w, d+1)
						}
					case *ssa.Call:
						if bi, ok := w.Call.Value.(*ssa.Builtin); ok && bi.Name() == "copy" && len(w.Call.Args) == 2 && w.Call.Args[0] == addr {
							found = true
							sl.walk(w.Call.Args[1], nc, p, sliced)
						}
					case *ssa.UnOp:
						// loaded slice/pointer then written through: elements / copy destination
						for _, r3 := range *w.Referrers() {
							switch u := r3.(type) {
							case *ssa.IndexAddr:
								if u.X == ssa.Value(w) {
									visit(u, d+1)
								}
							case *ssa.Call:
								if bi, ok := u.Call.Value.(*ssa.Builtin); ok && bi.Name() == "copy" && len(u.Call.Args) == 2 && u.Call.Args[0] == ssa.Value(w) {
									found = true
									sl.walk(u.Call.Args[1], nc, p, sliced)
								}
							}
						}
					}
				}
			}
			visit(r, 0)
		case *ssa.Store:
			// whole-struct store *p = v
			if r.Addr == ssa.Value(prm) {
				found = true
				sl.walk(r.Val, nc, fullPath, sliced)
			}
		case *ssa.Call:
			if inner := r.Call.StaticCallee(); inner != nil && InLib(inner) && len(inner.Blocks) > 0 {
				for ai, a := range r.Call.Args {
					if a == ssa.Value(prm) && ai < len(inner.Params) {
						if sl.storesViaParam(r, inner, ai, wantField, rest, fullPath, nc, sliced, depth+1) {
							found = true
						}
					}
				}
			}
		}
	}
	return found
}
