package an

import (
	"fmt"
	"go/constant"
	"go/token"
	"go/types"
	"sort"
	"strings"

	"golang.org/x/tools/go/ssa"
)

// Engine E11: relational bounds proofs. Integer SSA values and slice lengths are normalised to
// linear forms over atoms; facts are linear inequalities gathered from dominating branch edges,
// from the post-conditions of library callees (summaries computed bottom-up) and from the types
// of the atoms; a goal "L >= 0" is proved by bounded Fourier-Motzkin elimination. A goal that
// cannot be proved inside a function but only mentions its parameters becomes a pre-condition
// that every static call site must establish.

// Term is an atom: an integer quantity or the length of a slice/string quantity.
type Term struct {
	K   any // ssa.Value | callRes | slot | fieldKey
	Len bool
}

type callRes struct {
	C ssa.CallInstruction
	I int
}

// slot is a summary placeholder: parameter i or result i of the summarised function.
type slot struct {
	I   int
	Res bool
}

// fieldKey names the content of a field reached from a base value when the field is never
// written by any function the current function can reach.
type fieldKey struct {
	Base any
	Path string
	F    string // "pkg.Type.field" of the last field of the path ("" for element/call keys)
}

// Lin is C + Σ T[t]·t.
type Lin struct {
	C int64
	T map[Term]int64
}

func LinConst(c int64) Lin { return Lin{C: c} }
func LinTerm(t Term) Lin   { return Lin{T: map[Term]int64{t: 1}} }

func (a Lin) Add(b Lin, k int64) Lin {
	r := Lin{C: a.C + k*b.C, T: map[Term]int64{}}
	for t, c := range a.T {
		r.T[t] += c
	}
	for t, c := range b.T {
		r.T[t] += k * c
	}
	for t, c := range r.T {
		if c == 0 {
			delete(r.T, t)
		}
	}
	return r
}

func (a Lin) Scale(k int64) Lin { return Lin{}.Add(a, k) }

func (a Lin) IsConst() bool { return len(a.T) == 0 }

// Subst replaces the single atom of `atom` (a form consisting of exactly one atom with
// coefficient 1) by the form `by`.
func (a Lin) Subst(atom, by Lin) Lin {
	if len(atom.T) != 1 || atom.C != 0 {
		return a
	}
	for t, c := range atom.T {
		if c != 1 {
			return a
		}
		k, ok := a.T[t]
		if !ok {
			return a
		}
		out := LinConst(a.C)
		for u, cu := range a.T {
			if u != t {
				out = out.Add(LinTerm(u), cu)
			}
		}
		return out.Add(by, k)
	}
	return a
}

func (a Lin) Equal(b Lin) bool {
	d := a.Add(b, -1)
	return d.IsConst() && d.C == 0
}

func termString(t Term) string {
	var s string
	switch k := t.K.(type) {
	case ssa.Value:
		s = k.Name()
		if p, ok := k.(*ssa.Parameter); ok {
			s = p.Name()
		}
	case callRes:
		name := "call"
		if f := k.C.Common().StaticCallee(); f != nil {
			name = f.Name()
		} else if k.C.Common().IsInvoke() {
			name = k.C.Common().Method.Name()
		}
		s = fmt.Sprintf("%s()#%d", name, k.I)
	case slot:
		if k.Res {
			s = fmt.Sprintf("result%d", k.I)
		} else {
			s = fmt.Sprintf("param%d", k.I)
		}
	case fieldKey:
		s = termString(Term{K: k.Base}) + k.Path
	default:
		s = fmt.Sprint(k)
	}
	if t.Len {
		return "len(" + s + ")"
	}
	return s
}

func (a Lin) String() string {
	var parts []string
	for t, c := range a.T {
		switch c {
		case 1:
			parts = append(parts, termString(t))
		case -1:
			parts = append(parts, "-"+termString(t))
		default:
			parts = append(parts, fmt.Sprintf("%d*%s", c, termString(t)))
		}
	}
	sort.Strings(parts)
	if a.C != 0 || len(parts) == 0 {
		parts = append(parts, fmt.Sprint(a.C))
	}
	return strings.ReplaceAll(strings.Join(parts, " + "), "+ -", "- ")
}

// Fact: L >= 0, optionally with a human-readable origin.
type Fact struct {
	L   Lin
	Why string
	Neq bool // L != 0 instead of L >= 0 (strengthened into an inequality once a side is known)
}

// Cond qualifies a summary fact: it holds whenever the call returns (CondAlways), when the error
// result is nil (CondErrNil), or when boolean result 0 is true/false.
type Cond int

const (
	CondAlways Cond = iota
	CondErrNil
	CondTrue
	CondFalse
)

type SumFact struct {
	Cond Cond
	Idx  int // result index the condition speaks about (bool conditions)
	L    Lin // over slot terms
}

type Summary struct {
	Facts []SumFact
}

// Bounds is the engine instance.
type Bounds struct {
	P    *Prog
	Flow *Flow

	sums       map[*ssa.Function]*Summary
	inProg     map[*ssa.Function]bool
	callers    map[*ssa.Function][]*ssa.Call
	valueUse   map[*ssa.Function]int
	fieldW     map[string]map[*ssa.Function]bool // "pkg.Type.field" -> writers
	reachMemo  map[*ssa.Function]map[*ssa.Function]bool
	factsMemo  map[factsKey][]Fact
	loopMemo   map[factsKey][]Fact
	allMemo    map[factsKey][]Fact
	domFacts   map[*ssa.Function]bool
	PureCalls  func(callee *ssa.Function) bool // calls whose result may be identified by (callee, args)
	// Axioms yields trusted facts about the result of a call (rule-supplied, documented there).
	Axioms      func(b *Bounds, c *ssa.Call, prove func(Lin) bool) []Fact
	fieldStores []*ssa.Store
	fieldLen    map[string]fieldLenInv
	inAxiom     bool
	specSums    map[*ssa.Function]map[string]*Summary
	Debug       func(string)
	env         map[*ssa.Parameter]int64 // parameters fixed by the specialisation being computed
	envKey      map[*ssa.Function]string
	// IsEntry: functions whose callers are outside the analysed program (a pre-condition on their
	// parameters cannot be discharged). InScope: callers that count when a pre-condition is pushed up.
	IsEntry func(*ssa.Function) bool
	InScope func(*ssa.Function) bool
	MaxReqHops int
	Stats      map[string]int
}

func NewBounds(p *Prog) *Bounds {
	b := &Bounds{P: p, Flow: NewFlow(p), sums: map[*ssa.Function]*Summary{}, inProg: map[*ssa.Function]bool{},
		callers: map[*ssa.Function][]*ssa.Call{}, valueUse: map[*ssa.Function]int{}, fieldW: map[string]map[*ssa.Function]bool{},
		reachMemo: map[*ssa.Function]map[*ssa.Function]bool{}, factsMemo: map[factsKey][]Fact{}, loopMemo: map[factsKey][]Fact{}, allMemo: map[factsKey][]Fact{}, MaxReqHops: 5, Stats: map[string]int{}}
	for _, fn := range p.RepoFns {
		for _, blk := range fn.Blocks {
			for _, in := range blk.Instrs {
				if c, ok := in.(*ssa.Call); ok {
					if g := c.Call.StaticCallee(); g != nil {
						b.callers[g] = append(b.callers[g], c)
					}
				}
				if ci, ok := in.(ssa.CallInstruction); ok {
					if _, isCall := in.(*ssa.Call); !isCall {
						if g := ci.Common().StaticCallee(); g != nil {
							b.valueUse[g]++ // go/defer: treated as an untracked use
						}
					}
				}
				for _, op := range in.Operands(nil) {
					if op == nil || *op == nil {
						continue
					}
					if g, ok := (*op).(*ssa.Function); ok {
						if ci, isCall := in.(ssa.CallInstruction); isCall && ci.Common().Value == ssa.Value(g) {
							continue
						}
						b.valueUse[g]++
					}
				}
				if st, ok := in.(*ssa.Store); ok {
					if ia, isIA := st.Addr.(*ssa.IndexAddr); isIA {
						if pk, name := NamedOf(ia.X.Type()); name != "" {
							ek := "elem:" + pk + "." + name
							if b.fieldW[ek] == nil {
								b.fieldW[ek] = map[*ssa.Function]bool{}
							}
							b.fieldW[ek][fn] = true
						}
					}
					b.fieldStores = append(b.fieldStores, st)
					if key := fieldPathKey(st.Addr); key != "" {
						if b.fieldW[key] == nil {
							b.fieldW[key] = map[*ssa.Function]bool{}
						}
						b.fieldW[key][fn] = true
					}
				}
			}
		}
	}
	return b
}

// fieldPathKey: "pkg.Type.field" of the outermost FieldAddr of a store address (through IndexAddr).
func fieldPathKey(addr ssa.Value) string {
	for i := 0; i < 6; i++ {
		switch x := addr.(type) {
		case *ssa.FieldAddr:
			st, ok := Deref(x.X.Type()).Underlying().(*types.Struct)
			if !ok {
				return ""
			}
			pk, name := NamedOf(Deref(x.X.Type()))
			return pk + "." + name + "." + st.Field(x.Field).Name()
		case *ssa.IndexAddr:
			addr = x.X
		default:
			return ""
		}
	}
	return ""
}

func (b *Bounds) reach(fn *ssa.Function) map[*ssa.Function]bool {
	if m, ok := b.reachMemo[fn]; ok {
		return m
	}
	m := map[*ssa.Function]bool{}
	for f := range b.P.Reachable(b.P.CG(), []*ssa.Function{fn}, func(f *ssa.Function) bool { return IsRepoPath(FnPkgPath(f)) }) {
		m[f] = true
	}
	b.reachMemo[fn] = m
	return m
}

// ---- normalisation -----------------------------------------------------------------------------

func intRangeOfType(t types.Type) (lo, hi int64, ok bool) {
	bt, isB := t.Underlying().(*types.Basic)
	if !isB {
		return 0, 0, false
	}
	switch bt.Kind() {
	case types.Int8:
		return -128, 127, true
	case types.Int16:
		return -32768, 32767, true
	case types.Int32:
		return -1 << 31, 1<<31 - 1, true
	case types.Int, types.Int64, types.UntypedInt:
		return NegInf, PosInf, true
	case types.Uint8:
		return 0, 255, true
	case types.Uint16:
		return 0, 65535, true
	case types.Uint32:
		return 0, 1<<32 - 1, true
	case types.Uint, types.Uint64, types.Uintptr:
		return 0, PosInf, true
	}
	return 0, 0, false
}

func termKey(v ssa.Value) any {
	switch x := v.(type) {
	case *ssa.Extract:
		if c, ok := x.Tuple.(ssa.CallInstruction); ok {
			return callRes{c, x.Index}
		}
	case *ssa.Call:
		return callRes{x, 0}
	case *ssa.Field:
		// a field of a by-value struct parameter: the same quantity at every mention
		if prm, ok := x.X.(*ssa.Parameter); ok {
			if st, ok := prm.Type().Underlying().(*types.Struct); ok && x.Field < st.NumFields() {
				return fieldKey{Base: prm, Path: "." + st.Field(x.Field).Name()}
			}
		}
	}
	return v
}

// resolveLoad: the value a load yields, when the cell has a single store that dominates the load.
func (b *Bounds) resolveLoad(u *ssa.UnOp) (ssa.Value, bool) {
	if u.Op != token.MUL {
		return nil, false
	}
	al, ok := u.X.(*ssa.Alloc)
	if !ok {
		return nil, false
	}
	var st *ssa.Store
	for _, ref := range *al.Referrers() {
		switch r := ref.(type) {
		case *ssa.Store:
			if r.Addr != ssa.Value(al) {
				return nil, false // address escapes into memory
			}
			if st != nil {
				return nil, false
			}
			st = r
		case *ssa.UnOp, *ssa.DebugRef:
		case *ssa.Return:
			// the address leaves the function only when it ends: no effect on earlier loads
		default:
			return nil, false // address passed on (call, field addressing): not tracked
		}
	}
	if st == nil {
		return nil, false
	}
	if st.Block() == u.Block() {
		if InstrIndex(st) < InstrIndex(u) {
			return st.Val, true
		}
		return nil, false
	}
	if st.Block().Dominates(u.Block()) {
		return st.Val, true
	}
	return nil, false
}

// fieldLoadKey: canonical key for *(&base.f1.f2) when no function reachable from fn writes the fields.
func (b *Bounds) fieldLoadKey(fn *ssa.Function, u *ssa.UnOp) (any, bool) {
	if u.Op != token.MUL {
		return nil, false
	}
	path := ""
	lastF := ""
	addr := u.X
	// whole value behind a pointer a library call returned (fresh object, not stored through here)
	if _, isPtr := addr.Type().Underlying().(*types.Pointer); isPtr {
		if cr, isCR := termKey(addr).(callRes); isCR {
			if _, isStruct := Deref(addr.Type()).Underlying().(*types.Struct); !isStruct {
				if callee := cr.C.Common().StaticCallee(); callee != nil && InLib(callee) {
					stored := false
					for _, blk := range fn.Blocks {
						for _, in := range blk.Instrs {
							if st, ok := in.(*ssa.Store); ok {
								if k, ok := termKey(st.Addr).(callRes); ok && k == cr {
									stored = true
								}
							}
						}
					}
					if !stored {
						return fieldKey{Base: cr, Path: ".*"}, true
					}
				}
			}
		}
	}
	// whole value behind a pointer parameter that this function neither stores through nor passes on
	if p, isP := addr.(*ssa.Parameter); isP {
		if _, isPtr := p.Type().Underlying().(*types.Pointer); isPtr && p.Parent() == fn {
			if _, isStruct := Deref(p.Type()).Underlying().(*types.Struct); !isStruct {
				for _, ref := range *p.Referrers() {
					switch r := ref.(type) {
					case *ssa.UnOp, *ssa.DebugRef:
					case *ssa.BinOp: // nil comparison
					case *ssa.Store:
						if r.Addr == ssa.Value(p) {
							return nil, false
						}
						return nil, false
					case ssa.CallInstruction:
						// passed on as a pointer: only to library functions that do not store through it
						callee := r.Common().StaticCallee()
						if callee == nil || !InLib(callee) {
							return nil, false
						}
					default:
						return nil, false
					}
				}
				return fieldKey{Base: ssa.Value(p), Path: ".*"}, true
			}
		}
		return nil, false
	}
	// constant element of an array parameter spilled into a local that is never modified
	if ia, ok := addr.(*ssa.IndexAddr); ok {
		if al, isA := ia.X.(*ssa.Alloc); isA {
			k, isC := ia.Index.(*ssa.Const)
			if !isC || k.Value == nil {
				return nil, false
			}
			var src ssa.Value
			n := 0
			for _, ref := range *al.Referrers() {
				switch r := ref.(type) {
				case *ssa.Store:
					if r.Addr == ssa.Value(al) {
						n++
						src = r.Val
					}
				case *ssa.IndexAddr:
					for _, r2 := range *r.Referrers() {
						if _, isLoad := r2.(*ssa.UnOp); !isLoad {
							if _, isDbg := r2.(*ssa.DebugRef); !isDbg {
								return nil, false
							}
						}
					}
				case *ssa.UnOp, *ssa.DebugRef:
				default:
					return nil, false
				}
			}
			if p, isP := src.(*ssa.Parameter); n == 1 && isP {
				return fieldKey{Base: ssa.Value(p), Path: fmt.Sprintf("[%d]", k.Int64())}, true
			}
			return nil, false
		}
	}
	// constant element of a named byte sequence (x[k]) whose elements nothing reachable writes
	if ia, ok := addr.(*ssa.IndexAddr); ok {
		k, isC := ia.Index.(*ssa.Const)
		pk, name := NamedOf(ia.X.Type())
		if !isC || k.Value == nil || name == "" || !IsLibPath(pk) {
			return nil, false
		}
		ek := "elem:" + pk + "." + name
		reach := b.reach(fn)
		for w := range b.fieldW[ek] {
			if reach[w] || w == fn {
				return nil, false
			}
		}
		if !isByteSeq(ia.X.Type()) {
			return nil, false
		}
		path = fmt.Sprintf("[%d]byte", k.Int64())
		addr = ia.X
		if p, isP := addr.(*ssa.Parameter); isP {
			return fieldKey{Base: ssa.Value(p), Path: path}, true
		}
		if ul, isU := addr.(*ssa.UnOp); isU {
			if v, ok := b.resolveLoad(ul); ok {
				if p, isP := v.(*ssa.Parameter); isP {
					return fieldKey{Base: ssa.Value(p), Path: path}, true
				}
			}
		}
		return nil, false
	}
	for i := 0; i < 6; i++ {
		fa, ok := addr.(*ssa.FieldAddr)
		if !ok {
			break
		}
		key := fieldPathKey(fa)
		if key == "" {
			return nil, false
		}
		reach := b.reach(fn)
		for w := range b.fieldW[key] {
			if reach[w] || w == fn {
				return nil, false
			}
		}
		st := Deref(fa.X.Type()).Underlying().(*types.Struct)
		path = "." + st.Field(fa.Field).Name() + path
		if lastF == "" {
			lastF = key
		}
		addr = fa.X
	}
	if path == "" {
		return nil, false
	}
	switch base := addr.(type) {
	case *ssa.Parameter:
		return fieldKey{Base: ssa.Value(base), Path: path, F: lastF}, true
	case *ssa.UnOp:
		// pointer loaded from a spilled parameter / single-store cell
		if v, ok := b.resolveLoad(base); ok {
			if p, isP := v.(*ssa.Parameter); isP {
				return fieldKey{Base: ssa.Value(p), Path: path, F: lastF}, true
			}
		}
	case *ssa.Alloc:
		// value receiver spilled into a local: fields of the copy equal the parameter's when the
		// only store is the whole-struct spill
		var src ssa.Value
		n := 0
		for _, ref := range *base.Referrers() {
			if st, ok := ref.(*ssa.Store); ok && st.Addr == ssa.Value(base) {
				n++
				src = st.Val
			}
		}
		if n == 1 {
			if p, isP := src.(*ssa.Parameter); isP {
				// no field of the copy may be stored to either
				for _, ref := range *base.Referrers() {
					if fa, ok := ref.(*ssa.FieldAddr); ok {
						for _, r2 := range *fa.Referrers() {
							if st, ok := r2.(*ssa.Store); ok && st.Addr == ssa.Value(fa) {
								return nil, false
							}
						}
					}
				}
				return fieldKey{Base: ssa.Value(p), Path: path, F: lastF}, true
			}
		}
	}
	return nil, false
}

// LinOf normalises an integer value.
func (b *Bounds) LinOf(v ssa.Value) Lin { return b.linOf(v, 0) }

func (b *Bounds) linOf(v ssa.Value, d int) Lin {
	if d > 24 {
		return LinTerm(Term{K: termKey(v)})
	}
	switch x := v.(type) {
	case *ssa.Parameter:
		if c, ok := b.env[x]; ok {
			return LinConst(c)
		}
	case *ssa.Const:
		if x.Value != nil && x.Value.Kind() == constant.Int {
			if i, ok := constant.Int64Val(x.Value); ok {
				return LinConst(i)
			}
		}
	case *ssa.Convert:
		slo, shi, ok1 := intRangeOfType(x.X.Type())
		dlo, dhi, ok2 := intRangeOfType(x.Type())
		if ok1 && ok2 && slo >= dlo && shi <= dhi {
			return b.linOf(x.X, d+1)
		}
	case *ssa.ChangeType:
		return b.linOf(x.X, d+1)
	case *ssa.BinOp:
		lo, _, ok := intRangeOfType(x.Type())
		signedWide := ok && lo == NegInf
		switch x.Op {
		case token.ADD:
			if signedWide {
				return b.linOf(x.X, d+1).Add(b.linOf(x.Y, d+1), 1)
			}
		case token.SUB:
			if signedWide {
				return b.linOf(x.X, d+1).Add(b.linOf(x.Y, d+1), -1)
			}
		case token.MUL:
			if signedWide {
				l, r := b.linOf(x.X, d+1), b.linOf(x.Y, d+1)
				if l.IsConst() {
					l, r = r, l
				}
				if r.IsConst() && r.C > -1<<20 && r.C < 1<<20 {
					return l.Scale(r.C)
				}
			}
		}
	case *ssa.Call:
		if bi, ok := x.Call.Value.(*ssa.Builtin); ok && bi.Name() == "len" {
			return b.lenOf(x.Call.Args[0], d+1)
		}
		if callee := x.Call.StaticCallee(); callee != nil && b.PureCalls != nil && b.PureCalls(callee) {
			if k, ok := b.pureKey(x); ok {
				return LinTerm(Term{K: k})
			}
		}
	case *ssa.UnOp:
		if w, ok := b.resolveLoad(x); ok {
			return b.linOf(w, d+1)
		}
		if x.Op == token.MUL {
			if fa, ok := x.X.(*ssa.FieldAddr); ok {
				if al, ok := fa.X.(*ssa.Alloc); ok {
					if _, _, isInt := intRangeOfType(x.Type()); isInt {
						none := func(ssa.Value) string { return "" }
						if a := StructFieldOfAlloc(al, fa.Field, none, b.callers, 0); a.OK && len(nonzero(a.Terms)) == 0 {
							return LinConst(a.C)
						}
					}
				}
			}
		}
		if k, ok := b.fieldLoadKey(x.Parent(), x); ok {
			return LinTerm(Term{K: k})
		}
		if w, ok := b.localFieldStore(x); ok {
			return b.linOf(w, d+1)
		}
	case *ssa.Field:
		// an integer field of an immutable carrier struct that evaluates to a constant (built by a
		// library function from constants; by-value parameters: the same constant at every caller)
		if _, _, isInt := intRangeOfType(x.Type()); isInt {
			none := func(ssa.Value) string { return "" }
			if a := StructFieldAffine(x.X, x.Field, none, b.callers, 0); a.OK && len(nonzero(a.Terms)) == 0 {
				return LinConst(a.C)
			}
		}
	}
	return LinTerm(Term{K: termKey(v)})
}

// localFieldStore: the load reads base.f where this function stores base.f exactly once, that
// store dominates the load, and no other function reachable from here writes the field.
func (b *Bounds) localFieldStore(u *ssa.UnOp) (ssa.Value, bool) {
	if u.Op != token.MUL {
		return nil, false
	}
	fa, ok := u.X.(*ssa.FieldAddr)
	if !ok {
		return nil, false
	}
	key := fieldPathKey(fa)
	if key == "" {
		return nil, false
	}
	fn := u.Parent()
	reach := b.reach(fn)
	for w := range b.fieldW[key] {
		if w != fn && reach[w] {
			return nil, false
		}
	}
	var st *ssa.Store
	for _, blk := range fn.Blocks {
		for _, in := range blk.Instrs {
			s, ok := in.(*ssa.Store)
			if !ok {
				continue
			}
			sfa, ok := s.Addr.(*ssa.FieldAddr)
			if !ok || fieldPathKey(sfa) != key {
				continue
			}
			if sfa.X != fa.X || st != nil {
				return nil, false // another object of the type, or a second store
			}
			st = s
		}
	}
	if st == nil {
		return nil, false
	}
	if st.Block() == u.Block() {
		if InstrIndex(st) < InstrIndex(u) {
			return st.Val, true
		}
		return nil, false
	}
	if st.Block().Dominates(u.Block()) {
		return st.Val, true
	}
	return nil, false
}

// pureKey identifies a call of a pure accessor by callee and canonical receiver/arguments.
func (b *Bounds) pureKey(c *ssa.Call) (any, bool) {
	callee := c.Call.StaticCallee()
	parts := []string{FnKey(callee)}
	var base any
	for i, a := range c.Call.Args {
		switch x := a.(type) {
		case *ssa.Const:
			parts = append(parts, x.String())
			continue
		case *ssa.UnOp:
			if w, ok := b.resolveLoad(x); ok {
				a = w
			} else if k, ok := b.fieldLoadKey(c.Parent(), x); ok {
				if i == 0 {
					base = k
					continue
				}
				return nil, false
			}
		}
		if i == 0 {
			base = termKey(a)
			continue
		}
		return nil, false
	}
	if base == nil {
		return nil, false
	}
	if fk, ok := base.(fieldKey); ok {
		return fieldKey{Base: fk.Base, Path: fk.Path + "." + strings.Join(parts, ",") + "()"}, true
	}
	return fieldKey{Base: base, Path: "." + strings.Join(parts, ",") + "()"}, true
}

// LenOf normalises len(v) for slices, strings, arrays and array pointers.
func (b *Bounds) LenOf(v ssa.Value) Lin { return b.lenOf(v, 0) }

func arrayLen(t types.Type) (int64, bool) {
	if p, ok := t.Underlying().(*types.Pointer); ok {
		t = p.Elem()
	}
	if a, ok := t.Underlying().(*types.Array); ok {
		return a.Len(), true
	}
	return 0, false
}

func (b *Bounds) lenOf(v ssa.Value, d int) Lin {
	if d > 24 {
		return LinTerm(Term{K: termKey(v), Len: true})
	}
	if n, ok := arrayLen(v.Type()); ok {
		return LinConst(n)
	}
	switch x := v.(type) {
	case *ssa.Slice:
		var hi Lin
		if x.High != nil {
			hi = b.linOf(x.High, d+1)
		} else {
			hi = b.lenOf(x.X, d+1)
		}
		if x.Low != nil {
			return hi.Add(b.linOf(x.Low, d+1), -1)
		}
		return hi
	case *ssa.MakeSlice:
		return b.linOf(x.Len, d+1)
	case *ssa.Const:
		if x.Value == nil {
			return LinConst(0)
		}
		if x.Value.Kind() == constant.String {
			return LinConst(int64(len(constant.StringVal(x.Value))))
		}
	case *ssa.Convert:
		// string <-> []byte keep the length
		if isByteSeq(x.X.Type()) && isByteSeq(x.Type()) {
			return b.lenOf(x.X, d+1)
		}
	case *ssa.ChangeType:
		return b.lenOf(x.X, d+1)
	case *ssa.UnOp:
		if w, ok := b.resolveLoad(x); ok {
			return b.lenOf(w, d+1)
		}
		if k, ok := b.fieldLoadKey(x.Parent(), x); ok {
			return LinTerm(Term{K: k, Len: true})
		}
		if w, ok := b.localFieldStore(x); ok {
			return b.lenOf(w, d+1)
		}
	case *ssa.Call:
		if bi, ok := x.Call.Value.(*ssa.Builtin); ok && bi.Name() == "append" && len(x.Call.Args) == 2 {
			return b.lenOf(x.Call.Args[0], d+1).Add(b.lenOf(x.Call.Args[1], d+1), 1)
		}
		if callee := x.Call.StaticCallee(); callee != nil && b.PureCalls != nil && b.PureCalls(callee) {
			if k, ok := b.pureKey(x); ok {
				return LinTerm(Term{K: k, Len: true})
			}
		}
	}
	return LinTerm(Term{K: termKey(v), Len: true})
}

func isByteSeq(t types.Type) bool {
	switch u := t.Underlying().(type) {
	case *types.Basic:
		return u.Info()&types.IsString != 0
	case *types.Slice:
		bt, ok := u.Elem().Underlying().(*types.Basic)
		return ok && bt.Kind() == types.Uint8
	}
	return false
}

// ---- facts -------------------------------------------------------------------------------------

// condFacts: inequalities implied by cond having the given truth value.
func (b *Bounds) condFacts(cond ssa.Value, truth bool, why string) []Fact {
	switch x := cond.(type) {
	case *ssa.UnOp:
		if x.Op == token.NOT {
			return b.condFacts(x.X, !truth, why)
		}
	case *ssa.BinOp:
		if _, _, ok := intRangeOfType(x.X.Type()); !ok {
			return nil
		}
		l, r := b.LinOf(x.X), b.LinOf(x.Y)
		op := x.Op
		if !truth {
			switch op {
			case token.LSS:
				op = token.GEQ
			case token.LEQ:
				op = token.GTR
			case token.GTR:
				op = token.LEQ
			case token.GEQ:
				op = token.LSS
			case token.EQL:
				op = token.NEQ
			case token.NEQ:
				op = token.EQL
			default:
				return nil
			}
		}
		switch op {
		case token.LSS: // l < r  =>  r - l - 1 >= 0
			return []Fact{{L: r.Add(l, -1).Add(LinConst(1), -1), Why: why}}
		case token.LEQ:
			return []Fact{{L: r.Add(l, -1), Why: why}}
		case token.GTR:
			return []Fact{{L: l.Add(r, -1).Add(LinConst(1), -1), Why: why}}
		case token.GEQ:
			return []Fact{{L: l.Add(r, -1), Why: why}}
		case token.EQL:
			return []Fact{{L: l.Add(r, -1), Why: why}, {L: r.Add(l, -1), Why: why}}
		case token.NEQ:
			return []Fact{{L: l.Add(r, -1), Why: why, Neq: true}}
		}
	}
	return nil
}

// nonNegByType: every atom has a non-negative coefficient and a non-negative type, constant >= 0.
func (b *Bounds) nonNegByType(l Lin) bool {
	if l.C < 0 {
		return false
	}
	for t, c := range l.T {
		if c < 0 {
			return false
		}
		lo, _ := b.typeBounds(t)
		if lo == NegInf || lo < 0 {
			return false
		}
	}
	return true
}

// typeBounds: bounds of an atom from its type (and simple phi induction).
func (b *Bounds) typeBounds(t Term) (lo, hi int64) {
	if t.Len {
		hi = PosInf
		if fk, ok := t.K.(fieldKey); ok && fk.F != "" {
			if inv, ok := b.fieldLenInvariant(fk.F); ok {
				hi = inv.max
			}
		}
		if u, ok := t.K.(*ssa.UnOp); ok && u.Op == token.MUL {
			if key := fieldPathKey(u.X); key != "" {
				if _, isFA := u.X.(*ssa.FieldAddr); isFA {
					if inv, ok := b.fieldLenInvariant(key); ok {
						hi = inv.max
					}
				}
			}
		}
		return 0, hi
	}
	lo, hi = NegInf, PosInf
	var typ types.Type
	switch k := t.K.(type) {
	case ssa.Value:
		typ = k.Type()
		if phi, ok := k.(*ssa.Phi); ok {
			if l, ok := phiBound(phi, true); ok {
				lo = l
			}
			if h, ok := phiBound(phi, false); ok {
				hi = h
			}
		}
		if f, ok := k.(*ssa.Field); ok {
			if l, h, ok := b.tableFieldBounds(f.X, f.Field); ok {
				lo, hi = l, h
			}
		}
		if l, h, ok := b.tableScalarBounds(k); ok {
			lo, hi = l, h
		}
		if u, ok := k.(*ssa.UnOp); ok && u.Op == token.MUL {
			if fa, ok := u.X.(*ssa.FieldAddr); ok {
				if al, ok := fa.X.(*ssa.Alloc); ok {
					var src ssa.Value
					n := 0
					for _, ref := range *al.Referrers() {
						if st, ok := ref.(*ssa.Store); ok && st.Addr == ssa.Value(al) {
							n++
							src = st.Val
						}
						if fa2, ok := ref.(*ssa.FieldAddr); ok {
							for _, r2 := range *fa2.Referrers() {
								if st, ok := r2.(*ssa.Store); ok && st.Addr == ssa.Value(fa2) {
									n += 2
								}
							}
						}
					}
					if n == 1 {
						if l, h, ok := b.tableFieldBounds(src, fa.Field); ok {
							lo, hi = l, h
						}
					}
				}
			}
		}
	case callRes:
		if sig := k.C.Common().Signature(); sig != nil && k.I < sig.Results().Len() {
			typ = sig.Results().At(k.I).Type()
		}
	case fieldKey:
		if strings.HasSuffix(k.Path, "]byte") {
			return 0, 255
		}
	}
	if typ != nil {
		if tl, th, ok := intRangeOfType(typ); ok {
			if tl > lo {
				lo = tl
			}
			if th < hi {
				hi = th
			}
		}
	}
	return
}

type fieldLenInv struct {
	max   int64
	known bool
}

// fieldLenInvariant: an upper bound on len(x.f) that holds for every value the library itself
// stores into the (unexported) field: at each store the stored value's length is bounded by a
// constant (from the facts at the store, or established by all callers). The zero value
// (length 0) is always included.
func (b *Bounds) fieldLenInvariant(key string) (fieldLenInv, bool) {
	if b.fieldLen == nil {
		b.fieldLen = map[string]fieldLenInv{}
	}
	if inv, ok := b.fieldLen[key]; ok {
		return inv, inv.known
	}
	b.fieldLen[key] = fieldLenInv{} // in progress: unknown
	inv := fieldLenInv{known: true}
	n := 0
	for _, st := range b.fieldStores {
		fa, ok := st.Addr.(*ssa.FieldAddr)
		if !ok || fieldPathKey(fa) != key {
			continue
		}
		if !isSeq(st.Val.Type()) {
			return fieldLenInv{}, false
		}
		stt := Deref(fa.X.Type()).Underlying().(*types.Struct)
		if stt.Field(fa.Field).Exported() {
			return fieldLenInv{}, false // anyone may store into an exported field
		}
		n++
		l := b.LenOf(st.Val)
		_, hi := b.boundsOfLin(l, b.FactsAt(st.Block(), InstrIndex(st)))
		if hi == PosInf {
			// try the small bounds that matter
			found := false
			for _, k := range []int64{2, 7, 8, 255, 65535} {
				if b.ProveAt(st, LinConst(k).Add(l, -1)).OK {
					hi, found = k, true
					break
				}
			}
			if !found {
				if b.Debug != nil {
					b.Debug(fmt.Sprintf("field invariant %s: store at %s has unbounded length %s", key, b.P.Pos(st.Pos()), l))
				}
				inv.known = false
				break
			}
		}
		if hi > inv.max {
			inv.max = hi
		}
	}
	if n == 0 {
		inv.known = false
	}
	b.fieldLen[key] = inv
	return inv, inv.known
}

// phiBound: every incoming edge is a constant or the phi itself moved by a constant in the
// direction that keeps the bound (lower: +c with c >= 0; upper: -c).
func phiBound(phi *ssa.Phi, lower bool) (int64, bool) {
	bound := int64(PosInf)
	if !lower {
		bound = NegInf
	}
	seen := false
	for _, e := range phi.Edges {
		switch x := e.(type) {
		case *ssa.Const:
			if x.Value == nil || x.Value.Kind() != constant.Int {
				return 0, false
			}
			v := x.Int64()
			if (lower && v < bound) || (!lower && v > bound) {
				bound = v
			}
			seen = true
		case *ssa.BinOp:
			c, ok := x.Y.(*ssa.Const)
			if x.X != ssa.Value(phi) || !ok || c.Value == nil || c.Value.Kind() != constant.Int {
				return 0, false
			}
			step := c.Int64()
			if x.Op == token.SUB {
				step = -step
			} else if x.Op != token.ADD {
				return 0, false
			}
			if (lower && step < 0) || (!lower && step > 0) {
				return 0, false
			}
		default:
			return 0, false
		}
	}
	return bound, seen
}

// tableScalarBounds: v is the integer looked up (plain or comma-ok) in a package-level map with
// integer values that is initialised by a constant composite literal and never written afterwards:
// its range over all entries and the zero value for a missing key.
func (b *Bounds) tableScalarBounds(v ssa.Value) (lo, hi int64, ok bool) {
	if ex, isEx := v.(*ssa.Extract); isEx {
		if ex.Index != 0 {
			return 0, 0, false
		}
		v = ex.Tuple
	}
	lk, isL := v.(*ssa.Lookup)
	if !isL {
		return 0, 0, false
	}
	ld, isU := lk.X.(*ssa.UnOp)
	if !isU {
		return 0, 0, false
	}
	g, isG := ld.X.(*ssa.Global)
	if !isG || g.Pkg == nil || len(b.P.GlobalWrites(g)) > 0 {
		return 0, 0, false
	}
	tab, err := b.P.GlobalTable(ShortPkg(g.Pkg.Pkg.Path()), g.Name())
	if err != nil || tab.Scalar == nil {
		return 0, 0, false
	}
	lo, hi = 0, 0
	for _, k := range tab.Keys {
		x, ok := tab.Int(k, "")
		if !ok {
			return 0, 0, false
		}
		if x < lo {
			lo = x
		}
		if x > hi {
			hi = x
		}
	}
	return lo, hi, true
}

// tableFieldBounds: v is field f of the value looked up in a package-level map that is initialised
// by a constant composite literal and never written afterwards: its range over all entries (and
// the zero value for a missing key).
func (b *Bounds) tableFieldBounds(x ssa.Value, field int) (lo, hi int64, ok bool) {
	structT := x.Type()
	if ex, isEx := x.(*ssa.Extract); isEx {
		x = ex.Tuple
	}
	lk, isL := x.(*ssa.Lookup)
	if !isL {
		return 0, 0, false
	}
	ld, isU := lk.X.(*ssa.UnOp)
	if !isU {
		return 0, 0, false
	}
	g, isG := ld.X.(*ssa.Global)
	if !isG || g.Pkg == nil || len(b.P.GlobalWrites(g)) > 0 {
		return 0, 0, false
	}
	tab, err := b.P.GlobalTable(ShortPkg(g.Pkg.Pkg.Path()), g.Name())
	if err != nil || tab.Fields == nil {
		return 0, 0, false
	}
	st, isS := structT.Underlying().(*types.Struct)
	if !isS {
		return 0, 0, false
	}
	name := st.Field(field).Name()
	lo, hi = 0, 0
	for _, k := range tab.Keys {
		v, ok := tab.Int(k, name)
		if !ok {
			return 0, 0, false
		}
		if v < lo {
			lo = v
		}
		if v > hi {
			hi = v
		}
	}
	return lo, hi, true
}

// FactsAt: facts that hold whenever control is at the start of blk's instruction idx.
func (b *Bounds) FactsAt(blk *ssa.BasicBlock, idx int) []Fact {
	facts := append([]Fact{}, b.blockFacts(blk)...)
	// calls earlier in the same block
	var calls []*ssa.Call
	for i := 0; i < idx && i < len(blk.Instrs); i++ {
		if c, ok := blk.Instrs[i].(*ssa.Call); ok {
			facts = append(facts, b.callFacts(c, blk, true)...)
			calls = append(calls, c)
		}
	}
	facts = append(facts, b.axiomFacts(calls, facts)...)
	return facts
}

// axiomFacts: rule-supplied trusted facts about call results, evaluated with the facts known so far.
func (b *Bounds) axiomFacts(calls []*ssa.Call, known []Fact) []Fact {
	if b.Axioms == nil || len(calls) == 0 {
		return nil
	}
	var out []Fact
	for _, c := range calls {
		out = append(out, b.Axioms(b, c, func(goal Lin) bool { return b.Prove(goal, known) })...)
	}
	return out
}

type factsKey struct {
	blk *ssa.BasicBlock
	env string
}

// blockFacts: the facts of blockFactsRaw plus the induction invariants of every loop whose header
// is blk or dominates it.
func (b *Bounds) blockFacts(blk *ssa.BasicBlock) []Fact {
	mk := factsKey{blk, b.envKey[blk.Parent()]}
	if f, ok := b.allMemo[mk]; ok {
		return f
	}
	facts := b.blockFactsRaw(blk)
	if _, done := b.factsMemo[mk]; !done || b.factsMemo[mk] == nil && len(facts) == 0 {
		// raw facts still being computed (re-entrant request): do not cache
		return facts
	}
	defer func() { b.allMemo[mk] = facts }()
	copied := false
	for _, h := range blk.Parent().Blocks {
		if (h == blk || h.Dominates(blk)) && isLoopHeader(h) {
			if inv := b.loopInvariants(h); len(inv) > 0 {
				if !copied {
					facts = append([]Fact{}, facts...)
					copied = true
				}
				facts = append(facts, inv...)
			}
		}
	}
	return facts
}

// rawFactsAt: FactsAt without loop invariants (used while the invariants are being derived).
func (b *Bounds) rawFactsAt(blk *ssa.BasicBlock, idx int) []Fact {
	facts := append([]Fact{}, b.blockFactsRaw(blk)...)
	for i := 0; i < idx && i < len(blk.Instrs); i++ {
		if c, ok := blk.Instrs[i].(*ssa.Call); ok {
			facts = append(facts, b.callFacts(c, blk, true)...)
		}
	}
	return facts
}

// loopBodyOf: the natural loop of header h (blocks that reach a back edge without passing h).
func loopBodyOf(h *ssa.BasicBlock) map[*ssa.BasicBlock]bool {
	body := map[*ssa.BasicBlock]bool{h: true}
	var work []*ssa.BasicBlock
	for _, p := range h.Preds {
		if h.Dominates(p) {
			work = append(work, p)
		}
	}
	for len(work) > 0 {
		x := work[len(work)-1]
		work = work[:len(work)-1]
		if body[x] {
			continue
		}
		body[x] = true
		work = append(work, x.Preds...)
	}
	return body
}

// termLoopInvariant: the atom is defined outside the loop body (its value cannot change from one
// iteration to the next).
func termLoopInvariant(t Term, body map[*ssa.BasicBlock]bool) bool {
	if v, ok := t.K.(ssa.Value); ok {
		switch x := v.(type) {
		case *ssa.Parameter, *ssa.Const, *ssa.Global, *ssa.FreeVar:
			return true
		case ssa.Instruction:
			return !body[x.Block()]
		}
		return false
	}
	return TermDefinedOutside(t, body)
}

// loopInvariants derives induction invariants for the phis of loop header h. With e the value a
// phi p has when the loop is entered and d its increment along a back edge, bounded by constants
// lo <= d <= hi at the latch:
//   - lo >= 0 gives p - e >= 0 (hi <= 0 gives e - p >= 0);
//   - for a counter q (increment exactly s > 0 on every back edge, entry value f):
//     s*(p-e) - lo*(q-f) >= 0 and hi*(q-f) - s*(p-e) >= 0.
// Each holds on entry (both sides are zero) and is preserved by every back edge, hence whenever
// control is in a block the header dominates. p may be an integer or the length of a slice/string.
func (b *Bounds) loopInvariants(h *ssa.BasicBlock) []Fact {
	mk := factsKey{h, b.envKey[h.Parent()]}
	if f, ok := b.loopMemo[mk]; ok {
		return f
	}
	b.loopMemo[mk] = nil
	body := loopBodyOf(h)
	type ind struct {
		val, entry Lin
		lo, hi     int64
	}
	var inds []ind
	for _, in := range h.Instrs {
		phi, ok := in.(*ssa.Phi)
		if !ok {
			break
		}
		var valOf func(ssa.Value) Lin
		if bt, isB := phi.Type().Underlying().(*types.Basic); isB && bt.Info()&types.IsInteger != 0 {
			valOf = b.LinOf
		} else if isSeq(phi.Type()) {
			valOf = b.LenOf
		} else {
			continue
		}
		me := valOf(phi)
		if len(me.T) != 1 || me.C != 0 {
			continue
		}
		x := ind{val: me, lo: PosInf, hi: NegInf}
		haveEntry, ok2 := false, true
		for i, e := range phi.Edges {
			pred := h.Preds[i]
			if !body[pred] {
				ev := valOf(e)
				for t := range ev.T {
					if !termLoopInvariant(t, body) {
						ok2 = false
					}
				}
				if haveEntry && !ev.Equal(x.entry) {
					ok2 = false
				}
				x.entry, haveEntry = ev, true
				continue
			}
			d := valOf(e).Add(me, -1)
			lo, hi := b.boundsOfLin(d, b.rawFactsAt(pred, len(pred.Instrs)-1))
			if lo < x.lo {
				x.lo = lo
			}
			if hi > x.hi {
				x.hi = hi
			}
		}
		if !ok2 || !haveEntry || x.lo > x.hi {
			continue
		}
		inds = append(inds, x)
	}
	var out []Fact
	why := fmt.Sprintf("loop invariant (header block %d)", h.Index)
	const big = int64(1) << 20
	for i, p := range inds {
		dp := p.val.Add(p.entry, -1)
		if p.lo != NegInf && p.lo >= 0 {
			out = append(out, Fact{L: dp, Why: why})
		}
		if p.hi != PosInf && p.hi <= 0 {
			out = append(out, Fact{L: dp.Scale(-1), Why: why})
		}
		for j, q := range inds {
			if i == j || q.lo != q.hi || q.lo <= 0 || q.lo > big {
				continue
			}
			s := q.lo
			dq := q.val.Add(q.entry, -1)
			if p.lo != NegInf && abs64(p.lo) < big {
				out = append(out, Fact{L: dp.Scale(s).Add(dq, -p.lo), Why: why})
			}
			if p.hi != PosInf && abs64(p.hi) < big {
				out = append(out, Fact{L: dq.Scale(p.hi).Add(dp, -s), Why: why})
			}
		}
	}
	b.loopMemo[mk] = out
	return out
}

func (b *Bounds) blockFactsRaw(blk *ssa.BasicBlock) []Fact {
	mk := factsKey{blk, b.envKey[blk.Parent()]}
	if f, ok := b.factsMemo[mk]; ok {
		return f
	}
	b.factsMemo[mk] = nil
	var facts []Fact
	fn := blk.Parent()
	// dominating branch edges
	for _, a := range fn.Blocks {
		iff, ok := a.Instrs[len(a.Instrs)-1].(*ssa.If)
		if !ok || !a.Dominates(blk) || a == blk {
			continue
		}
		for si, truth := range []bool{true, false} {
			if a.Succs[0] == a.Succs[1] {
				continue
			}
			if EdgeDominates(a, a.Succs[si], blk) {
				facts = append(facts, b.condFacts(iff.Cond, truth, b.P.Pos(iff.Cond.Pos()))...)
			}
		}
	}
	// calls in strictly dominating blocks
	var calls []*ssa.Call
	for _, a := range fn.Blocks {
		if a == blk || !a.Dominates(blk) {
			continue
		}
		for _, in := range a.Instrs {
			if c, ok := in.(*ssa.Call); ok {
				facts = append(facts, b.callFacts(c, blk, false)...)
				calls = append(calls, c)
			}
		}
	}
	facts = append(facts, b.axiomFacts(calls, facts)...)
	b.factsMemo[mk] = facts
	return facts
}

// callFacts instantiates the callee's summary for the call, as seen from block `at`.
func (b *Bounds) callFacts(c *ssa.Call, at *ssa.BasicBlock, sameBlock bool) []Fact {
	// n := copy(dst, src): 0 <= n <= len(dst), n <= len(src)
	if bi, ok := c.Call.Value.(*ssa.Builtin); ok && bi.Name() == "copy" && len(c.Call.Args) == 2 {
		n := LinTerm(Term{K: callRes{c, 0}})
		return []Fact{{L: n, Why: "copy result"}, {L: b.LenOf(c.Call.Args[0]).Add(n, -1), Why: "copy result"}, {L: b.LenOf(c.Call.Args[1]).Add(n, -1), Why: "copy result"}}
	}
	// r := min(a, b, ...): r <= each argument; r := max(...): r >= each argument (the other
	// direction is a case split, see minMaxOfGoal)
	if bi, ok := c.Call.Value.(*ssa.Builtin); ok && (bi.Name() == "min" || bi.Name() == "max") && len(c.Call.Args) >= 1 {
		if _, _, isInt := intRangeOfType(c.Type()); isInt {
			rl := LinTerm(Term{K: callRes{c, 0}})
			var out []Fact
			for _, a := range c.Call.Args {
				if bi.Name() == "min" {
					out = append(out, Fact{L: b.LinOf(a).Add(rl, -1), Why: "min result"})
				} else {
					out = append(out, Fact{L: rl.Add(b.LinOf(a), -1), Why: "max result"})
				}
			}
			return out
		}
	}
	callee := c.Call.StaticCallee()
	if callee == nil || !InLib(callee) || len(callee.Blocks) == 0 {
		return nil
	}
	var out []Fact
	// constant integer arguments specialise the summary
	consts := map[int]int64{}
	for i, a := range c.Call.Args {
		if _, _, isInt := intRangeOfType(a.Type()); isInt {
			if l := b.LinOf(a); l.IsConst() {
				consts[i] = l.C
			}
		}
	}
	sum := b.SummaryFor(callee, consts)
	if sum == nil || len(sum.Facts) == 0 {
		return out
	}
	condHolds := map[[2]int]int{} // 0 unknown, 1 yes, 2 no
	holds := func(cd Cond, ridx int) bool {
		if cd == CondAlways {
			return true
		}
		if sameBlock {
			return false
		}
		ck := [2]int{int(cd), ridx}
		if v := condHolds[ck]; v != 0 {
			return v == 1
		}
		ok := false
		switch cd {
		case CondErrNil:
			ei := ErrIndex(callee)
			for _, e := range resultValues(c, ei) {
				edges, _ := CheckedNilEdges(e)
				for _, ed := range edges {
					if ed.From.Dominates(at) && EdgeDominates(ed.From, ed.To, at) {
						ok = true
					}
				}
			}
		case CondTrue, CondFalse:
			for _, e := range resultValues(c, ridx) {
				for _, ref := range *e.Referrers() {
					cond := ssa.Value(e)
					neg := false
					if u, isU := ref.(*ssa.UnOp); isU && u.Op == token.NOT {
						cond, neg = u, true
						_ = cond
						for _, r2 := range *u.Referrers() {
							if iff, isIf := r2.(*ssa.If); isIf {
								ok = ok || b.boolEdge(iff, at, (cd == CondTrue) != neg)
							}
						}
						continue
					}
					if iff, isIf := ref.(*ssa.If); isIf {
						ok = ok || b.boolEdge(iff, at, cd == CondTrue)
					}
				}
			}
		}
		if ok {
			condHolds[ck] = 1
		} else {
			condHolds[ck] = 2
		}
		return ok
	}
	for _, sf := range sum.Facts {
		if !holds(sf.Cond, sf.Idx) {
			continue
		}
		if l, ok := b.instantiate(sf.L, c); ok {
			out = append(out, Fact{L: l, Why: "post-condition of " + callee.Name() + " at " + b.P.Pos(c.Pos())})
		}
	}
	return out
}

func (b *Bounds) boolEdge(iff *ssa.If, at *ssa.BasicBlock, wantTrue bool) bool {
	blk := iff.Block()
	to := blk.Succs[1]
	if wantTrue {
		to = blk.Succs[0]
	}
	return blk.Dominates(at) && blk.Succs[0] != blk.Succs[1] && EdgeDominates(blk, to, at)
}

// resultValues: the SSA values that carry result i of call c.
func resultValues(c *ssa.Call, i int) []ssa.Value {
	if i < 0 {
		return nil
	}
	if c.Call.Signature().Results().Len() == 1 {
		if i == 0 {
			return []ssa.Value{c}
		}
		return nil
	}
	var out []ssa.Value
	for _, ref := range *c.Referrers() {
		if ex, ok := ref.(*ssa.Extract); ok && ex.Index == i {
			out = append(out, ex)
		}
	}
	return out
}

// instantiate rewrites a summary form (over slots) into the caller's terms at call c.
func (b *Bounds) instantiate(l Lin, c ssa.CallInstruction) (Lin, bool) {
	out := LinConst(l.C)
	args := c.Common().Args
	for t, k := range l.T {
		if fk, isF := t.K.(fieldKey); isF {
			sl, ok := fk.Base.(slot)
			if !ok {
				return Lin{}, false
			}
			if sl.Res {
				out = out.Add(LinTerm(Term{K: fieldKey{Base: callRes{c, sl.I}, Path: fk.Path, F: fk.F}, Len: t.Len}), k)
				continue
			}
			if sl.I >= len(args) {
				return Lin{}, false
			}
			// the caller may itself have stored the field just before the call
			if call, isCall := c.(*ssa.Call); isCall {
				if v, ok := b.fieldValueAt(call, args[sl.I], fk.Path); ok {
					if t.Len {
						out = out.Add(b.LenOf(v), k)
					} else {
						out = out.Add(b.LinOf(v), k)
					}
					continue
				}
			}
			base, prefix, ok := b.argBase(args[sl.I])
			if !ok {
				return Lin{}, false
			}
			out = out.Add(LinTerm(Term{K: fieldKey{Base: base, Path: prefix + fk.Path, F: fk.F}, Len: t.Len}), k)
			continue
		}
		s, ok := t.K.(slot)
		if !ok {
			return Lin{}, false
		}
		var sub Lin
		if s.Res {
			sub = LinTerm(Term{K: callRes{c, s.I}, Len: t.Len})
		} else {
			if s.I >= len(args) {
				return Lin{}, false
			}
			if t.Len {
				sub = b.LenOf(args[s.I])
			} else {
				sub = b.LinOf(args[s.I])
			}
		}
		out = out.Add(sub, k)
	}
	return out, true
}

// fieldValueAt: the value the caller stored into arg.<path> (a single field) by its only store to
// that field, when the store dominates the call.
func (b *Bounds) fieldValueAt(c *ssa.Call, arg ssa.Value, path string) (ssa.Value, bool) {
	if strings.Count(path, ".") != 1 || strings.Contains(path, "*") || strings.Contains(path, "[") || strings.Contains(path, "(") {
		return nil, false
	}
	fn := c.Parent()
	var st *ssa.Store
	for _, blk := range fn.Blocks {
		for _, in := range blk.Instrs {
			s, ok := in.(*ssa.Store)
			if !ok {
				continue
			}
			fa, ok := s.Addr.(*ssa.FieldAddr)
			if !ok {
				continue
			}
			stt, ok := Deref(fa.X.Type()).Underlying().(*types.Struct)
			if !ok || "."+stt.Field(fa.Field).Name() != path {
				continue
			}
			if !types.Identical(fa.X.Type(), arg.Type()) {
				continue
			}
			if fa.X != arg || st != nil {
				return nil, false
			}
			st = s
		}
	}
	if st == nil {
		return nil, false
	}
	if st.Block() == c.Block() {
		if InstrIndex(st) < InstrIndex(c) {
			return st.Val, true
		}
		return nil, false
	}
	if st.Block().Dominates(c.Block()) {
		return st.Val, true
	}
	return nil, false
}

// argBase: the caller-side base of an argument that is a parameter of the caller (possibly
// through a single-store cell) or the address of a field path of one.
func (b *Bounds) argBase(a ssa.Value) (any, string, bool) {
	prefix := ""
	for i := 0; i < 6; i++ {
		switch x := a.(type) {
		case *ssa.Parameter:
			return ssa.Value(x), prefix, true
		case *ssa.Extract, *ssa.Call:
			if cr, ok := termKey(a).(callRes); ok {
				return cr, prefix, true
			}
			return nil, "", false
		case *ssa.UnOp:
			if v, ok := b.resolveLoad(x); ok {
				a = v
				continue
			}
			if k, ok := b.fieldLoadKey(x.Parent(), x); ok {
				fk := k.(fieldKey)
				return fk.Base, fk.Path + prefix, true
			}
			return nil, "", false
		case *ssa.FieldAddr:
			st := Deref(x.X.Type()).Underlying().(*types.Struct)
			prefix = "." + st.Field(x.Field).Name() + prefix
			a = x.X
			continue
		case *ssa.ChangeType:
			a = x.X
			continue
		}
		break
	}
	return nil, "", false
}

// toSlots rewrites a form over fn's own values into slot terms; ok=false if a non-parameter atom remains.
func toSlots(fn *ssa.Function, l Lin, results map[Term]slot) (Lin, bool) {
	out := LinConst(l.C)
	for t, k := range l.T {
		if s, ok := results[t]; ok {
			out = out.Add(LinTerm(Term{K: s, Len: t.Len}), k)
			continue
		}
		if fk, isF := t.K.(fieldKey); isF {
			if bp, isP := fk.Base.(*ssa.Parameter); isP && bp.Parent() == fn {
				for i, q := range fn.Params {
					if q == bp {
						out = out.Add(LinTerm(Term{K: fieldKey{Base: slot{I: i}, Path: fk.Path, F: fk.F}, Len: t.Len}), k)
					}
				}
				continue
			}
			return Lin{}, false
		}
		p, ok := t.K.(*ssa.Parameter)
		if !ok {
			// ssa.Value holding a parameter
			if v, isV := t.K.(ssa.Value); isV {
				if pp, isP := v.(*ssa.Parameter); isP {
					p, ok = pp, true
				}
			}
		}
		if !ok || p.Parent() != fn {
			return Lin{}, false
		}
		idx := -1
		for i, q := range fn.Params {
			if q == p {
				idx = i
			}
		}
		if idx < 0 {
			return Lin{}, false
		}
		out = out.Add(LinTerm(Term{K: slot{I: idx}, Len: t.Len}), k)
	}
	return out, true
}

// ---- prover ------------------------------------------------------------------------------------

// Prove: goal >= 0 follows from facts and the atoms' type bounds.
func (b *Bounds) Prove(goal Lin, facts []Fact) bool {
	pool := make([]Lin, 0, len(facts)+8)
	var neqs []Lin
	for _, f := range facts {
		if f.Neq {
			neqs = append(neqs, f.L)
			continue
		}
		pool = append(pool, f.L)
	}
	// type bounds of every atom that occurs anywhere relevant
	seen := map[Term]bool{}
	addType := func(l Lin) {
		for t := range l.T {
			if seen[t] {
				continue
			}
			seen[t] = true
			lo, hi := b.typeBounds(t)
			if lo != NegInf {
				pool = append(pool, LinTerm(t).Add(LinConst(lo), -1))
			}
			if hi != PosInf {
				pool = append(pool, LinConst(hi).Add(LinTerm(t), -1))
			}
		}
	}
	addType(goal)
	for _, f := range facts {
		addType(f.L)
	}
	// d != 0 together with d >= 0 gives d >= 1 (and symmetrically); iterate to a fixpoint so
	// that chains such as len != 0, len != 1, len != 2 accumulate
	for round := 0; round < 6 && len(neqs) > 0; round++ {
		var rest []Lin
		for _, d := range neqs {
			switch {
			case fm(d, pool, 0, map[string]bool{}):
				pool = append(pool, d.Add(LinConst(1), -1))
			case fm(d.Scale(-1), pool, 0, map[string]bool{}):
				pool = append(pool, d.Scale(-1).Add(LinConst(1), -1))
			default:
				rest = append(rest, d)
			}
		}
		if len(rest) == len(neqs) {
			break
		}
		neqs = rest
	}
	return fm(goal, pool, 0, map[string]bool{})
}

// relevantPool keeps the facts connected to the goal through shared atoms (transitively); the
// others cannot take part in a derivation of the goal.
func relevantPool(goal Lin, pool []Lin) []Lin {
	if len(pool) < 8 {
		return pool
	}
	reach := map[Term]bool{}
	for t := range goal.T {
		reach[t] = true
	}
	used := make([]bool, len(pool))
	for changed := true; changed; {
		changed = false
		for i, f := range pool {
			if used[i] {
				continue
			}
			hit := false
			for t := range f.T {
				if reach[t] {
					hit = true
					break
				}
			}
			if hit {
				used[i] = true
				changed = true
				for t := range f.T {
					reach[t] = true
				}
			}
		}
	}
	out := make([]Lin, 0, len(pool))
	for i, f := range pool {
		if used[i] {
			out = append(out, f)
		}
	}
	// short facts first: derivations through them are found (and dead ends recognised) sooner
	sort.SliceStable(out, func(i, j int) bool { return len(out[i].T) < len(out[j].T) })
	return out
}

type fmState struct {
	seen   map[string]bool
	failed map[string]int // goal -> smallest depth at which the search for it failed
	budget int            // remaining goal expansions; an exhausted search fails (never hangs)
}

// FMBudget bounds the goal expansions of one Fourier-Motzkin search.
var FMBudget = 20000

func fm(goal Lin, pool []Lin, depth int, seen map[string]bool) bool {
	if goal.IsConst() {
		return goal.C >= 0
	}
	st := &fmState{seen: seen, failed: map[string]int{}, budget: FMBudget}
	return st.run(goal, relevantPool(goal, pool), depth)
}

func (st *fmState) run(goal Lin, pool []Lin, depth int) bool {
	if goal.IsConst() {
		return goal.C >= 0
	}
	if depth > 6 {
		return false
	}
	st.budget--
	if st.budget < 0 {
		return false
	}
	key := goal.String()
	if st.seen[key] {
		return false
	}
	if d, ok := st.failed[key]; ok && d <= depth {
		return false
	}
	st.seen[key] = true
	defer delete(st.seen, key)
	ok := st.step(goal, pool, depth)
	if !ok {
		if d, had := st.failed[key]; !had || depth < d {
			st.failed[key] = depth
		}
	}
	return ok
}

func (st *fmState) step(goal Lin, pool []Lin, depth int) bool {
	// choose an atom and eliminate it with a fact of the right sign
	// (deterministic order: by rendering)
	var terms []Term
	for t := range goal.T {
		terms = append(terms, t)
	}
	sort.Slice(terms, func(i, j int) bool { return termString(terms[i]) < termString(terms[j]) })
	for _, t := range terms {
		c := goal.T[t]
		for _, f := range pool {
			d := f.T[t]
			if d == 0 || (c > 0) != (d > 0) {
				continue
			}
			// |d|*goal - |c|*f eliminates t; f >= 0 so it suffices to prove the combination >= 0
			ad, ac := abs64(d), abs64(c)
			if ad > 1<<20 || ac > 1<<20 {
				continue
			}
			ng := goal.Scale(ad).Add(f, -ac)
			if len(ng.T) > len(goal.T)+2 {
				continue
			}
			if st.run(ng, pool, depth+1) {
				return true
			}
		}
	}
	return false
}

func abs64(x int64) int64 {
	if x < 0 {
		return -x
	}
	return x
}

// ---- summaries ---------------------------------------------------------------------------------

// Summary: post-conditions of fn over its parameter/result slots.
func (b *Bounds) Summary(fn *ssa.Function) *Summary { return b.SummaryFor(fn, nil) }

// SummaryFor: the summary of fn when the integer parameters in consts have the given values.
func (b *Bounds) SummaryFor(fn *ssa.Function, consts map[int]int64) *Summary {
	skey := ""
	if len(consts) > 0 {
		var ks []int
		for k := range consts {
			ks = append(ks, k)
		}
		sort.Ints(ks)
		for _, k := range ks {
			skey += fmt.Sprintf("%d=%d;", k, consts[k])
		}
	}
	if b.specSums == nil {
		b.specSums = map[*ssa.Function]map[string]*Summary{}
	}
	if s, ok := b.specSums[fn][skey]; ok {
		return s
	}
	if b.inProg[fn] {
		return nil
	}
	b.inProg[fn] = true
	defer delete(b.inProg, fn)
	sum := &Summary{}
	store := func() {
		if b.specSums[fn] == nil {
			b.specSums[fn] = map[string]*Summary{}
		}
		b.specSums[fn][skey] = sum
	}
	var constFacts []Fact
	if b.env == nil {
		b.env = map[*ssa.Parameter]int64{}
		b.envKey = map[*ssa.Function]string{}
	}
	if len(consts) > 0 {
		for i, c := range consts {
			if i < len(fn.Params) {
				b.env[fn.Params[i]] = c
			}
		}
		b.envKey[fn] = skey
		defer func() {
			for i := range consts {
				if i < len(fn.Params) {
					delete(b.env, fn.Params[i])
				}
			}
			delete(b.envKey, fn)
		}()
	}
	rets := Returns(fn)
	if len(rets) == 0 {
		store()
		return sum
	}
	nres := fn.Signature.Results().Len()
	ei := ErrIndex(fn)
	type condIdx struct {
		c   Cond
		idx int
	}
	conds := []condIdx{{CondAlways, 0}}
	if ei >= 0 {
		conds = append(conds, condIdx{CondErrNil, ei})
	}
	for k := 0; k < nres; k++ {
		if bt, ok := fn.Signature.Results().At(k).Type().Underlying().(*types.Basic); ok && bt.Kind() == types.Bool {
			conds = append(conds, condIdx{CondTrue, k}, condIdx{CondFalse, k})
		}
	}
	have := map[string]bool{}
	for _, ci := range conds {
		cond := ci.c
		// path contexts: one per (return, way of satisfying the condition)
		var ctxs []pathCtx
		for _, r := range rets {
			base := pathCtx{ret: r, facts: append(append([]Fact{}, constFacts...), b.FactsAt(r.Block(), len(r.Block().Instrs)-1)...)}
			switch cond {
			case CondAlways:
				ctxs = append(ctxs, base)
			case CondErrNil:
				ctxs = append(ctxs, b.valuePaths(r.Results[ei], r.Block(), base, 0, 0)...)
			case CondTrue:
				ctxs = append(ctxs, b.valuePaths(r.Results[ci.idx], r.Block(), base, 1, 0)...)
			case CondFalse:
				ctxs = append(ctxs, b.valuePaths(r.Results[ci.idx], r.Block(), base, 2, 0)...)
			}
		}
		// a result that is a join of alternatives is considered alternative by alternative
		var split []pathCtx
		for _, cx := range ctxs {
			blk := cx.ret.Block()
			hasPhi := false
			for _, rv := range cx.ret.Results {
				if phi, ok := rv.(*ssa.Phi); ok && phi.Block() == blk && !isLoopHeader(blk) {
					if _, done := cx.subst[Term{K: termKey(phi)}]; !done {
						if _, done2 := cx.subst[Term{K: termKey(phi), Len: true}]; !done2 {
							hasPhi = true
						}
					}
				}
			}
			if !hasPhi || len(blk.Preds) > 6 {
				split = append(split, cx)
				continue
			}
			for i, pred := range blk.Preds {
				nx := pathCtx{ret: cx.ret, subst: map[Term]Lin{}}
				for t, l := range cx.subst {
					nx.subst[t] = l
				}
				b.phiSubst(blk, i, nx.subst)
				nx.facts = append(append(append([]Fact{}, cx.facts...), b.FactsAt(pred, len(pred.Instrs)-1)...), b.edgeFacts(pred, blk)...)
				split = append(split, nx)
			}
		}
		ctxs = split
		// contexts whose facts contradict each other are infeasible
		feasible := ctxs[:0]
		for _, cx := range ctxs {
			if !b.inconsistent(cx.facts) {
				feasible = append(feasible, cx)
			}
		}
		ctxs = feasible
		if len(ctxs) == 0 {
			continue
		}
		resForm := func(cx pathCtx, k int) (Lin, bool, bool) { // form, isLen, ok
			v := cx.ret.Results[k]
			if _, _, ok := intRangeOfType(v.Type()); ok {
				return cx.apply(b.LinOf(v)), false, true
			}
			if isSeq(v.Type()) {
				return cx.apply(b.LenOf(v)), true, true
			}
			return Lin{}, false, false
		}
		// pointee length of a result that is the address of a local holding a sequence
		derefForm := func(cx pathCtx, k int) (Lin, bool) {
			v := cx.ret.Results[k]
			if _, isPtr := v.Type().Underlying().(*types.Pointer); isPtr && isSeq(Deref(v.Type())) {
				if cr, ok := termKey(v).(callRes); ok {
					return cx.apply(LinTerm(Term{K: fieldKey{Base: cr, Path: ".*"}, Len: true})), true
				}
			}
			al, ok := v.(*ssa.Alloc)
			if !ok || !isSeq(Deref(al.Type())) {
				return Lin{}, false
			}
			var val ssa.Value
			n := 0
			for _, ref := range *al.Referrers() {
				if st, ok := ref.(*ssa.Store); ok && st.Addr == ssa.Value(al) {
					n++
					val = st.Val
				}
			}
			if n != 1 {
				return Lin{}, false
			}
			return cx.apply(b.LenOf(val)), true
		}
		var cands []Lin
		addCand := func(l Lin) {
			k := fmt.Sprint(cond, ci.idx) + "|" + l.String()
			if !have[k] && len(cands) < 200 {
				have[k] = true
				cands = append(cands, l)
			}
		}
		for _, cx := range ctxs {
			// result terms of this context
			resMap := map[Term]slot{}
			for k := range cx.ret.Results {
				form, isLen, ok := resForm(cx, k)
				if !ok {
					continue
				}
				rt := LinTerm(Term{K: slot{I: k, Res: true}, Len: isLen})
				if sl, ok := toSlots(fn, form, nil); ok {
					addCand(rt.Add(sl, -1))
					addCand(sl.Add(rt, -1))
				} else {
					// the result depends on quantities local to fn: bound it from below and above by
					// forms over the parameters, using the facts of this way of returning
					for _, lower := range []bool{true, false} {
						if scale, bd, ok := b.boundForm(fn, form, cx.facts, lower); ok {
							if sl, ok := toSlots(fn, bd, nil); ok {
								if lower {
									addCand(rt.Scale(scale).Add(sl, -1))
								} else {
									addCand(sl.Add(rt, -scale))
								}
							}
						}
					}
				}
				// a result that is a single atom can stand for the result slot inside guard facts
				if len(form.T) == 1 && form.C == 0 {
					for t, c := range form.T {
						if c == 1 {
							if _, isParam := t.K.(*ssa.Parameter); !isParam {
								resMap[t] = slot{I: k, Res: true}
							}
						}
					}
				}
			}
			for _, f := range cx.facts {
				l := cx.apply(f.L)
				if f.Neq {
					// d != 0 becomes d >= 1 or -d >= 1 when one side is known
					switch {
					case b.Prove(l, cx.facts):
						l = l.Add(LinConst(1), -1)
					case b.Prove(l.Scale(-1), cx.facts):
						l = l.Scale(-1).Add(LinConst(1), -1)
					default:
						continue
					}
				}
				if sl, ok := toSlots(fn, l, resMap); ok && !sl.IsConst() {
					addCand(sl)
				}
			}
		}
		// interval bounds of integer results and result lengths
		for k := 0; k < nres; k++ {
			lo, hi := int64(PosInf), int64(NegInf)
			all, isLenK := true, false
			for _, cx := range ctxs {
				form, isLen, ok := resForm(cx, k)
				if !ok {
					all = false
					break
				}
				isLenK = isLen
				l, h := b.boundsOfLin(form, cx.facts)
				if l < lo {
					lo = l
				}
				if h > hi {
					hi = h
				}
			}
			if all {
				rt := LinTerm(Term{K: slot{I: k, Res: true}, Len: isLenK})
				if lo != NegInf && lo != PosInf {
					addCand(rt.Add(LinConst(lo), -1))
				}
				if hi != PosInf && hi != NegInf {
					addCand(LinConst(hi).Add(rt, -1))
				}
			}
		}
		for k := 0; k < nres; k++ {
			lo, hi := int64(PosInf), int64(NegInf)
			all := true
			for _, cx := range ctxs {
				form, ok := derefForm(cx, k)
				if !ok {
					if IsNilConst(cx.ret.Results[k]) {
						continue // nil pointer: never dereferenced on this path's success
					}
					all = false
					break
				}
				l, h := b.boundsOfLin(form, cx.facts)
				if h == PosInf {
					for _, k := range []int64{1, 2, 4, 7, 8, 32, 255, 65535} {
						if b.proveCtx(cx, LinConst(k).Add(form, -1)) {
							h = k
							break
						}
					}
				}
				if l < lo {
					lo = l
				}
				if h > hi {
					hi = h
				}
			}
			if all && hi != NegInf && hi != PosInf {
				rt := LinTerm(Term{K: fieldKey{Base: slot{I: k, Res: true}, Path: ".*"}, Len: true})
				addCand(LinConst(hi).Add(rt, -1))
				if lo != PosInf && lo != NegInf && lo > 0 {
					addCand(rt.Add(LinConst(lo), -1))
				}
			}
		}
		// validate every candidate in every context
		for _, cand := range cands {
			okAll := true
			for _, cx := range ctxs {
				goal := LinConst(cand.C)
				bad := false
				for t, k := range cand.T {
					switch s := t.K.(type) {
					case slot:
						if s.Res {
							form, isLen, ok := resForm(cx, s.I)
							if !ok || isLen != t.Len {
								bad = true
								break
							}
							goal = goal.Add(form, k)
						} else if c, isConst := b.env[fn.Params[s.I]]; isConst && !t.Len {
							goal = goal.Add(LinConst(c), k)
						} else {
							goal = goal.Add(LinTerm(Term{K: ssa.Value(fn.Params[s.I]), Len: t.Len}), k)
						}
					case fieldKey:
						sl, ok := s.Base.(slot)
						if ok && sl.Res && s.Path == ".*" && t.Len {
							if IsNilConst(cx.ret.Results[sl.I]) {
								continue
							}
							form, ok := derefForm(cx, sl.I)
							if !ok {
								bad = true
								break
							}
							goal = goal.Add(form, k)
							continue
						}
						if !ok || sl.Res {
							bad = true
							break
						}
						goal = goal.Add(LinTerm(Term{K: fieldKey{Base: ssa.Value(fn.Params[sl.I]), Path: s.Path, F: s.F}, Len: t.Len}), k)
					default:
						bad = true
					}
				}
				if bad || !(b.Prove(goal, cx.facts) || b.proveCtx(cx, goal)) {
					okAll = false
					break
				}
			}
			if okAll {
				sum.Facts = append(sum.Facts, SumFact{Cond: cond, Idx: ci.idx, L: cand})
			}
		}
	}
	store()
	return sum
}

// proveCtx proves a goal in a summary context, with the case splits of proveAt but without
// turning it into a pre-condition.
func (b *Bounds) proveCtx(cx pathCtx, goal Lin) bool {
	blk := cx.ret.Block()
	return b.proveAt(blk, len(blk.Instrs)-1, cx.apply(goal), cx.facts, b.MaxReqHops, 0, map[string]bool{}).OK
}

// inconsistent: some fact is refuted by the others.
func (b *Bounds) Inconsistent(facts []Fact) bool { return b.inconsistent(facts) }

func (b *Bounds) inconsistent(facts []Fact) bool {
	for i, f := range facts {
		if f.Neq || f.L.IsConst() {
			if !f.Neq && f.L.C < 0 {
				return true
			}
			continue
		}
		rest := append(append([]Fact{}, facts[:i]...), facts[i+1:]...)
		if b.Prove(f.L.Scale(-1).Add(LinConst(1), -1), rest) {
			return true
		}
	}
	return false
}

// boundsOfLin: interval of a form from constant bounds of its atoms (type bounds, or single-atom
// facts such as x - c >= 0).
func (b *Bounds) boundsOfLin(l Lin, facts []Fact) (lo, hi int64) {
	lo, hi = l.C, l.C
	for t, k := range l.T {
		tl, th := b.typeBounds(t)
		for _, f := range facts {
			if f.Neq || len(f.L.T) != 1 {
				continue
			}
			if c, ok := f.L.T[t]; ok {
				switch c {
				case 1: // t + C >= 0
					if -f.L.C > tl {
						tl = -f.L.C
					}
				case -1: // C - t >= 0
					if f.L.C < th {
						th = f.L.C
					}
				}
			}
		}
		if k < 0 {
			tl, th = th, tl
			if tl == PosInf {
				tl = NegInf
			} else if tl != NegInf {
				tl = -tl
			}
			if th == NegInf {
				th = PosInf
			} else if th != PosInf {
				th = -th
			}
			k = -k
		}
		if lo != NegInf {
			if tl == NegInf || k > 1<<20 {
				lo = NegInf
			} else {
				lo += k * tl
			}
		}
		if hi != PosInf {
			if th == PosInf || k > 1<<20 {
				hi = PosInf
			} else {
				hi += k * th
			}
		}
	}
	return
}

// PointeeLenOfResult: the atom for the length of the sequence that result idx of call c points to.
func (b *Bounds) PointeeLenOfResult(c *ssa.Call, idx int) Lin {
	return LinTerm(Term{K: fieldKey{Base: callRes{c, idx}, Path: ".*"}, Len: true})
}

// LowerBound: the largest constant c the engine can show with l - c >= 0 under the facts (interval
// bound first, then a search over small constants).
func (b *Bounds) LowerBound(l Lin, facts []Fact) (int64, bool) {
	lo, _ := b.boundsOfLin(l, facts)
	best, ok := lo, lo != NegInf
	for c := int64(16); c >= 1; c-- {
		if ok && c <= best {
			break
		}
		if b.Prove(l.Add(LinConst(c), -1), facts) {
			return c, true
		}
	}
	return best, ok
}

// pathCtx: facts that hold on one way of reaching a return, with the values the phis of the
// blocks on that way take.
type pathCtx struct {
	ret   *ssa.Return
	facts []Fact
	subst map[Term]Lin
}

func (cx pathCtx) apply(l Lin) Lin {
	for round := 0; round < 4; round++ {
		changed := false
		out := LinConst(l.C)
		for t, k := range l.T {
			if sub, ok := cx.subst[t]; ok {
				out = out.Add(sub, k)
				changed = true
			} else {
				out = out.Add(LinTerm(t), k)
			}
		}
		l = out
		if !changed {
			break
		}
	}
	return l
}

// applyOnce substitutes simultaneously, once (a back-edge value of a loop phi mentions the phi).
func (cx pathCtx) applyOnce(l Lin) Lin {
	out := LinConst(l.C)
	for t, k := range l.T {
		if sub, ok := cx.subst[t]; ok {
			out = out.Add(sub, k)
		} else {
			out = out.Add(LinTerm(t), k)
		}
	}
	return out
}

func isLoopHeader(blk *ssa.BasicBlock) bool {
	for _, p := range blk.Preds {
		if blk.Dominates(p) {
			return true
		}
	}
	return false
}

// edgeFacts: the condition under which control moves from pred to succ.
func (b *Bounds) edgeFacts(pred, succ *ssa.BasicBlock) []Fact {
	iff, ok := pred.Instrs[len(pred.Instrs)-1].(*ssa.If)
	if !ok || pred.Succs[0] == pred.Succs[1] {
		return nil
	}
	return b.condFacts(iff.Cond, pred.Succs[0] == succ, b.P.Pos(iff.Cond.Pos()))
}

// phiSubst: the values the phis of blk take when entered from its i-th predecessor.
func (b *Bounds) phiSubst(blk *ssa.BasicBlock, i int, into map[Term]Lin) {
	for _, in := range blk.Instrs {
		phi, ok := in.(*ssa.Phi)
		if !ok {
			break
		}
		if _, _, isInt := intRangeOfType(phi.Type()); isInt {
			into[Term{K: termKey(phi)}] = b.LinOf(phi.Edges[i])
		} else if isSeq(phi.Type()) {
			into[Term{K: termKey(phi), Len: true}] = b.LenOf(phi.Edges[i])
		}
	}
}

// valuePaths: the ways control can reach `at` with v == nil (mode 0), v == true (1) or v == false
// (2). When v is a phi of `at`, predecessors whose incoming value cannot satisfy the condition are
// dropped and the remaining ones contribute the facts of their own block and edge.
func (b *Bounds) valuePaths(v ssa.Value, at *ssa.BasicBlock, base pathCtx, mode, depth int) []pathCtx {
	sat, unsat := b.valueClass(v, at, mode)
	if unsat {
		return nil
	}
	phi, ok := v.(*ssa.Phi)
	if sat || !ok || phi.Block() != at || isLoopHeader(at) || depth > 3 {
		if !sat && mode != 0 {
			if _, isPhi := v.(*ssa.Phi); !isPhi {
				base.facts = append(append([]Fact{}, base.facts...), b.condFacts(v, mode == 1, "returned condition")...)
			}
		}
		// the value is itself the result of a library call: what that callee guarantees when it
		// returns such a value holds here too (e.g. `return validateX(n)` passes on "n <= MAX")
		if cr, isCR := termKey(v).(callRes); isCR && !sat {
			if call, isCall := cr.C.(*ssa.Call); isCall {
				if g := call.Call.StaticCallee(); g != nil && InLib(g) && len(g.Blocks) > 0 {
					want := map[int]Cond{0: CondErrNil, 1: CondTrue, 2: CondFalse}[mode]
					if sum := b.Summary(g); sum != nil {
						extra := append([]Fact{}, base.facts...)
						for _, sf := range sum.Facts {
							if sf.Cond == want && sf.Idx == cr.I {
								if l, ok := b.instantiate(sf.L, call); ok {
									extra = append(extra, Fact{L: l, Why: "post-condition of " + g.Name()})
								}
							}
						}
						base.facts = extra
					}
				}
			}
		}
		return []pathCtx{base}
	}
	var out []pathCtx
	for i, e := range phi.Edges {
		pred := at.Preds[i]
		if _, un := b.valueClass(e, pred, mode); un {
			continue
		}
		cx := pathCtx{ret: base.ret, subst: map[Term]Lin{}}
		for t, l := range base.subst {
			cx.subst[t] = l
		}
		b.phiSubst(at, i, cx.subst)
		cx.facts = append(append(append([]Fact{}, base.facts...), b.FactsAt(pred, len(pred.Instrs)-1)...), b.edgeFacts(pred, at)...)
		out = append(out, b.valuePaths(e, pred, cx, mode, depth+1)...)
	}
	return out
}

// valueClass: v definitely satisfies / definitely violates the condition of the mode.
func (b *Bounds) valueClass(v ssa.Value, at *ssa.BasicBlock, mode int) (sat, unsat bool) {
	if mode == 0 {
		if IsNilConst(v) {
			return true, false
		}
		if b.Flow.ClassAt(v, at) == DefNonNil {
			return false, true
		}
		return false, false
	}
	if c, ok := v.(*ssa.Const); ok && c.Value != nil && c.Value.Kind() == constant.Bool {
		val := constant.BoolVal(c.Value)
		return val == (mode == 1), val != (mode == 1)
	}
	return false, false
}

func isSeq(t types.Type) bool {
	switch u := t.Underlying().(type) {
	case *types.Slice:
		return true
	case *types.Basic:
		return u.Info()&types.IsString != 0
	}
	return false
}

func (c Cond) String() string {
	return [...]string{"always", "err==nil", "true", "false"}[c]
}

// ---- obligations -------------------------------------------------------------------------------

// Proof is the outcome for one goal.
type Proof struct {
	OK    bool
	How   string   // "local", "callers", ...
	Trail []string // for failures: where the chain stopped
}

// ProveAt proves goal >= 0 at instruction `in`, pushing it to the callers when it only mentions
// parameters of the enclosing function.
func (b *Bounds) ProveAt(in ssa.Instruction, goal Lin) Proof {
	return b.proveAt(in.Block(), InstrIndex(in), goal, nil, 0, 0, map[string]bool{})
}

// phiOfGoal: a non-loop-header phi of fn that occurs in the goal.
func phiOfGoal(goal Lin, facts []Fact, tried map[*ssa.Phi]bool) (*ssa.Phi, bool) {
	var best *ssa.Phi
	consider := func(l Lin) {
		for t := range l.T {
			if v, ok := t.K.(ssa.Value); ok {
				if phi, ok := v.(*ssa.Phi); ok && !isLoopHeader(phi.Block()) && !tried[phi] {
					if best == nil || phi.Block().Index > best.Block().Index || (phi.Block() == best.Block() && phi.Name() < best.Name()) {
						best = phi
					}
				}
			}
		}
	}
	consider(goal)
	if best == nil {
		// a join value that is related to the goal through one fact
		for _, f := range facts {
			shares := false
			for t := range f.L.T {
				if _, ok := goal.T[t]; ok {
					shares = true
				}
			}
			if shares {
				consider(f.L)
			}
		}
	}
	return best, best != nil
}

// minMaxOfGoal: a call of the builtin min/max on integers whose result occurs in the goal (or in a
// fact that shares an atom with the goal).
func minMaxOfGoal(goal Lin, facts []Fact) *ssa.Call {
	find := func(l Lin) *ssa.Call {
		for t := range l.T {
			if cr, ok := t.K.(callRes); ok {
				if call, ok := cr.C.(*ssa.Call); ok {
					if bi, ok := call.Call.Value.(*ssa.Builtin); ok && (bi.Name() == "min" || bi.Name() == "max" || (bi.Name() == "copy" && len(call.Call.Args) == 2)) {
						return call
					}
				}
			}
		}
		return nil
	}
	if c := find(goal); c != nil {
		return c
	}
	for _, f := range facts {
		shares := false
		for t := range f.L.T {
			if _, ok := goal.T[t]; ok {
				shares = true
			}
		}
		if shares {
			if c := find(f.L); c != nil {
				return c
			}
		}
	}
	return nil
}

// loopHeaderOfGoal: the innermost loop header that is blk or dominates it and one of whose phis
// occurs in the goal.
func loopHeaderOfGoal(goal Lin, blk *ssa.BasicBlock) *ssa.BasicBlock {
	var best *ssa.BasicBlock
	for t := range goal.T {
		v, ok := t.K.(ssa.Value)
		if !ok {
			continue
		}
		phi, ok := v.(*ssa.Phi)
		if !ok || !isLoopHeader(phi.Block()) {
			continue
		}
		h := phi.Block()
		if h != blk && !h.Dominates(blk) {
			continue
		}
		if best == nil || best.Dominates(h) {
			best = h
		}
	}
	return best
}

func (b *Bounds) proveAt(blk *ssa.BasicBlock, idx int, goal Lin, extra []Fact, hops, splits int, seen map[string]bool) Proof {
	fn := blk.Parent()
	facts := append(append([]Fact{}, b.FactsAt(blk, idx)...), extra...)
	for _, f := range facts {
		if !f.Neq && f.L.IsConst() && f.L.C < 0 {
			return Proof{OK: true, How: "local"} // unreachable: a constant condition on this path is false
		}
	}
	if b.Prove(goal, facts) {
		if hops == 0 {
			return Proof{OK: true, How: "local"}
		}
		return Proof{OK: true, How: fmt.Sprintf("callers(%d)", hops)}
	}
	// case split on a join: the goal must hold for whichever predecessor control came from
	if phi, ok := phiOfGoal(goal, facts, nil); ok && splits < 4 && (phi.Block() == blk || phi.Block().Dominates(blk)) {
		pb := phi.Block()
		all := true
		var trail []string
		for i, pred := range pb.Preds {
			sub := map[Term]Lin{}
			b.phiSubst(pb, i, sub)
			cx := pathCtx{subst: sub}
			var ex []Fact
			for _, f := range facts {
				ex = append(ex, Fact{L: cx.apply(f.L), Why: f.Why, Neq: f.Neq})
			}
			ex = append(ex, b.edgeFacts(pred, pb)...)
			pr := b.proveAt(pred, len(pred.Instrs)-1, cx.apply(goal), ex, hops, splits+1, seen)
			if !pr.OK {
				all = false
				trail = append([]string{fmt.Sprintf("via block %d -> join %d", pred.Index, pb.Index)}, pr.Trail...)
				break
			}
		}
		if all {
			return Proof{OK: true, How: "local"}
		}
		return Proof{Trail: trail}
	}
	// min/max of integers: the result equals one of the arguments
	if splits < 4 {
		if mm := minMaxOfGoal(goal, facts); mm != nil {
			rt := Term{K: callRes{mm, 0}}
			all := true
			isCopy := mm.Call.Value.(*ssa.Builtin).Name() == "copy"
			argForm := func(a ssa.Value) Lin {
				if isCopy {
					return b.LenOf(a) // copy(dst, src) = min(len(dst), len(src))
				}
				return b.LinOf(a)
			}
			for _, a := range mm.Call.Args {
				cx := pathCtx{subst: map[Term]Lin{rt: argForm(a)}}
				var ex []Fact
				for _, f := range facts {
					ex = append(ex, Fact{L: cx.applyOnce(f.L), Why: f.Why, Neq: f.Neq})
				}
				// in this case the chosen argument is the extremum
				for _, o := range mm.Call.Args {
					if o == a {
						continue
					}
					if mm.Call.Value.(*ssa.Builtin).Name() != "max" {
						ex = append(ex, Fact{L: argForm(o).Add(argForm(a), -1), Why: "min case"})
					} else {
						ex = append(ex, Fact{L: argForm(a).Add(argForm(o), -1), Why: "max case"})
					}
				}
				if pr := b.proveAt(blk, idx, cx.applyOnce(goal), ex, hops, splits+1, seen); !pr.OK {
					all = false
					break
				}
			}
			if all {
				return Proof{OK: true, How: "local"}
			}
		}
	}
	// induction over a loop: the goal mentions phis of a loop header that dominates this point and
	// otherwise only quantities that do not change inside the loop; it holds here if it holds on
	// entry and every back edge re-establishes it from the hypothesis
	if splits < 4 {
		if h := loopHeaderOfGoal(goal, blk); h != nil {
			body := loopBodyOf(h)
			inductive := true
			for t := range goal.T {
				if v, ok := t.K.(ssa.Value); ok {
					if phi, ok := v.(*ssa.Phi); ok && phi.Block() == h {
						continue
					}
				}
				if !termLoopInvariant(t, body) {
					inductive = false
				}
			}
			if inductive {
				all := true
				for i, pred := range h.Preds {
					sub := map[Term]Lin{}
					b.phiSubst(h, i, sub)
					cx := pathCtx{subst: sub}
					ex := b.edgeFacts(pred, h)
					if body[pred] {
						ex = append(ex, Fact{L: goal, Why: "induction hypothesis"})
					}
					if pr := b.proveAt(pred, len(pred.Instrs)-1, cx.applyOnce(goal), ex, hops, splits+1, seen); !pr.OK {
						all = false
						break
					}
				}
				if all {
					return Proof{OK: true, How: "local"}
				}
			}
		}
	}
	// several ways into the block: the goal may hold for a different reason on each
	if idx >= 0 && len(blk.Preds) >= 2 && len(blk.Preds) <= 6 && !isLoopHeader(blk) && splits < 4 {
		all := true
		for _, pred := range blk.Preds {
			ex := append(append([]Fact{}, facts...), b.edgeFacts(pred, blk)...)
			pr := b.proveAt(pred, len(pred.Instrs)-1, goal, ex, hops, splits+1, seen)
			if !pr.OK {
				all = false
				break
			}
		}
		if all {
			return Proof{OK: true, How: "local"}
		}
	}
	sl, ok := toSlots(fn, goal, nil)
	if !ok {
		if ng, ok2 := eliminateLocals(fn, goal, facts); ok2 {
			if s2, ok3 := toSlots(fn, ng, nil); ok3 {
				sl, ok, goal = s2, true, ng
			}
		}
	}
	if !ok {
		return Proof{Trail: []string{fmt.Sprintf("%s: cannot prove %s >= 0", FnKey(fn), goal)}}
	}
	if hops >= b.MaxReqHops {
		return Proof{Trail: []string{fmt.Sprintf("%s: pre-condition %s >= 0 not established within %d caller levels", FnKey(fn), goal, hops)}}
	}
	key := FnKey(fn) + "|" + sl.String()
	if seen[key] {
		return Proof{Trail: []string{FnKey(fn) + ": recursive pre-condition"}}
	}
	seen[key] = true
	defer delete(seen, key)
	if b.IsEntry != nil && b.IsEntry(fn) {
		return Proof{Trail: []string{fmt.Sprintf("%s is an entry point: any caller may violate %s >= 0", FnKey(fn), goal)}}
	}
	if fn.Parent() != nil || b.valueUse[fn] > 0 {
		return Proof{Trail: []string{fmt.Sprintf("%s is used as a function value: callers unknown for %s >= 0", FnKey(fn), goal)}}
	}
	var calls []*ssa.Call
	for _, c := range b.callers[fn] {
		if InLib(c.Parent()) && (b.InScope == nil || b.InScope(c.Parent())) {
			calls = append(calls, c)
		}
	}
	if len(calls) == 0 {
		return Proof{Trail: []string{fmt.Sprintf("%s: no static caller establishes %s >= 0", FnKey(fn), goal)}}
	}
	for _, c := range calls {
		inst, ok := b.instantiate(sl, c)
		if !ok {
			return Proof{Trail: []string{"cannot instantiate " + sl.String() + " at " + b.P.Pos(c.Pos())}}
		}
		pr := b.proveAt(c.Block(), InstrIndex(c), inst, nil, hops+1, 0, seen)
		if !pr.OK {
			pr.Trail = append([]string{fmt.Sprintf("%s requires %s >= 0; call at %s", FnKey(fn), goal, b.P.Pos(c.Pos()))}, pr.Trail...)
			return pr
		}
	}
	return Proof{OK: true, How: fmt.Sprintf("callers(%d)", hops+1)}
}

// boundForm bounds scale*form from below (lower) or above by a form over fn's parameters: atoms
// that are local to fn are cancelled against facts (or their type range) that mention them.
// lower: scale*form - bound is a non-negative combination of facts; upper: bound - scale*form is.
func (b *Bounds) boundForm(fn *ssa.Function, form Lin, facts []Fact, lower bool) (int64, Lin, bool) {
	isLocal := func(t Term) bool {
		_, ok := toSlots(fn, LinTerm(t), nil)
		return !ok
	}
	cur, scale := form, int64(1)
	for round := 0; round < 4; round++ {
		var local *Term
		for t := range cur.T {
			if isLocal(t) {
				tt := t
				if local == nil || termString(tt) < termString(*local) {
					local = &tt
				}
			}
		}
		if local == nil {
			return scale, cur, true
		}
		c := cur.T[*local]
		pool := append([]Fact{}, facts...)
		if lo, hi := b.typeBounds(*local); true {
			if lo != NegInf {
				pool = append(pool, Fact{L: LinTerm(*local).Add(LinConst(lo), -1)})
			}
			if hi != PosInf {
				pool = append(pool, Fact{L: LinConst(hi).Add(LinTerm(*local), -1)})
			}
		}
		done := false
		for _, f := range pool {
			if f.Neq {
				continue
			}
			d := f.L.T[*local]
			if d == 0 || (lower && (d > 0) != (c > 0)) || (!lower && (d > 0) == (c > 0)) {
				continue
			}
			ad, ac := abs64(d), abs64(c)
			if ad > 1<<16 || ac > 1<<16 || scale > 1<<16 {
				continue
			}
			var next Lin
			if lower {
				next = cur.Scale(ad).Add(f.L, -ac)
			} else {
				next = cur.Scale(ad).Add(f.L, ac)
			}
			intro := false
			for t := range next.T {
				if _, had := cur.T[t]; !had && isLocal(t) {
					intro = true
				}
			}
			if intro {
				continue
			}
			cur, scale, done = next, scale*ad, true
			break
		}
		if !done {
			return 0, Lin{}, false
		}
	}
	return 0, Lin{}, false
}

// eliminateLocals removes the atoms of goal that are not parameters of fn by combining it with
// facts (a positive multiple of the goal minus positive multiples of facts): if the result holds,
// so does the goal.
func eliminateLocals(fn *ssa.Function, goal Lin, facts []Fact) (Lin, bool) {
	isParamTerm := func(t Term) bool {
		switch k := t.K.(type) {
		case *ssa.Parameter:
			return k.Parent() == fn
		case fieldKey:
			p, ok := k.Base.(*ssa.Parameter)
			return ok && p.Parent() == fn
		}
		return false
	}
	for round := 0; round < 4; round++ {
		var local *Term
		for t := range goal.T {
			if !isParamTerm(t) {
				tt := t
				if local == nil || termString(tt) < termString(*local) {
					local = &tt
				}
			}
		}
		if local == nil {
			return goal, true
		}
		c := goal.T[*local]
		done := false
		for _, f := range facts {
			if f.Neq {
				continue
			}
			d := f.L.T[*local]
			if d == 0 || (c > 0) != (d > 0) {
				continue
			}
			ad, ac := abs64(d), abs64(c)
			if ad > 1<<16 || ac > 1<<16 {
				continue
			}
			ng := goal.Scale(ad).Add(f.L, -ac)
			// the combination must not introduce new local atoms
			intro := false
			for t := range ng.T {
				if !isParamTerm(t) {
					if _, had := goal.T[t]; !had {
						intro = true
					}
				}
			}
			if intro {
				continue
			}
			goal = ng
			done = true
			break
		}
		if !done {
			return goal, false
		}
	}
	return goal, false
}

// exportedReachable: exported function or exported method of an exported type.
func (b *Bounds) exportedReachable(fn *ssa.Function) bool {
	if recv := fn.Signature.Recv(); recv != nil {
		_, name := NamedOf(Deref(recv.Type()))
		return name != "" && token.IsExported(name)
	}
	return true
}

// TermKeyOf exposes the canonical atom key of a value.
func TermKeyOf(v ssa.Value) any { return termKey(v) }

// TermDefinedOutside: the instruction that defines the atom lies outside the given block set
// (call results, keyed loads whose base is a parameter).
func TermDefinedOutside(t Term, body map[*ssa.BasicBlock]bool) bool {
	switch k := t.K.(type) {
	case callRes:
		return !body[k.C.Block()]
	case fieldKey:
		switch base := k.Base.(type) {
		case *ssa.Parameter:
			return true
		case callRes:
			return !body[base.C.Block()]
		case ssa.Value:
			if in, ok := base.(ssa.Instruction); ok {
				return !body[in.Block()]
			}
			return true
		}
	}
	return false
}

// ResultFeasible reports whether fn can return `want` in boolean result 0 under the extra facts
// (over fn's parameters): some acyclic path to a return with that value has a consistent set of
// facts. Conditions and results computed by library callees returning bool are expanded into the
// callee's own paths (two levels), with the callee's parameters substituted by the arguments.
// "false" is a proof that no such execution exists (loops are cut at their back edges, so it is
// only used on loop-free predicates); "true" only means no path was refuted.
func (b *Bounds) ResultFeasible(fn *ssa.Function, want bool, extra []Fact) bool {
	for _, facts := range b.boolWays(fn, want, 0) {
		all := append(append([]Fact{}, facts...), extra...)
		if !b.inconsistent(all) {
			return true
		}
	}
	return false
}

// OkFeasible reports whether fn can reach a return that may succeed (error not definitely non-nil)
// under the extra facts over its parameters: some acyclic path to such a return has a consistent
// set of facts. As with ResultFeasible, "false" is a refutation and "true" only means that no path
// was refuted.
func (b *Bounds) OkFeasible(fn *ssa.Function, extra []Fact) bool {
	memo := map[*ssa.BasicBlock][]way{}
	for _, r := range b.Flow.OkReturns(fn) {
		for _, w := range b.pathWays(r.Block(), 0, memo) {
			cx := pathCtx{subst: w.subst}
			var facts []Fact
			for _, f := range w.facts {
				facts = append(facts, Fact{L: cx.apply(f.L), Why: f.Why, Neq: f.Neq})
			}
			if !b.inconsistent(append(facts, extra...)) {
				return true
			}
		}
	}
	return false
}

type way struct {
	facts []Fact
	subst map[Term]Lin
	phis  map[*ssa.Phi]ssa.Value
}

func (w way) clone() way {
	n := way{facts: append([]Fact{}, w.facts...), subst: map[Term]Lin{}, phis: map[*ssa.Phi]ssa.Value{}}
	for k, v := range w.subst {
		n.subst[k] = v
	}
	for k, v := range w.phis {
		n.phis[k] = v
	}
	return n
}

const maxWays = 256

// pathWays: one entry per acyclic path from the entry to blk, with the branch conditions taken.
func (b *Bounds) pathWays(blk *ssa.BasicBlock, depth int, memo map[*ssa.BasicBlock][]way) []way {
	if ws, ok := memo[blk]; ok {
		return ws
	}
	memo[blk] = nil
	var out []way
	if len(blk.Preds) == 0 {
		out = []way{{subst: map[Term]Lin{}, phis: map[*ssa.Phi]ssa.Value{}}}
	}
	for i, pred := range blk.Preds {
		if blk.Dominates(pred) {
			continue // back edge
		}
		var conds [][]Fact
		if iff, ok := pred.Instrs[len(pred.Instrs)-1].(*ssa.If); ok && pred.Succs[0] != pred.Succs[1] {
			conds = b.condWays(iff.Cond, pred.Succs[0] == blk, depth)
		} else {
			conds = [][]Fact{nil}
		}
		for _, w := range b.pathWays(pred, depth, memo) {
			for _, cf := range conds {
				if len(out) >= maxWays {
					break
				}
				nw := w.clone()
				nw.facts = append(nw.facts, cf...)
				b.phiSubst(blk, i, nw.subst)
				for _, in := range blk.Instrs {
					phi, ok := in.(*ssa.Phi)
					if !ok {
						break
					}
					nw.phis[phi] = phi.Edges[i]
				}
				out = append(out, nw)
			}
		}
	}
	memo[blk] = out
	return out
}

// condWays: alternative fact sets under which cond has the given truth value.
func (b *Bounds) condWays(cond ssa.Value, truth bool, depth int) [][]Fact {
	switch x := cond.(type) {
	case *ssa.Const:
		if x.Value != nil && x.Value.Kind() == constant.Bool {
			if constant.BoolVal(x.Value) == truth {
				return [][]Fact{nil}
			}
			return nil
		}
	case *ssa.UnOp:
		if x.Op == token.NOT {
			return b.condWays(x.X, !truth, depth)
		}
	case *ssa.Call:
		g := x.Call.StaticCallee()
		if g != nil && InLib(g) && len(g.Blocks) > 0 && depth < 2 && g.Signature.Results().Len() == 1 {
			var out [][]Fact
			for _, gf := range b.boolWays(g, truth, depth+1) {
				var inst []Fact
				for _, f := range gf {
					l := LinConst(f.L.C)
					for t, k := range f.L.T {
						sub := LinTerm(t)
						if p, isP := t.K.(*ssa.Parameter); isP && p.Parent() == g {
							for i, q := range g.Params {
								if q == p && i < len(x.Call.Args) {
									if t.Len {
										sub = b.LenOf(x.Call.Args[i])
									} else {
										sub = b.LinOf(x.Call.Args[i])
									}
								}
							}
						}
						l = l.Add(sub, k)
					}
					inst = append(inst, Fact{L: l, Why: f.Why, Neq: f.Neq})
				}
				out = append(out, inst)
			}
			return out
		}
	}
	return [][]Fact{b.condFacts(cond, truth, "condition")}
}

// boolWays: one fact set per acyclic path on which fn returns `want` in result 0.
func (b *Bounds) boolWays(fn *ssa.Function, want bool, depth int) [][]Fact {
	var out [][]Fact
	memo := map[*ssa.BasicBlock][]way{}
	for _, r := range Returns(fn) {
		if len(r.Results) == 0 {
			continue
		}
		for _, w := range b.pathWays(r.Block(), depth, memo) {
			v := r.Results[0]
			if phi, ok := v.(*ssa.Phi); ok {
				if e, ok := w.phis[phi]; ok {
					v = e
				}
			}
			cx := pathCtx{subst: w.subst}
			for _, cf := range b.condWays(v, want, depth) {
				var facts []Fact
				for _, f := range append(append([]Fact{}, w.facts...), cf...) {
					facts = append(facts, Fact{L: cx.apply(f.L), Why: f.Why, Neq: f.Neq})
				}
				out = append(out, facts)
			}
		}
	}
	return out
}

// ShapeOf renders a linear form with every atom replaced by a description of what kind of quantity
// it is (type, and for call results the callee's name) instead of its SSA name: two goals of the
// same shape differ only in where they occur. Used to key reviewed allowances independently of
// function names and positions.
func ShapeOf(l Lin) string {
	short := func(t types.Type) string {
		return types.TypeString(t, func(p *types.Package) string { return p.Name() })
	}
	desc := func(t Term) string {
		var s string
		switch k := t.K.(type) {
		case callRes:
			name := "call"
			if f := k.C.Common().StaticCallee(); f != nil {
				if InLib(f) {
					// library helpers may be renamed: describe the result by its type
					name = "library call"
					if sig := f.Signature; sig != nil && k.I < sig.Results().Len() {
						name = short(sig.Results().At(k.I).Type()) + " from a library call"
					}
				} else {
					name = FnKey(f)
				}
			} else if k.C.Common().IsInvoke() {
				name = "invoke " + k.C.Common().Method.Name()
			}
			s = name + "()"
		case fieldKey:
			s = "field" + k.Path
		case ssa.Value:
			switch k.(type) {
			case *ssa.Parameter:
				s = "param " + short(k.Type())
			default:
				s = short(k.Type())
			}
		default:
			s = fmt.Sprint(k)
		}
		if t.Len {
			return "len(" + s + ")"
		}
		return s
	}
	var parts []string
	for t, c := range l.T {
		parts = append(parts, fmt.Sprintf("%+d*%s", c, desc(t)))
	}
	sort.Strings(parts)
	return strings.Join(parts, " ") + fmt.Sprintf(" %+d >= 0", l.C)
}
