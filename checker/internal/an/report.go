package an

import (
	"encoding/json"
	"fmt"
	"os"
	"path/filepath"
	"sort"
	"strings"
	"time"
)

// Verdicts of one obligation (DESIGN.md §2.5).
const (
	Discharged = "discharged"
	Violated   = "violated"
	Undecided  = "undecided"
)

// Obligation is one rule instance.
type Obligation struct {
	Key        string   `json:"key"`  // rule/function/construct[/ordinal] — line-free
	Rule       string   `json:"rule"` // e.g. C10.T1
	Pos        string   `json:"pos,omitempty"`
	Verdict    string   `json:"verdict"`
	What       string   `json:"what,omitempty"` // one-line statement of what fails / was shown
	Facts      []string `json:"facts,omitempty"`
	Nontrivial bool     `json:"nontrivial"`
}

// Finding is an entry of known_findings.json.
type Finding struct {
	Property string `json:"property"`
	Key      string `json:"key"`
	Status   string `json:"status"` // "known" | "fixed"
	What     string `json:"what"`
	Commit   string `json:"commit,omitempty"`
	Line     string `json:"line,omitempty"` // the "fixed: property=... <commit> <what>" rendering
}

// Report accumulates the obligations of one property run.
type Report struct {
	Property    string
	Tier        string
	Seed        int64
	Start       time.Time
	Obs         []*Obligation
	Explanation string
	Rule        string
	Assumptions []string
	Trusted     []string
	Analysed    map[string]any
	Exhaustive  bool
	Extra       map[string]any
	Fatal       []string // checker-level failures (unresolved anchors, floors)
	keys        map[string]int
}

func NewReport(prop, tier string, seed int64) *Report {
	return &Report{Property: prop, Tier: tier, Seed: seed, Start: time.Now(),
		Analysed: map[string]any{}, Extra: map[string]any{}, keys: map[string]int{}}
}

// Add registers an obligation; duplicate keys get an ordinal suffix.
func (r *Report) Add(o *Obligation) *Obligation {
	r.keys[o.Key]++
	if n := r.keys[o.Key]; n > 1 {
		o.Key = fmt.Sprintf("%s#%d", o.Key, n)
	}
	r.Obs = append(r.Obs, o)
	return o
}

// Ob is shorthand to add an obligation.
func (r *Report) Ob(rule, key, pos, verdict, what string, facts ...string) *Obligation {
	return r.Add(&Obligation{Key: rule + "/" + key, Rule: rule, Pos: pos, Verdict: verdict, What: what, Facts: facts, Nontrivial: true})
}

// Check adds discharged/violated according to ok.
func (r *Report) Check(ok bool, rule, key, pos, what string, facts ...string) *Obligation {
	v := Discharged
	if !ok {
		v = Violated
	}
	return r.Ob(rule, key, pos, v, what, facts...)
}

// Fail records a checker-level failure (anchor not found, instance floor, panic).
func (r *Report) Fail(format string, a ...any) {
	r.Fatal = append(r.Fatal, fmt.Sprintf(format, a...))
}

// Floor fails the run when fewer than min instances were matched.
func (r *Report) Floor(what string, got, min int) {
	r.Analysed[what] = got
	if got < min {
		r.Fail("instance floor: %s = %d, expected at least %d (a rule that matches nothing passes vacuously)", what, got, min)
	}
}

func LoadFindings(path string) ([]Finding, error) {
	b, err := os.ReadFile(path)
	if err != nil {
		if os.IsNotExist(err) {
			return nil, nil
		}
		return nil, err
	}
	var f struct {
		Findings []Finding `json:"findings"`
	}
	if err := json.Unmarshal(b, &f); err != nil {
		return nil, fmt.Errorf("%s: %w", path, err)
	}
	return f.Findings, nil
}

// Finish prints KNOWN-FINDING / VIOLATION lines, writes the evidence file and replay records, and
// returns the process exit code.
func (r *Report) Finish(verifDir, evidencePath string, known []Finding, cmdline string) int {
	sort.SliceStable(r.Obs, func(i, j int) bool { return r.Obs[i].Key < r.Obs[j].Key })
	knownBy := map[string]Finding{}
	for _, k := range known {
		if k.Property == r.Property && k.Status == "known" {
			knownBy[k.Key] = k
		}
	}
	replayDir := filepath.Join(verifDir, "evidence", "replay")
	os.MkdirAll(replayDir, 0o755)
	var violations, knownHits, discharged, nontrivial int
	distinct := map[string]bool{}
	var bad []*Obligation
	for _, o := range r.Obs {
		if o.Nontrivial && !distinct[o.Key] {
			distinct[o.Key] = true
			nontrivial++
		}
		switch o.Verdict {
		case Discharged:
			discharged++
		default:
			if k, ok := knownBy[o.Key]; ok && o.Verdict == Violated {
				knownHits++
				fmt.Printf("KNOWN-FINDING: property=%s %s [%s at %s]\n", r.Property, k.What, o.Key, o.Pos)
				continue
			}
			bad = append(bad, o)
		}
	}
	for i, o := range bad {
		violations++
		name := fmt.Sprintf("%s-%d.json", r.Property, i+1)
		rp := filepath.Join(replayDir, name)
		b, _ := json.MarshalIndent(map[string]any{"property": r.Property, "obligation": o}, "", " ")
		os.WriteFile(rp, b, 0o644)
		fmt.Printf("%s %s: %s: %s %s\n", strings.ToUpper(o.Verdict), o.Pos, o.Key, o.What, strings.Join(o.Facts, "; "))
		fmt.Printf("VIOLATION property=%s replay=%s\n", r.Property, rp)
	}
	for i, f := range r.Fatal {
		violations++
		name := fmt.Sprintf("%s-fatal-%d.json", r.Property, i+1)
		rp := filepath.Join(replayDir, name)
		b, _ := json.MarshalIndent(map[string]any{"property": r.Property, "checker_failure": f}, "", " ")
		os.WriteFile(rp, b, 0o644)
		fmt.Printf("CHECK-FAILED %s\n", f)
		fmt.Printf("VIOLATION property=%s replay=%s\n", r.Property, rp)
	}
	// samples: rotate by seed
	var samples []any
	if n := len(r.Obs); n > 0 {
		step := n / 12
		if step == 0 {
			step = 1
		}
		off := int(uint64(r.Seed) % uint64(step))
		for i := off; i < n && len(samples) < 12; i += step {
			samples = append(samples, r.Obs[i])
		}
	}
	for _, o := range bad {
		if len(samples) < 24 {
			samples = append(samples, o)
		}
	}
	cov := map[string]any{
		"explanation":         r.Explanation,
		"obligations":         len(r.Obs),
		"discharged":          discharged,
		"evaluations":         len(r.Obs),
		"distinct_nontrivial": nontrivial,
		"rule":                r.Rule,
		"samples":             samples,
		"analysed":            r.Analysed,
		"checker_cmd":         cmdline,
		"trusted_base":        r.Trusted,
		"exhaustive":          r.Exhaustive,
		"known_findings_hit":  knownHits,
	}
	for k, v := range r.Extra {
		cov[k] = v
	}
	ev := map[string]any{
		"property_id": r.Property,
		"tier":        r.Tier,
		"seed":        r.Seed,
		"level":       "other",
		"coverage":    cov,
		"assumptions": r.Assumptions,
		"wall_s":      time.Since(r.Start).Seconds(),
		"violations":  violations,
	}
	if r.Assumptions == nil {
		ev["assumptions"] = []string{}
	}
	if r.Trusted == nil {
		cov["trusted_base"] = []string{}
	}
	b, _ := json.MarshalIndent(ev, "", " ")
	os.MkdirAll(filepath.Dir(evidencePath), 0o755)
	if err := os.WriteFile(evidencePath, append(b, '\n'), 0o644); err != nil {
		fmt.Printf("CHECK-FAILED cannot write evidence: %v\n", err)
		return 2
	}
	fmt.Printf("%s %s: %d obligations, %d discharged, %d known findings, %d violations (%.1fs)\n",
		r.Property, r.Tier, len(r.Obs), discharged, knownHits, violations, time.Since(r.Start).Seconds())
	if violations > 0 {
		return 1
	}
	return 0
}
